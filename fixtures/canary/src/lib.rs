//! Canary fixture: one positive example for every rule whose expected match count on /repo is
//! zero.  The checks analyse this crate on every run and report themselves broken if a rule
//! no longer fires here.  Nothing in this crate is ever executed.
#![allow(dead_code, unused)]

use std::cell::Cell;
use std::mem::ManuallyDrop;
use std::sync::atomic::{AtomicUsize, Ordering};

// ---- C09: effects -------------------------------------------------------------------------
pub static COUNTER: AtomicUsize = AtomicUsize::new(0);

pub struct Cache {
    hits: Cell<u32>,
}

pub fn clock() -> u64 {
    std::time::SystemTime::now()
        .duration_since(std::time::UNIX_EPOCH)
        .map(|d| d.as_secs())
        .unwrap_or(0)
}

pub fn environment() -> bool {
    std::env::var("X").is_ok()
}

pub fn threads() {
    std::thread::spawn(|| ()).join().ok();
}

pub fn atomics() -> usize {
    COUNTER.fetch_add(1, Ordering::SeqCst)
}

pub fn cells(c: &Cache) {
    c.hits.set(c.hits.get() + 1);
}

pub fn address(x: &u8) -> usize {
    x as *const u8 as usize
}

pub fn raw(p: *const u8) -> u8 {
    unsafe { *p }
}

// ---- C16: drop suppression / non-wiping secrets ----------------------------------------------
pub struct Secret {
    pub seed: [u8; 32],
}

pub struct Holder {
    pub inner: ManuallyDrop<Secret>,
}

pub fn forget(s: Secret) {
    std::mem::forget(s);
}

// ---- C15: hash-size literal in generic offset arithmetic -------------------------------------
pub trait Hash {
    const OUTPUT_SIZE: u16;
}

pub fn literal_offset<H: Hash>(buf: &[u8], index: usize) -> u8 {
    buf[index - 32]
}

// ---- C03: a counter written outside its owner -------------------------------------------------
pub mod counter {
    pub struct Count {
        pub(crate) count: u64,
    }
    impl Count {
        pub fn increment(&mut self) {
            self.count += 1;
        }
    }
}

pub fn foreign_writer(c: &mut counter::Count) {
    c.count = 7;
}

// ---- C06: panic-capable sites on untrusted input ----------------------------------------------
pub fn parse(data: &[u8]) -> u8 {
    let n = data[0] as usize;
    data[n..n + 4].iter().copied().next().unwrap()
}
