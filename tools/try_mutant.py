#!/usr/bin/env python3
"""Developer tool: apply a patch to a scratch copy of /repo (outside /repo and /verif), run the
named checks against it, print their verdicts, and delete the copy (with its build output).

  tools/try_mutant.py <patch.diff> C04 C09 ...      [--compile] [--tier quick]
"""
import os
import shutil
import subprocess
import sys
import tempfile

VERIF = os.path.dirname(os.path.dirname(os.path.abspath(__file__)))


def main():
    args = [a for a in sys.argv[1:] if not a.startswith("--")]
    flags = [a for a in sys.argv[1:] if a.startswith("--")]
    patch = os.path.abspath(args[0])
    props = args[1:]
    tmp = tempfile.mkdtemp(prefix="lmsmut-")
    try:
        dst = os.path.join(tmp, "repo")
        subprocess.check_call(["rsync", "-a", "--exclude", "target", "--exclude", ".git", "/repo/", dst + "/"])
        r = subprocess.run(["patch", "-p1", "--no-backup-if-mismatch", "-i", patch], cwd=dst, stdout=subprocess.PIPE, stderr=subprocess.STDOUT, text=True)
        if r.returncode != 0:
            print("PATCH FAILED\n" + r.stdout)
            return 2
        if "--compile" in flags:
            r = subprocess.run(["cargo", "check", "--offline", "--quiet", "--lib"], cwd=dst, env=dict(os.environ, CARGO_TARGET_DIR=os.path.join(tmp, "t")), stdout=subprocess.PIPE, stderr=subprocess.STDOUT, text=True)
            print("compiles:", r.returncode == 0)
            if r.returncode != 0:
                print(r.stdout[-2000:])
        env = dict(os.environ, LMS_REPO=dst, LMS_OUT=os.path.join(tmp, "out"), LMS_FACTS_DIR=os.path.join(tmp, "facts"))
        rc = 0
        for p in props:
            r = subprocess.run([os.path.join(VERIF, "check"), p] + [f for f in flags if f not in ("--compile", "--show")], env=env, stdout=subprocess.PIPE, stderr=subprocess.STDOUT, text=True)
            lines = r.stdout.strip().splitlines()
            print("== %s exit=%d" % (p, r.returncode))
            for l in lines[:40]:
                print("   " + l[:300])
            rc |= r.returncode
            if "--show" in flags:
                import glob, json
                for f in sorted(glob.glob(os.path.join(tmp, "out", "reports", p + "-*.json"))):
                    j = json.load(open(f))
                    print("   >> " + j.get("key", "") + "\n      " + j.get("message", "").replace("\n", "\n      ")[:1200])
        return 0
    finally:
        shutil.rmtree(tmp, ignore_errors=True)


if __name__ == "__main__":
    sys.exit(main())
