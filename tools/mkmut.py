#!/usr/bin/env python3
"""tools/mkmut.py <name> <file-relative-to-repo> <<< JSON [[old,new],...]  -> mutants/<name>.diff
Builds a unified diff by exact string replacement against /repo's current tree."""
import difflib, json, os, sys
VERIF = os.path.dirname(os.path.dirname(os.path.abspath(__file__)))
name, rel = sys.argv[1], sys.argv[2]
pairs = json.load(sys.stdin)
src = open(os.path.join("/repo", rel)).read()
new = src
for old, rep in pairs:
    if new.count(old) != 1:
        sys.exit("pattern occurs %d times: %r" % (new.count(old), old[:60]))
    new = new.replace(old, rep)
d = "".join(difflib.unified_diff(src.splitlines(True), new.splitlines(True), "a/" + rel, "b/" + rel))
out = os.path.join(VERIF, "mutants", name + ".diff")
mode = "a" if "--append" in sys.argv else "w"
open(out, mode).write(d)
print(out)
