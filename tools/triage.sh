#!/bin/bash
# tools/triage.sh <patch> C.. : one line per alarm (key + first line of detail)
p=$1; shift
python3 /verif/tools/try_mutant.py $p "$@" --show 2>&1 | grep -A2 ">>" | grep -v "^--" | paste - - - | cut -c1-330 | sort -u | head -${TRIAGE_MAX:-25}
