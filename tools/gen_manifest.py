#!/usr/bin/env python3
"""Generates /verif/MANIFEST.json from the table below (single source of truth)."""
import json
import os

VERIF = os.path.dirname(os.path.dirname(os.path.abspath(__file__)))

BASELINE = ("cd /repo && cargo nextest run --workspace --no-fail-fast --test-threads 8 --offline "
            "|| (cd /repo && cargo test --workspace --no-fail-fast --offline)")

CHECKS = {
    "C09": dict(
        category="proof",
        text=("Effect analysis over the type-checked MIR call graph: the crate defines no unsafe code, statics, "
              "thread-locals or interior-mutability fields, and no call site reachable from keygen / sign / verify / "
              "get_lifetime resolves to an RNG, clock, environment, thread, I/O, atomic or address-exposing operation "
              "(fast_verify builds: shown by constant propagation of message_mut=None from `sign`). In safe Rust that "
              "makes every result a function of the arguments, which is the whole statement of the property. The seed argument is "
              "its first n bytes: a who-may-access rule shows that the wider raw container is touched only by the seed type's own accessors."),
        note=("Trusts rustc's MIR construction and callee resolution, and the internals of allow-listed dependency crates. "
              "HashChain is user-implementable; shown for the six provided hashers."),
        technique="static effect analysis (who-may-call / who-may-access over resolved MIR call graph, crate-level absence rules, None constant propagation)",
        design_ref="DESIGN.md section 3 / C09",
    ),
}

CHECKS["C04"] = dict(
    category="proof",
    text=("Path property decided on the MIR control-flow graph of the signing core and the call graph above it: exactly one "
          "static call site of the update callback, loop-free and reached at most once per entry call; every ok-capable "
          "definition of the return place is dominated by the success edge of the test on the callback's result and the failure "
          "edge reaches only error returns; the callback's argument is the serialisation of the key after its increment and the "
          "serialiser reads every key field; failure edges of all earlier fallible steps cannot reach the callback and the one "
          "later fallible step cannot fail (capacity argument). All paths are covered, which is exactly what the property quantifies over."),
    note="Trusts rustc's MIR construction and the enumerated result-flow idioms (an unrecognised idiom fails closed). The user's callback body is out of scope.",
    technique="must-pass-through / edge-dominance analysis on MIR CFG, result-flow idioms, call-graph multiplicity",
    design_ref="DESIGN.md section 3 / C04",
)
CHECKS["C16"] = dict(
    category="proof",
    text=("Type-structural: every type embedding the zeroizing wrapper and every type containing one by value is enumerated from the "
          "ADT definitions; the MIR of each Zeroize and Drop impl must pass every storage-owning field to a zeroize call; leaf holders "
          "must wipe on drop; containers must consist of self-wiping parts; no drop suppression or Copy on secret types; the wrapper is "
          "wiped by zeroize's volatile whole-value impl with a full-capacity default; the explicit wipe on exhaustion overwrites every field."),
    note="Trusts the zeroize crate's DefaultIsZeroes impl and Rust drop glue. Transient plain byte buffers are observations, not violations.",
    technique="type containment closure + MIR field-coverage analysis of Zeroize/Drop impls",
    design_ref="DESIGN.md section 3 / C16",
)

CHECKS["C12"] = dict(
    category="other",
    text=("Clause-level. Decided: (1) the LM-OTS table (type, w, p, ls) extracted from the parameter constructor's call sites - arguments "
          "evaluated by interval analysis with each of the six hash output sizes as a singleton - equals RFC 8554 Appendix B recomputed by "
          "the checker; (2) on the source's own numbers the checksum fits 16 bits and every checksum bit lands in a signed digit; (3) signer, "
          "verifier and key generation use the chain routine in the roles 0..digit / digit..2^w-1 / 0..2^w-1, digits come from the one digit "
          "function applied to the checksum-appended digest with the chain index and w, loops run over 0..p, the checksum subtracts each digit "
          "from a w-only maximum over 8n/w digits and is shifted by ls; (4) the two sibling digit functions have identical index/shift/mask "
          "expression DAGs. NOT decided: that the digit function computes the RFC digit for all inputs (numeric identity)."),
    note="Known finding F7 (ls for (24,1),(16,1),(16,2)) is listed in known-findings.txt by exact key. Trusts the Appendix-B transcription in rules/paramtable.py.",
    technique="reference-table comparison of IA-evaluated constants; data-dependence role rules on MIR expression DAGs; sibling comparison",
    design_ref="DESIGN.md section 3 / C12",
)

CHECKS["C02"] = dict(
    category="other",
    text=("Clause-level: the rejection structure of RFC 8554 Algorithms 6a/6 is decided as guard facts over the MIR of the functions reachable "
          "from the three verification entry points - level-count equality, both type-code comparisons, leaf-index range, whole-value root "
          "comparison, tested result of every per-level verification with key/message chaining through signed public key i, exact-length "
          "comparison in both top-level parsers - each located by data dependence on the fields involved and required to lie on every path to the "
          "code it protects with its failing edge reaching only error returns; plus acceptance provenance (no other ok-capable return). "
          "NOT decided: that valid triples are accepted, nor that the compared hashes are the RFC's (C07)."),
    note="Necessary conditions of 'rejects everything RFC 8554 rejects'. Trusts derived PartialEq of the parameter structs and the field-name table in rules/c02.py (fails closed).",
    technique="guard-fact analysis: data-dependence located branches + edge dominance on MIR CFGs; return-place provenance; expression-DAG equality",
    design_ref="DESIGN.md section 3 / C02",
)

CHECKS["C03"] = dict(
    category="other",
    text=("Clause-level: the counter discipline the property names is decided structurally - every write to the counter field in the crate "
          "is enumerated and classified (constructors, exactly one +1 guarded by the exhaustion test, wipes; all inside the counter's own type); "
          "on a key value the counter member is replaced only by parser / generator / wipe and advanced by one call; in the signing core the order "
          "expansion < sign (success edge) < single increment < serialise < callback holds on one key local; level i's leaf is decomposition[i] taken "
          "with level i's parameter and child identity derives from level i-1's current leaf; the decomposition masks and shifts by the same level's "
          "height, bottom-up; the LMS key refuses leaves >= 2^h and advances its own index; the expanded key refuses to sign twice. "
          "NOT decided: that the decomposition equals the mixed-radix rule for all counters, nor uniqueness over all histories."),
    note="Necessary conditions; relies on C04 for the persistence protocol. Anchors resolved by role (key struct = parser result type, counter = the member wrapping one integer).",
    technique="who-may-write enumeration over MIR, dominance on the signing core, expression-DAG provenance rules, guard facts",
    design_ref="DESIGN.md section 3 / C03",
)

_PF_TEXT = ("Every panic-capable site (MIR Assert terminators for overflow / bounds / division, calls to partial callees such as unwrap, "
            "index, copy_from_slice, push, extend_from_slice, pow, explicit panics) in every function reachable from the entry points is "
            "enumerated from the type-checked MIR and must be discharged: (a) forward abstract interpretation over MIR (intervals, lengths of "
            "arrays / fixed-capacity vectors / slices, Ok-ness of Result/Option values, a>=b facts, field value and field length sets of "
            "constructor-only fields, iterator trip counts), run once per (hash size, LM-OTS parameter row) partition with all untrusted bytes "
            "and lengths unknown; (b) capacity- and accumulator-budget idioms (increments x loop trip counts <= capacity); (c) a reviewed "
            "obligation table whose every dependency (guard facts, table facts, structural facts) is re-checked against the current MIR. "
            "Termination: no (unbounded) recursion, every CFG loop driven by a finite iterator or a strictly decreasing measure. "
            "Anything undischarged is reported with the site, operand and call chain.")
CHECKS["C06"] = dict(
    category="proof",
    text=_PF_TEXT + " Entry points: verify, both Verifier::verify impls, Signature::from_bytes, VerifierSignature::{from_ref, from_bytes}, VerifyingKey::from_bytes.",
    note="Full modulo callee summaries: internals of core/tinyvec/digest/sha2/sha3 are assumed total except the partial functions listed in rules/summaries.py. usize = u64; overflow checks on.",
    technique="abstract interpretation over MIR (interval + length + variant domains, partitioned) + budget idioms + reviewed obligations with MIR-checked dependencies + loop/recursion analysis",
    design_ref="DESIGN.md section 3 / C06",
)
CHECKS["C11"] = dict(
    category="proof",
    text=_PF_TEXT + " Entry points: keygen, sign (sign_mut in fast_verify builds), SigningKey::{from_bytes, get_lifetime, try_sign_with_aux}, SignerMut::try_sign; "
         "the parameter-list length, the private-key bytes and the aux bytes are unknown. Additionally every fallible step before the update callback has its failure edge "
         "cut off from the callback, and the tree recursion is bounded by a guarded doubling of the node index.",
    note="Full modulo callee summaries (as C06). HssParameter::new with the `Reserved` enum variants is outside the property (constructing parameters is not an operation it lists).",
    technique="abstract interpretation over MIR (interval + length + variant domains, partitioned) + budget idioms + reviewed obligations with MIR-checked dependencies + loop/recursion analysis + dominance",
    design_ref="DESIGN.md section 3 / C11",
)

CHECKS["C05"] = dict(
    category="other",
    text=("Clause-level: (W1) the explicit wipe overwrites every field of the key struct wholesale with its default / zero value and the hand-written "
          "Default impls fill their whole array; (W2) the failure of the counter increment leads to the wipe inside the key-level increment the signing core "
          "calls; (W3) the parameter decoder rejects zero levels, the key expansion propagates that failure, and the signing and lifetime entries go through it; "
          "(A1) the bound the counter is compared with, evaluated by interval analysis under three partitions of the total height, is 2^t-1 for t<=63 and "
          "unreachable for t>=64; (S4) the lifetime loop runs bottom-up, multiplies each level's (size - used) by a factor without intra-iteration dependence "
          "on the level's own size; (A2) the accounting functions cannot fail arithmetically (panic-freedom engine, no bound on the total height). "
          "NOT decided: that exactly 2^(sum h) signatures succeed and that the reported number equals leaves - counter (numeric identities over histories)."),
    note="Necessary conditions only. Relies on C04 for the persistence order and C16-Z4 for the wrapper default.",
    technique="field-coverage analysis of the wipe, result-flow idioms, guard facts, interval analysis under height partitions, intra-iteration dependence analysis, panic-freedom engine",
    design_ref="DESIGN.md section 3 / C05",
)
CHECKS["C13"] = dict(
    category="other",
    text=("Clause-level: (S1) the counter decomposition, the increment and the lifetime computation are analysed by the panic-freedom engine as entry points "
          "with unknown counter and any accepted height list, no bound on the total height: every overflow / shift / bounds assertion and partial call is "
          "discharged (this is the 'without arithmetic failure' clause, decided for all inputs); (S2) the exhaustion threshold is 2^t-1 for t<=63 and never for "
          "t>=64 (interval analysis, three partitions); (S3) the decomposition masks and shifts by the same level's height, bottom-up, element index = level index, "
          "starting from the counter; (S4) the lifetime loop structure. NOT decided: equality with the mixed-radix digit rule for all 2^64 counters."),
    note="S1 is a proof of its clause modulo callee summaries; S2-S4 are necessary conditions.",
    technique="abstract interpretation over MIR (panic-freedom engine) + interval analysis under partitions + expression-DAG and intra-iteration dependence rules",
    design_ref="DESIGN.md section 3 / C13",
)

CHECKS["C10"] = dict(
    category="other",
    text=("Clause-level, all on the type-checked MIR: (X1) trust gate - cache slots are populated in exactly one function; inside it every path to a slot "
          "write takes either the `seed = None` edge or the success edge of a comparison of the WHOLE value returned by the MAC routine (a function of seed and "
          "buffer prefix) with the buffer remainder; the failing edge reaches only `None`; MAC'd prefix and carving loop range over the same layer table and header "
          "offset; (X2) every seedless call of the expander is dominated by a whole-slice zero fill with only header-confined writes in between, every other call "
          "passes the key's own seed; (X3) the fresh buffer is shrunk to the computed length before fill/marker/expansion; (X4) the MAC is written after the tree "
          "generation with the key's seed; (X5) cache scope typestate: a possibly attached cache reaches tree routines only with the caller's own identity, the root "
          "tree, or key-vector element 0 (first loop iteration, detached on every path back; the key builder detaches before pushing a second level; the "
          "bottom-level signer's key comes from that builder with the same cache variable); (X6) panic-freedom engine on every function touching the buffer or the "
          "cache, aux bytes and length unknown; (X7) the MAC writer hashes every cache slot; (X8) the MAC key and the keyed-hash preimages are the "
          "reference ones (closed world over the aux routines). NOT decided: that cached nodes equal recomputed nodes (output equality)."),
    note="Necessary conditions of transparency plus the authentication gate. Trusts ct_eq / slice equality comparing whole equal-length slices and slice::fill.",
    technique="who-may-construct enumeration, guard facts with edge removal, whole-value provenance, dominance, attached/detached typestate dataflow, panic-freedom engine (abstract interpretation)",
    design_ref="DESIGN.md section 3 / C10",
)

CHECKS["C14"] = dict(
    category="other",
    text=("Clause-level, per build configuration (the fact extractor is run under a matrix of HBS_LMS_* environments: per-level limits that differ, one level, "
          "mixed heights, eight minimal levels ...): (V1) every use of a configuration-dependent named constant in code reachable from the API is a limit use "
          "(comparison, indexed limit table, element-selecting loop bound) - never a length, offset or value; (V2) every function body has the same constants, callees "
          "and byte-array-to-slice lengths as in the default build; (V3) the decoder appends a parameter only on the success edge of the per-level limit predicate, "
          "which is a conjunction of both comparisons, parameters below keygen/sign/lifetime come only from the decoder, and the capacities evaluated from this "
          "configuration's constants cover the limits (authentication path, chain count, HSS signature length incl. the u16 length field); (V4) the panic-freedom "
          "engine discharges every site of C11's and C06's entry points with this configuration's capacities; (V5) the crate builds in the configuration. "
          "NOT decided: byte equality of keys and signatures across builds as a runtime fact."),
    note="V1+V2 give 'same code, same constants' for accepted parameter lists; V3+V4 give refusal instead of a crash. Configurations outside the matrix are not covered.",
    technique="build-matrix fact extraction; forward def-use classification of configuration-dependent constants; cross-configuration MIR skeleton comparison; guard facts; reference tables; abstract interpretation (panic-freedom engine) per configuration",
    design_ref="DESIGN.md section 3 / C14",
)

CHECKS["C15"] = dict(
    category="other",
    text=("Clause-level, on the MIR of the fast_verify builds: (M1) the caller's `&mut [u8]` message is followed from sign_mut through every function receiving it "
          "with a whole/prefix/suffix typestate: the only split is split_at_mut(len - H::OUTPUT_SIZE) and nothing tagged whole or prefix is ever stored through or handed "
          "mutably to a writer; (M2) the too-short test and the zero-trailer test (all(|b| b == 0) over the whole suffix) lie on every path to the signing core with "
          "failing edges reaching only error returns; (M3) sign_mut uses the same signing core as sign (C04 applies); (M4) the searcher gets the message hasher by shared "
          "reference and the trailer is absorbed exactly once afterwards (order randomizer, prefix, [search], suffix); (M5) no detached threads, the scope call dominates the "
          "drain, every Sender is gone before the drain; (M6) the panic-freedom engine from sign_mut over all hash sizes x LM-OTS rows discharges every site, the "
          "fast-verify ones by reviewed obligations tied to table facts per (n, w) row. NOT decided: that the returned signature verifies for every thread interleaving "
          "(a race over OsRng draws) - runtime/schedule behaviour, honest not-applicable part of the property."),
    note="Necessary conditions; the schedule-dependent core of the property is outside static reach. Trusts crossbeam's scope/channel contracts.",
    technique="interprocedural typestate of the mutable message slice over MIR; guard facts; absorb-order / reference-kind rules; dominance on scope and channel; panic-freedom engine (abstract interpretation + reviewed obligations)",
    design_ref="DESIGN.md section 3 / C15",
)

CHECKS["C07"] = dict(
    category="other",
    text=("Clause-level: (H1) every hash invocation of the library - sessions on hasher values enumerated over the MIR CFG paths, buffers resolved to their "
          "layouts across the functions that fill them - is one of the reference preimages transcribed from RFC 8554 (K, Q, leaf, interior node, chain step) or the "
          "hash-sigs derivation: order, static widths, u32/u16/u8 big-endian encodings, separator values, buffer offsets; no hasher is left half-absorbed; (H2) each RFC "
          "preimage occurs on the signing and on the verifying side; (H3) every byte serialiser matches a reference layout composed bottom-up (LM-OTS signature, LMS "
          "public key, LMS signature, signed public key, HSS signature, HSS public key); (H4) the count field is levels - 1; (H5) every randomizer handed to the LM-OTS "
          "signer is the seed-derived value with index 0xfffd, inside the level loop derived from that iteration's child seed; (H6) the (type -> w, p, ls) and (type -> h) "
          "tables equal Appendix B / section 5.1. NOT decided: byte equality with an independent signer on concrete inputs."),
    note="Known finding F7 (ls for three rows) is listed for C07 as well. Trusts the RFC transcription in rules/hlref.py.",
    technique="hash-session extraction over MIR CFG paths with interprocedural buffer layouts matched against reference preimages; bottom-up classification of serialiser append sequences; expression-DAG and intra-iteration dependence rules; reference tables",
    design_ref="DESIGN.md section 3 / C07",
)
CHECKS["C08"] = dict(
    category="other",
    text=("Clause-level: (K1) the closed-world preimage rule of C07-H1 plus presence of the hash-sigs derivation preimages: the PRNG block I@0 || u32 q@16 || u16 j@20 || "
          "0xff@22 || seed@23 hashed as the whole 55-byte block, the top-seed block with D_TOPSEED and which = 0/1/2, the chain-start derivation; (K2) derivation constants "
          "evaluated from the source; (K3) child seed = first, child I = first 16 bytes of the second output of one derivation object with index 0xfffe and the parent leaf; "
          "(K4) the key blob serialiser appends u64-BE counter || 8 parameter bytes || seed and the parser reads 8, 8, n and decodes big-endian; (K5) parameter byte = "
          "(LMS type code << 4) + LM-OTS type code, each nibble decoded through the type-code decoder of its enum, padding and end marker 0xff; (K6) public-key layout; (K7) every hash implementation returns the first "
          "OUTPUT_SIZE bytes of the underlying output. NOT decided: byte identity with the external hash-sigs tool."),
    note="Pins the derivation and encoding of the current tree against the transcribed reference; any consistent change on signer and loader side is still a mismatch with the table.",
    technique="hash-session extraction with interprocedural buffer layouts matched against hash-sigs reference preimages; evaluated constants; expression-DAG rules; writer/reader agreement",
    design_ref="DESIGN.md section 3 / C08",
)

NOT_APPLICABLE = {
    "C01": ("Round-trip completeness (sign then verify succeeds) is equality of two computations over runtime values "
            "(message, seed, counter, 6x4x5^L parameter shapes); no dataflow/typestate fact bounds it. Re-examined during the build: "
            "RFC-exactness (decided under C07/C12) is not a necessary condition of C01 (a deviation shared by signer and verifier keeps every "
            "signature verifying), so reusing those rules would alarm where C01 holds; the only necessary structural condition is agreement of "
            "signer and verifier, which the suite's round trips already pin for all six hashes. See DESIGN.md 12.1."),
}

PENDING = {}


def main():
    props = [json.loads(l)["id"] for l in open(os.path.join(VERIF, "properties.jsonl"))]
    checks = []
    for pid in props:
        if pid not in CHECKS:
            continue
        c = CHECKS[pid]
        checks.append({
            "property_id": pid,
            "quick_cmd": "./check %s --tier quick" % pid,
            "thorough_cmd": "./check %s --tier thorough" % pid,
            "evidence_file": "/verif/evidence/%s.json" % pid,
            "replay_cmd_template": "./check %s --explain {path}" % pid,
            "engine": "lmsfacts+rules",
            "level_claimed": {"category": c["category"], "text": c["text"], "design_ref": c["design_ref"]},
            "level_note": c["note"],
            "technique": c["technique"],
        })
    na = []
    for pid in props:
        if pid in CHECKS:
            continue
        reason = NOT_APPLICABLE.get(pid) or PENDING.get(pid) or "check not built yet (static-analysis engine for this property is still under construction)"
        na.append({"property_id": pid, "reason": reason})
    m = {
        "version": 1,
        "setup_cmd": "cd /verif/driver && CARGO_NET_OFFLINE=true cargo +nightly build --release --offline",
        "hooks": {
            "guard": "hbs_lms_verif",
            "enable": "none needed: the rustc_private driver reads private items directly; no instrumentation in /repo",
            "baseline_off_cmd": BASELINE,
            "source_commits": [],
            "add_only": True,
        },
        "engines": [
            {"name": "lmsfacts", "path": "driver/", "serves_properties": sorted(CHECKS),
             "kind_free_text": "rustc_private driver (nightly) run as RUSTC_WORKSPACE_WRAPPER under cargo check; serialises MIR, types, impls, consts of /repo's current tree as JSON facts"},
            {"name": "rules", "path": "rules/", "serves_properties": sorted(CHECKS),
             "kind_free_text": "Python (stdlib) static analyses over the facts: call graph, dominators, def-use slices, guard facts, interval analysis, effect analysis, reference tables"},
        ],
        "checks": checks,
        "not_applicable": na,
        "notes": "Static analysis only; see DESIGN.md. known-findings.txt lists genuine defects recorded rather than repaired.",
    }
    with open(os.path.join(VERIF, "MANIFEST.json"), "w") as fh:
        json.dump(m, fh, indent=1)
        fh.write("\n")


if __name__ == "__main__":
    main()
