#!/usr/bin/env python3
"""Confirm a candidate seeded change in a scratch worktree of /repo HEAD, then store it under
/verif/seeded/<id>/ (patch.diff, demo, meta.json).

  tools/confirm_seed.py <id> <property> <patch> <demo> <test:NAME | append:SRC/FILE.rs> [--features F] [--filter TESTFILTER] [--needs "..."]

Confirms: (1) patch applies to HEAD and compiles, (2) existing suite passes with the patch,
(3) demo fails with the patch, (4) demo passes without it.  The worktree and its build output are
removed afterwards."""
import json, os, shutil, subprocess, sys, time

VERIF = os.path.dirname(os.path.dirname(os.path.abspath(__file__)))
WT = "/tmp/wt-confirm-%d" % os.getpid()


def sh(cmd, cwd, env=None, timeout=3000):
    p = subprocess.run(cmd, cwd=cwd, shell=True, stdout=subprocess.PIPE, stderr=subprocess.STDOUT, text=True, env=env, timeout=timeout)
    return p.returncode, p.stdout


def main():
    a = sys.argv[1:]
    sid, prop, patch, demo, mode = a[:5]
    feats = a[a.index("--features") + 1] if "--features" in a else ""
    filt = a[a.index("--filter") + 1] if "--filter" in a else ""
    needs = a[a.index("--needs") + 1] if "--needs" in a else ""
    fflag = ("--features " + feats) if feats else ""
    demo_env = json.loads(a[a.index("--demo-env") + 1]) if "--demo-env" in a else {}
    rel = "--release" if "--release" in a else ""
    env = dict(os.environ, CARGO_TARGET_DIR=os.path.join(WT, "target"), CARGO_NET_OFFLINE="true")
    log = {}
    rc, out = sh("git -C /repo worktree add -q --detach %s HEAD" % WT, "/")
    assert rc == 0, out
    try:
        rc, out = sh("git apply --3way %s || git apply %s" % (patch, patch), WT)
        if rc != 0:
            print("PATCH DOES NOT APPLY\n" + out)
            return 2
        rc, out = sh("git diff HEAD -- src build.rs Cargo.toml", WT)
        final_patch = out
        rc, out = sh("cargo test --offline %s 2>&1 | grep -E '^test result|FAILED|^error' " % fflag, WT, env)
        ok_suite = "FAILED" not in out and "error" not in out and "test result: ok" in out
        if feats:
            # the pinned suite is the one without the feature: it must stay green as well
            rc, out0 = sh("cargo test --offline 2>&1 | grep -E '^test result|FAILED|^error' ", WT, env)
            ok_suite = ok_suite and "FAILED" not in out0 and "error" not in out0 and "test result: ok" in out0
            out = out + out0
        log["suite_with_patch"] = out.strip().splitlines()
        print("suite with patch:", "PASS" if ok_suite else "FAIL")
        # install demo
        kind, target = mode.split(":", 1)
        if kind == "test":
            shutil.copy(demo, os.path.join(WT, "tests", target + ".rs"))
            demo_cmd = "cargo test --offline %s %s --test %s %s" % (rel, fflag, target, filt)
        else:
            with open(os.path.join(WT, target), "a") as fh:
                fh.write("\n" + open(demo).read())
            demo_cmd = "cargo test --offline %s --lib %s" % (fflag, filt)
        denv = dict(env, **demo_env)
        if demo_env:
            denv["CARGO_TARGET_DIR"] = os.path.join(WT, "target-demo")
        rc1, out1 = sh(demo_cmd + " 2>&1 | tail -25", WT, denv)
        fails_with = "FAILED" in out1 or "panicked" in out1 or "error" in out1.lower() and "test result: ok" not in out1
        log["demo_with_patch"] = out1.strip().splitlines()[-12:]
        print("demo with patch:", "FAIL (as required)" if fails_with else "PASS (mutant not demonstrated)")
        # remove the patch (keep the demo)
        sh("git apply -R --3way %s || git apply -R %s" % (patch, patch), WT)
        rc, cur = sh("git diff HEAD --stat -- src", WT)
        if kind == "append":
            pass
        rc2, out2 = sh(demo_cmd + " 2>&1 | tail -12", WT, denv)
        passes_without = "test result: ok" in out2 and "FAILED" not in out2
        log["demo_without_patch"] = out2.strip().splitlines()[-6:]
        print("demo without patch:", "PASS (as required)" if passes_without else "FAIL")
        good = ok_suite and fails_with and passes_without
        if good:
            d = os.path.join(VERIF, "seeded", sid)
            os.makedirs(d, exist_ok=True)
            open(os.path.join(d, "patch.diff"), "w").write(final_patch)
            shutil.copy(demo, os.path.join(d, "demo.rs"))
            meta = {
                "id": sid, "property": prop, "needs_to_manifest": needs,
                "demo_install": mode, "features": feats, "demo_env": demo_env,
                "confirmed": {"suite_with_patch": "pass", "demo_with_patch": "fail", "demo_without_patch": "pass"},
                "ran": ["cargo test --offline %s (with patch)" % fflag, demo_cmd + " (with patch)", demo_cmd + " (without patch)"],
                "base_commit": subprocess.check_output(["git", "-C", "/repo", "rev-parse", "HEAD"], text=True).strip(),
                "log": log,
            }
            json.dump(meta, open(os.path.join(d, "meta.json"), "w"), indent=1)
            print("KEPT ->", d)
        else:
            print("NOT KEPT")
            print(json.dumps(log, indent=1)[:3000])
        return 0 if good else 1
    finally:
        sh("git -C /repo worktree remove --force %s" % WT, "/")
        shutil.rmtree(WT, ignore_errors=True)


if __name__ == "__main__":
    sys.exit(main())
