#!/usr/bin/env python3
"""Developer tool (not a registered check): run every stored change (mutants/*.diff, seeded/*/patch.diff)
against the checks expected to catch it, each on its own scratch copy of /repo outside /repo and /verif,
in parallel, and write the matrix to selftest-results.json.

  tools/selftest.py [name-filter] [--jobs N]

Expectations come from the name (cNN-... -> CNN) plus the EXTRA table below; `revert-fixN` maps to the
property the fix was recorded under.  A change that no listed check catches is printed as MISSED."""
import concurrent.futures as cf
import json
import os
import re
import subprocess
import sys

VERIF = os.path.dirname(os.path.dirname(os.path.abspath(__file__)))

# revert-fixN reverts the N-th "fix:" commit of /repo (in commit order)
EXTRA = {
    "revert-fix1": ["C06"], "revert-fix2": ["C02"], "revert-fix3": ["C11"], "revert-fix4": ["C10"], "revert-fix5": ["C13", "C05"],
    "revert-fix6": ["C14"], "revert-fix7": ["C15"], "revert-fix8": ["C11"], "revert-fix9": ["C14"], "revert-fix10": ["C06"], "revert-fix11": ["C10"], "revert-fix12": ["C11", "C04", "C15"],
    "c02-m3": ["C02", "C07"], "c02-m4": ["C02", "C12"], "c16-m5": ["C16", "C05"], "c03-m6": ["C03", "C08"], "c05-m4": ["C05", "C13"], "c05-m5": ["C05", "C03", "C13"],
    "c03-m7": ["C03", "C04"], "c07-m7": ["C07", "C12"], "c09-m8": ["C09", "C10"],
    "c04-m6": ["C04", "C15"], "c09-m6": ["C09", "C15"], "c07-m2": ["C03", "C13"], "c07-m1": ["C07", "C08"], "c07-m5": ["C12"], "c08-m3": ["C08", "C07"], "c05-m1": ["C05", "C13"], "c03-inc-before-test": ["C03", "C05"],
}
# behaviour-preserving rewrites: every listed check must stay silent
BENIGN = {"c04-benign-match": ["C04"], "c07-benign-literal-separator": ["C07", "C08"]}
# benign/*.diff (behaviour-preserving refactors written by sub-agents): every registered check must stay silent, except the
# documented limitation (DESIGN 12.4): a serialiser that appends its fields through a loop over an array literal
KNOWN_LIMITATION = {
    # a serialiser appending its fields through `for part in [a, b, c]` (array literal iterated by a loop)
    "benign-hss-r9": ["C07", "C08", "C11", "C14", "C15"], "benign-hss-r9b": ["C07", "C08", "C11", "C14", "C15"],
    # aux code moved away from / restructured under its reviewed obligations (node arithmetic helper, length computation, expander)
    "benign-hssc-r3": ["C10", "C11", "C14", "C15"], "benign-hssc-r4": ["C10", "C11", "C14", "C15"], "benign-hssc-r5": ["C10", "C11", "C14", "C15"],
    # fast-verify evaluator rewritten with map/collect and split halves (shape requirements of the fv-eval obligation)
    "benign-lmsd-r3": ["C15"],
}
ALL = ["C%02d" % i for i in range(2, 17)]


def registered():
    m = json.load(open(os.path.join(VERIF, "MANIFEST.json")))
    return {c["property_id"] for c in m["checks"]}


def collect(filt):
    items = []
    for fn in sorted(os.listdir(os.path.join(VERIF, "mutants"))):
        if fn.endswith(".diff"):
            items.append((fn[:-5], os.path.join(VERIF, "mutants", fn)))
    for d in sorted(os.listdir(os.path.join(VERIF, "seeded"))):
        p = os.path.join(VERIF, "seeded", d, "patch.diff")
        if os.path.exists(p):
            items.append((d, p))
    bd = os.path.join(VERIF, "benign")
    for fn in sorted(os.listdir(bd)) if os.path.isdir(bd) else []:
        if fn.endswith(".diff"):
            BENIGN["benign-" + fn[:-5]] = ALL
            items.append(("benign-" + fn[:-5], os.path.join(bd, fn)))
    return [(n, p) for n, p in items if not filt or filt in n]


def expected(name):
    if name in BENIGN:
        return BENIGN[name]
    if name in EXTRA:
        return EXTRA[name]
    m = re.match(r"c(\d\d)-", name)
    return ["C" + m.group(1)] if m else []


def run_one(args):
    name, patch, props = args
    r = subprocess.run([os.path.join(VERIF, "tools", "try_mutant.py"), patch] + props, stdout=subprocess.PIPE, stderr=subprocess.STDOUT, text=True)
    out = r.stdout
    if "PATCH FAILED" in out:
        return name, {"applies": False}
    res = {"applies": True, "checks": {}}
    cur = None
    for l in out.splitlines():
        m = re.match(r"== (C\d\d) exit=(\d+)", l)
        if m:
            cur = m.group(1)
            res["checks"][cur] = {"exit": int(m.group(2)), "rules": []}
        m = re.search(r"rule=(\S+)", l)
        if m and cur:
            if m.group(1) not in res["checks"][cur]["rules"]:
                res["checks"][cur]["rules"].append(m.group(1))
    return name, res


def main():
    argv = sys.argv[1:]
    jobs = 6
    if "--jobs" in argv:
        i = argv.index("--jobs")
        jobs = int(argv[i + 1])
        del argv[i:i + 2]
    a = [x for x in argv if not x.startswith("--")]
    reg = registered()
    work = []
    for n, p in collect(a[0] if a else None):
        props = [x for x in expected(n) if x in reg]
        if props:
            work.append((n, p, props))
        else:
            print("%-34s (no registered check expected: %s)" % (n, expected(n)))
    results = {}
    with cf.ThreadPoolExecutor(jobs) as ex:
        for name, res in ex.map(run_one, work):
            results[name] = res
            if not res["applies"]:
                print("%-34s patch does not apply to the current tree" % name)
                continue
            caught = [c for c, v in res["checks"].items() if v["exit"] != 0]
            if name in BENIGN:
                lim = KNOWN_LIMITATION.get(name, [])
                res["known_limitation"] = [c for c in caught if c in lim]
                caught = [c for c in caught if c not in lim]
                for c in lim:
                    res["checks"].get(c, {})["exit"] = 0
                print("%-34s benign rewrite: %s%s" % (name, "FALSE ALARM from " + ",".join(caught) if caught else "silent (as required)",
                                                      " [documented limitation: %s]" % ",".join(res["known_limitation"]) if res["known_limitation"] else ""))
                res["benign"] = True
                continue
            print("%-34s %s %s" % (name, "caught by " + ",".join(caught) if caught else "MISSED", {c: v["rules"][:2] for c, v in res["checks"].items() if v["exit"]}))
    out = os.path.join(VERIF, "selftest-results.json")
    old = {}
    if a and os.path.exists(out):
        old = json.load(open(out))
    old.update(results)
    json.dump(old, open(out, "w"), indent=1, sort_keys=True)
    missed = [n for n, r in results.items() if r.get("applies") and (any(v["exit"] for v in r["checks"].values()) if r.get("benign") else not any(v["exit"] for v in r["checks"].values()))]
    print("\n%d changes run, %d missed: %s" % (len(results), len(missed), missed))
    return 1 if missed else 0


if __name__ == "__main__":
    sys.exit(main())
