"""Developer helper:  from tools.dbg import *;  F, A = load(cfg)   (honours LMS_REPO / LMS_FACTS_DIR)."""
import os, sys
sys.path.insert(0, os.path.dirname(os.path.dirname(os.path.abspath(__file__))))
from rules import core, extract, expr, flow, api, gf, ia, pf  # noqa


def load(cfg="default"):
    F = core.Facts(extract.load(cfg), cfg)
    return F, api.Api(F)
