//! lmsfacts: rustc_private driver that serialises the type-checked program (MIR, types, impls,
//! constants) of one crate as JSON "facts" for the Python rule layer in /verif/rules.
//!
//! Used as RUSTC_WORKSPACE_WRAPPER under `cargo +nightly check`. It never runs library code.
#![feature(rustc_private)]
#![allow(clippy::all)]

extern crate rustc_abi;
extern crate rustc_data_structures;
extern crate rustc_driver;
extern crate rustc_hir;
extern crate rustc_interface;
extern crate rustc_middle;
extern crate rustc_session;
extern crate rustc_span;

mod json;
use json::J;

use rustc_hir::def::DefKind;
use rustc_hir::def_id::{DefId, LocalDefId, LOCAL_CRATE};
use rustc_middle::mir::{
    self, AggregateKind, BasicBlock, Body, BorrowKind, Const as MirConst, ConstValue, Operand,
    Place, PlaceRef, ProjectionElem, Rvalue, StatementKind, TerminatorKind, UnwindAction,
};
use rustc_middle::ty::print::{with_no_trimmed_paths, with_no_visible_paths};
use rustc_middle::ty::{self, GenericArgsRef, Instance, Ty, TyCtxt, TypingEnv};
use rustc_span::Span;

struct Cb;

impl rustc_driver::Callbacks for Cb {
    fn after_analysis<'tcx>(
        &mut self,
        _compiler: &rustc_interface::interface::Compiler,
        tcx: TyCtxt<'tcx>,
    ) -> rustc_driver::Compilation {
        let want = std::env::var("LMSFACTS_CRATE").unwrap_or_else(|_| "hbs_lms".to_string());
        let name = tcx.crate_name(LOCAL_CRATE).to_string();
        if name == want {
            if let Ok(out) = std::env::var("LMSFACTS_OUT") {
                let facts = with_no_visible_paths!(with_no_trimmed_paths!(dump_crate(tcx)));
                let mut s = String::with_capacity(1 << 22);
                facts.write(&mut s);
                s.push('\n');
                // one write per process
                std::fs::write(&out, s).expect("lmsfacts: cannot write facts");
            }
        }
        rustc_driver::Compilation::Continue
    }
}

fn main() {
    let mut args: Vec<String> = std::env::args().collect();
    // As RUSTC_WORKSPACE_WRAPPER we are called as `<driver> <path-to-rustc> <args...>`.
    if args.len() > 1 && (args[1].ends_with("rustc") || args[1].ends_with("rustc.exe")) {
        args.remove(1);
    }
    rustc_driver::run_compiler(&args, &mut Cb);
}

// ------------------------------------------------------------------------------------------

fn span_json(tcx: TyCtxt<'_>, span: Span) -> J {
    let sm = tcx.sess.source_map();
    let lo = sm.lookup_char_pos(span.lo());
    let hi = sm.lookup_char_pos(span.hi());
    let file = match &lo.file.name {
        rustc_span::FileName::Real(r) => match r.local_path() {
            Some(p) => p.to_string_lossy().to_string(),
            None => format!("{:?}", r),
        },
        other => format!("{:?}", other),
    };
    J::obj()
        .put("file", J::s(file))
        .put("line", J::Int(lo.line as i128))
        .put("col", J::Int(lo.col.0 as i128 + 1))
        .put("end_line", J::Int(hi.line as i128))
        .put("exp", J::Bool(span.from_expansion()))
}

fn def_path(tcx: TyCtxt<'_>, did: DefId) -> String {
    tcx.def_path_str(did)
}

fn crate_of(tcx: TyCtxt<'_>, did: DefId) -> String {
    tcx.crate_name(did.krate).to_string()
}

fn ty_json<'tcx>(tcx: TyCtxt<'tcx>, t: Ty<'tcx>) -> J {
    ty_json_d(tcx, t, 0)
}

fn args_json<'tcx>(tcx: TyCtxt<'tcx>, args: GenericArgsRef<'tcx>, depth: u32) -> J {
    let mut v = Vec::new();
    for a in args.iter() {
        if let Some(t) = a.as_type() {
            v.push(ty_json_d(tcx, t, depth + 1));
        } else if let Some(c) = a.as_const() {
            let mut o = J::obj().put("k", J::s("const")).put("s", J::s(format!("{}", c)));
            if let Some(n) = c.try_to_target_usize(tcx) {
                o.set("val", J::Int(n as i128));
            }
            v.push(o);
        }
    }
    J::Arr(v)
}

/// Evaluate an array length that is still an unevaluated (non-generic) constant expression, e.g. the
/// `MAX_ALLOWED_HSS_LEVELS - 1` of a field type.
fn eval_len<'tcx>(tcx: TyCtxt<'tcx>, len: ty::Const<'tcx>) -> Option<u64> {
    use rustc_middle::ty::TypeVisitableExt;
    if let ty::ConstKind::Unevaluated(uv) = len.kind() {
        if uv.args.has_param() {
            return None;
        }
        let muv = mir::UnevaluatedConst { def: uv.def, args: uv.args, promoted: None };
        if let Ok(ConstValue::Scalar(mir::interpret::Scalar::Int(si))) =
            tcx.const_eval_resolve(TypingEnv::fully_monomorphized(), muv, rustc_span::DUMMY_SP)
        {
            let size = si.size();
            return Some(si.to_bits(size) as u64);
        }
    }
    None
}

fn ty_json_d<'tcx>(tcx: TyCtxt<'tcx>, t: Ty<'tcx>, depth: u32) -> J {
    let s = format!("{}", t);
    let mut o = J::obj();
    if depth > 4 {
        return o.put("k", J::s("deep")).put("s", J::s(s));
    }
    match t.kind() {
        ty::Bool => o.set("k", J::s("bool")),
        ty::Char => o.set("k", J::s("char")),
        ty::Int(_) | ty::Uint(_) => {
            o.set("k", J::s("int"));
        }
        ty::Float(_) => o.set("k", J::s("float")),
        ty::Adt(def, args) => {
            o.set("k", J::s("adt"));
            o.set("path", J::s(def_path(tcx, def.did())));
            o.set("crate", J::s(crate_of(tcx, def.did())));
            o.set("args", args_json(tcx, args, depth));
        }
        ty::Array(elem, len) => {
            o.set("k", J::s("array"));
            o.set("elem", ty_json_d(tcx, *elem, depth + 1));
            match len.try_to_target_usize(tcx).or_else(|| eval_len(tcx, *len)) {
                Some(n) => o.set("len", J::Int(n as i128)),
                None => {
                    o.set("len", J::Null);
                    o.set("len_s", J::s(format!("{}", len)));
                }
            }
        }
        ty::Slice(elem) => {
            o.set("k", J::s("slice"));
            o.set("elem", ty_json_d(tcx, *elem, depth + 1));
        }
        ty::Str => o.set("k", J::s("str")),
        ty::Ref(_, inner, m) => {
            o.set("k", J::s("ref"));
            o.set("mut", J::Bool(m.is_mut()));
            o.set("ty", ty_json_d(tcx, *inner, depth + 1));
        }
        ty::RawPtr(inner, m) => {
            o.set("k", J::s("ptr"));
            o.set("mut", J::Bool(m.is_mut()));
            o.set("ty", ty_json_d(tcx, *inner, depth + 1));
        }
        ty::Tuple(ts) => {
            o.set("k", J::s("tuple"));
            o.set("elems", J::Arr(ts.iter().map(|x| ty_json_d(tcx, x, depth + 1)).collect()));
        }
        ty::Param(p) => {
            o.set("k", J::s("param"));
            o.set("name", J::s(p.name.to_string()));
        }
        ty::FnDef(did, args) => {
            o.set("k", J::s("fndef"));
            o.set("path", J::s(def_path(tcx, *did)));
            o.set("crate", J::s(crate_of(tcx, *did)));
            o.set("args", args_json(tcx, args, depth));
        }
        ty::FnPtr(..) => o.set("k", J::s("fnptr")),
        ty::Closure(did, _) => {
            o.set("k", J::s("closure"));
            o.set("path", J::s(def_path(tcx, *did)));
        }
        ty::Dynamic(..) => o.set("k", J::s("dyn")),
        ty::Alias(..) => o.set("k", J::s("alias")),
        ty::Never => o.set("k", J::s("never")),
        _ => o.set("k", J::s("other")),
    }
    o.put("s", J::s(s))
}

// ------------------------------------------------------------------------------------------

struct FnCx<'a, 'tcx> {
    tcx: TyCtxt<'tcx>,
    body: &'a Body<'tcx>,
    env: TypingEnv<'tcx>,
    owner: DefId,
}

impl<'a, 'tcx> FnCx<'a, 'tcx> {
    fn place(&self, p: &Place<'tcx>) -> J {
        let mut proj = Vec::new();
        for (i, elem) in p.projection.iter().enumerate() {
            let base = PlaceRef { local: p.local, projection: &p.projection[..i] };
            let base_ty = base.ty(self.body, self.tcx);
            let mut e = J::obj();
            match elem {
                ProjectionElem::Deref => e.set("k", J::s("deref")),
                ProjectionElem::Field(f, fty) => {
                    e.set("k", J::s("field"));
                    e.set("i", J::Int(f.index() as i128));
                    e.set("ty", ty_json(self.tcx, fty));
                    if let ty::Adt(def, _) = base_ty.ty.kind() {
                        e.set("adt", J::s(def_path(self.tcx, def.did())));
                        let vidx = base_ty.variant_index.unwrap_or(rustc_abi::FIRST_VARIANT);
                        if def.is_enum() || def.is_struct() || def.is_union() {
                            if let Some(v) = def.variants().get(vidx) {
                                if let Some(fd) = v.fields.get(f) {
                                    e.set("name", J::s(fd.name.to_string()));
                                }
                                if def.is_enum() {
                                    e.set("variant", J::s(v.name.to_string()));
                                }
                            }
                        }
                    }
                }
                ProjectionElem::Index(l) => {
                    e.set("k", J::s("index"));
                    e.set("local", J::Int(l.index() as i128));
                }
                ProjectionElem::ConstantIndex { offset, min_length, from_end } => {
                    e.set("k", J::s("constidx"));
                    e.set("offset", J::Int(offset as i128));
                    e.set("min_length", J::Int(min_length as i128));
                    e.set("from_end", J::Bool(from_end));
                }
                ProjectionElem::Subslice { from, to, from_end } => {
                    e.set("k", J::s("subslice"));
                    e.set("from", J::Int(from as i128));
                    e.set("to", J::Int(to as i128));
                    e.set("from_end", J::Bool(from_end));
                }
                ProjectionElem::Downcast(name, idx) => {
                    e.set("k", J::s("downcast"));
                    e.set("idx", J::Int(idx.index() as i128));
                    if let Some(n) = name {
                        e.set("variant", J::s(n.to_string()));
                    }
                }
                _ => e.set("k", J::s("otherproj")),
            }
            proj.push(e);
        }
        let ty = p.ty(self.body, self.tcx).ty;
        J::obj()
            .put("local", J::Int(p.local.index() as i128))
            .put("proj", J::Arr(proj))
            .put("ty", J::s(format!("{}", ty)))
    }

    fn const_json(&self, c: &MirConst<'tcx>, span: Span) -> J {
        let ty = c.ty();
        let mut o = J::obj().put("k", J::s("const")).put("ty", ty_json(self.tcx, ty));
        o.set("s", J::s(format!("{}", c)));
        // function items
        if let ty::FnDef(did, args) = ty.kind() {
            o.set("fn", self.callee(*did, args));
            return o;
        }
        // provenance
        match c {
            MirConst::Unevaluated(uv, _) => {
                let mut p = J::obj().put("path", J::s(def_path(self.tcx, uv.def)));
                p.set("crate", J::s(crate_of(self.tcx, uv.def)));
                p.set("args", args_json(self.tcx, uv.args, 0));
                if let Some(pr) = uv.promoted {
                    p.set("promoted", J::Int(pr.index() as i128));
                }
                o.set("unevaluated", p);
            }
            MirConst::Ty(_, _) => o.set("tyconst", J::Bool(true)),
            MirConst::Val(..) => {}
        }
        match c.eval(self.tcx, self.env, span) {
            Ok(val) => self.constval(&mut o, val, ty),
            Err(_) => o.set("generic", J::Bool(true)),
        }
        o
    }

    fn constval(&self, o: &mut J, val: ConstValue, ty: Ty<'tcx>) {
        constval_json(self.tcx, self.env, o, val, ty)
    }

    fn operand(&self, op: &Operand<'tcx>) -> J {
        match op {
            Operand::Copy(p) => J::obj().put("k", J::s("copy")).put("place", self.place(p)),
            Operand::Move(p) => J::obj().put("k", J::s("move")).put("place", self.place(p)),
            Operand::Constant(c) => self.const_json(&c.const_, c.span),
            other => J::obj().put("k", J::s("otherop")).put("s", J::s(format!("{:?}", other))),
        }
    }

    fn callee(&self, did: DefId, args: GenericArgsRef<'tcx>) -> J {
        let tcx = self.tcx;
        let mut o = J::obj()
            .put("path", J::s(def_path(tcx, did)))
            .put("crate", J::s(crate_of(tcx, did)))
            .put("args", args_json(tcx, args, 0))
            .put("s", J::s(tcx.def_path_str_with_args(did, args)));
        // is it a trait method?
        if let Some(tr) = tcx.trait_of_assoc(did) {
            o.set("trait", J::s(def_path(tcx, tr)));
            o.set("method", J::s(tcx.item_name(did).to_string()));
            if let Some(self_ty) = args.types().next() {
                o.set("self_ty", ty_json(tcx, self_ty));
                if let ty::Param(_) = self_ty.kind() {
                    // trait bounds on the receiver type parameter in the caller's environment
                    let root = tcx.typeck_root_def_id(self.owner);
                    let mut bs = Vec::new();
                    for clause in tcx.param_env(root).caller_bounds() {
                        if let Some(tp) = clause.as_trait_clause() {
                            let tp = tp.skip_binder();
                            if tp.self_ty() == self_ty {
                                bs.push(J::s(def_path(tcx, tp.def_id())));
                            }
                        }
                    }
                    o.set("self_bounds", J::Arr(bs));
                }
            }
        }
        if let Some(imp) = tcx.impl_of_assoc(did) {
            let self_ty = tcx.type_of(imp).instantiate_identity().skip_norm_wip();
            o.set("impl_self", J::s(format!("{}", self_ty)));
        }
        match Instance::try_resolve(tcx, self.env, did, args) {
            Ok(Some(inst)) => {
                let rdid = inst.def_id();
                let kind = match inst.def {
                    ty::InstanceKind::Item(_) => "item",
                    ty::InstanceKind::Virtual(..) => "virtual",
                    ty::InstanceKind::Intrinsic(_) => "intrinsic",
                    ty::InstanceKind::ClosureOnceShim { .. } => "closure_once_shim",
                    ty::InstanceKind::FnPtrShim(..) => "fnptr_shim",
                    ty::InstanceKind::DropGlue(..) => "drop_glue",
                    ty::InstanceKind::CloneShim(..) => "clone_shim",
                    ty::InstanceKind::ReifyShim(..) => "reify_shim",
                    _ => "other",
                };
                let mut r = J::obj()
                    .put("kind", J::s(kind))
                    .put("path", J::s(def_path(tcx, rdid)))
                    .put("crate", J::s(crate_of(tcx, rdid)))
                    .put("args", args_json(tcx, inst.args, 0))
                    .put("s", J::s(tcx.def_path_str_with_args(rdid, inst.args)));
                if let Some(imp) = tcx.impl_of_assoc(rdid) {
                    let self_ty = tcx.type_of(imp).instantiate_identity().skip_norm_wip();
                    r.set("impl_self", J::s(format!("{}", self_ty)));
                    if let Some(tr) = tcx.impl_opt_trait_ref(imp) {
                        let tr = tr.instantiate_identity().skip_norm_wip();
                        r.set("impl_trait", J::s(def_path(tcx, tr.def_id)));
                    }
                }
                if let ty::InstanceKind::DropGlue(_, Some(t)) = inst.def {
                    r.set("drop_ty", ty_json(tcx, t));
                }
                if let ty::InstanceKind::CloneShim(_, t) = inst.def {
                    r.set("clone_ty", ty_json(tcx, t));
                }
                o.set("resolved", r);
            }
            _ => o.set("resolved", J::Null),
        }
        o
    }

    fn rvalue(&self, rv: &Rvalue<'tcx>) -> J {
        let mut o = J::obj();
        match rv {
            Rvalue::Use(op, ..) => {
                o.set("k", J::s("use"));
                o.set("op", self.operand(op));
            }
            Rvalue::Repeat(op, n) => {
                o.set("k", J::s("repeat"));
                o.set("op", self.operand(op));
                match n.try_to_target_usize(self.tcx) {
                    Some(n) => o.set("n", J::Int(n as i128)),
                    None => {
                        o.set("n", J::Null);
                        o.set("n_s", J::s(format!("{}", n)));
                    }
                }
            }
            Rvalue::Ref(_, bk, p) => {
                o.set("k", J::s("ref"));
                let m = match bk {
                    BorrowKind::Shared => "shared",
                    BorrowKind::Fake(_) => "fake",
                    BorrowKind::Mut { .. } => "mut",
                };
                o.set("bk", J::s(m));
                o.set("place", self.place(p));
            }
            Rvalue::RawPtr(k, p) => {
                o.set("k", J::s("rawptr"));
                o.set("bk", J::s(format!("{:?}", k)));
                o.set("place", self.place(p));
            }
            Rvalue::ThreadLocalRef(did) => {
                o.set("k", J::s("threadlocal"));
                o.set("path", J::s(def_path(self.tcx, *did)));
            }
            Rvalue::Cast(kind, op, ty) => {
                o.set("k", J::s("cast"));
                o.set("cast", J::s(format!("{:?}", kind)));
                o.set("op", self.operand(op));
                o.set("ty", ty_json(self.tcx, *ty));
            }
            Rvalue::BinaryOp(bop, ops) => {
                o.set("k", J::s("binop"));
                o.set("op", J::s(format!("{:?}", bop)));
                o.set("a", self.operand(&ops.0));
                o.set("b", self.operand(&ops.1));
            }
            Rvalue::UnaryOp(uop, op) => {
                o.set("k", J::s("unop"));
                o.set("op", J::s(format!("{:?}", uop)));
                o.set("a", self.operand(op));
            }
            Rvalue::Discriminant(p) => {
                o.set("k", J::s("discr"));
                o.set("place", self.place(p));
                let pty = p.ty(self.body, self.tcx).ty;
                if let ty::Adt(def, _) = pty.kind() {
                    o.set("adt", J::s(def_path(self.tcx, def.did())));
                    if def.is_enum() {
                        let mut vs = Vec::new();
                        for (vidx, d) in def.discriminants(self.tcx) {
                            vs.push(J::Arr(vec![
                                J::Int(d.val as i128),
                                J::s(def.variant(vidx).name.to_string()),
                            ]));
                        }
                        o.set("variants", J::Arr(vs));
                    }
                }
            }
            Rvalue::Aggregate(kind, ops) => {
                o.set("k", J::s("aggregate"));
                match &**kind {
                    AggregateKind::Array(t) => {
                        o.set("agg", J::s("array"));
                        o.set("elem", ty_json(self.tcx, *t));
                    }
                    AggregateKind::Tuple => o.set("agg", J::s("tuple")),
                    AggregateKind::Adt(did, vidx, args, _, _) => {
                        o.set("agg", J::s("adt"));
                        o.set("path", J::s(def_path(self.tcx, *did)));
                        o.set("crate", J::s(crate_of(self.tcx, *did)));
                        o.set("args", args_json(self.tcx, args, 0));
                        let def = self.tcx.adt_def(*did);
                        let v = def.variant(*vidx);
                        o.set("variant", J::s(v.name.to_string()));
                        o.set("variant_idx", J::Int(vidx.index() as i128));
                        o.set(
                            "fields",
                            J::Arr(v.fields.iter().map(|f| J::s(f.name.to_string())).collect()),
                        );
                    }
                    AggregateKind::Closure(did, _) => {
                        o.set("agg", J::s("closure"));
                        o.set("path", J::s(def_path(self.tcx, *did)));
                    }
                    other => o.set("agg", J::s(format!("{:?}", other))),
                }
                o.set("ops", J::Arr(ops.iter().map(|x| self.operand(x)).collect()));
            }
            Rvalue::CopyForDeref(p) => {
                o.set("k", J::s("use"));
                o.set("op", J::obj().put("k", J::s("copy")).put("place", self.place(p)));
            }
            other => {
                o.set("k", J::s("other"));
                o.set("s", J::s(format!("{:?}", other)));
            }
        }
        o
    }

    fn unwind(&self, u: &UnwindAction) -> J {
        match u {
            UnwindAction::Cleanup(bb) => J::Int(bb.index() as i128),
            _ => J::Null,
        }
    }

    fn bb(&self, b: BasicBlock) -> J {
        J::Int(b.index() as i128)
    }

    fn terminator(&self, t: &mir::Terminator<'tcx>) -> J {
        let mut o = J::obj();
        o.set("span", span_json(self.tcx, t.source_info.span));
        match &t.kind {
            TerminatorKind::Goto { target } => {
                o.set("k", J::s("goto"));
                o.set("target", self.bb(*target));
            }
            TerminatorKind::SwitchInt { discr, targets } => {
                o.set("k", J::s("switch"));
                o.set("discr", self.operand(discr));
                let mut ts = Vec::new();
                for (v, bb) in targets.iter() {
                    ts.push(J::Arr(vec![J::Int(v as i128), self.bb(bb)]));
                }
                o.set("targets", J::Arr(ts));
                o.set("otherwise", self.bb(targets.otherwise()));
            }
            TerminatorKind::Return => o.set("k", J::s("return")),
            TerminatorKind::Unreachable => o.set("k", J::s("unreachable")),
            TerminatorKind::UnwindResume => o.set("k", J::s("resume")),
            TerminatorKind::UnwindTerminate(_) => o.set("k", J::s("terminate")),
            TerminatorKind::Drop { place, target, unwind, .. } => {
                o.set("k", J::s("drop"));
                o.set("place", self.place(place));
                o.set("target", self.bb(*target));
                o.set("unwind", self.unwind(unwind));
            }
            TerminatorKind::Call { func, args, destination, target, unwind, fn_span, .. } => {
                o.set("k", J::s("call"));
                o.set("func", self.operand(func));
                o.set("args", J::Arr(args.iter().map(|a| self.operand(&a.node)).collect()));
                o.set("dest", self.place(destination));
                o.set("target", target.map(|b| self.bb(b)).unwrap_or(J::Null));
                o.set("unwind", self.unwind(unwind));
                o.set("fn_span", span_json(self.tcx, *fn_span));
            }
            TerminatorKind::TailCall { func, args, .. } => {
                o.set("k", J::s("tailcall"));
                o.set("func", self.operand(func));
                o.set("args", J::Arr(args.iter().map(|a| self.operand(&a.node)).collect()));
            }
            TerminatorKind::Assert { cond, expected, msg, target, unwind } => {
                o.set("k", J::s("assert"));
                o.set("cond", self.operand(cond));
                o.set("expected", J::Bool(*expected));
                o.set("target", self.bb(*target));
                o.set("unwind", self.unwind(unwind));
                let mut m = J::obj();
                use mir::AssertKind::*;
                match &**msg {
                    BoundsCheck { len, index } => {
                        m.set("kind", J::s("BoundsCheck"));
                        m.set("len", self.operand(len));
                        m.set("index", self.operand(index));
                    }
                    Overflow(op, a, b) => {
                        m.set("kind", J::s("Overflow"));
                        m.set("op", J::s(format!("{:?}", op)));
                        m.set("a", self.operand(a));
                        m.set("b", self.operand(b));
                    }
                    OverflowNeg(a) => {
                        m.set("kind", J::s("OverflowNeg"));
                        m.set("a", self.operand(a));
                    }
                    DivisionByZero(a) => {
                        m.set("kind", J::s("DivisionByZero"));
                        m.set("a", self.operand(a));
                    }
                    RemainderByZero(a) => {
                        m.set("kind", J::s("RemainderByZero"));
                        m.set("a", self.operand(a));
                    }
                    other => {
                        m.set("kind", J::s("Other"));
                        m.set("s", J::s(format!("{:?}", other)));
                    }
                }
                o.set("msg", m);
            }
            TerminatorKind::FalseEdge { real_target, .. } => {
                o.set("k", J::s("goto"));
                o.set("target", self.bb(*real_target));
            }
            TerminatorKind::FalseUnwind { real_target, .. } => {
                o.set("k", J::s("goto"));
                o.set("target", self.bb(*real_target));
            }
            other => {
                o.set("k", J::s("otherterm"));
                o.set("s", J::s(format!("{:?}", other)));
            }
        }
        o
    }

    fn body_json(&self) -> J {
        let body = self.body;
        let mut locals = Vec::new();
        for (_l, decl) in body.local_decls.iter_enumerated() {
            locals.push(
                J::obj()
                    .put("ty", ty_json(self.tcx, decl.ty))
                    .put("mut", J::Bool(decl.mutability.is_mut())),
            );
        }
        let mut dbg = Vec::new();
        for v in body.var_debug_info.iter() {
            let mut e = J::obj().put("name", J::s(v.name.to_string()));
            match &v.value {
                mir::VarDebugInfoContents::Place(p) => e.set("place", self.place(p)),
                mir::VarDebugInfoContents::Const(c) => {
                    e.set("const", self.const_json(&c.const_, c.span))
                }
            }
            if let Some(a) = v.argument_index {
                e.set("arg", J::Int(a as i128));
            }
            dbg.push(e);
        }
        let mut blocks = Vec::new();
        for (_bb, data) in body.basic_blocks.iter_enumerated() {
            let mut stmts = Vec::new();
            for st in data.statements.iter() {
                match &st.kind {
                    StatementKind::Assign(b) => {
                        let (p, rv) = &**b;
                        stmts.push(
                            J::obj()
                                .put("k", J::s("assign"))
                                .put("place", self.place(p))
                                .put("rv", self.rvalue(rv))
                                .put("span", span_json(self.tcx, st.source_info.span)),
                        );
                    }
                    StatementKind::SetDiscriminant { place, variant_index } => {
                        stmts.push(
                            J::obj()
                                .put("k", J::s("setdiscr"))
                                .put("place", self.place(place))
                                .put("variant", J::Int(variant_index.index() as i128)),
                        );
                    }
                    StatementKind::Intrinsic(i) => {
                        stmts.push(
                            J::obj()
                                .put("k", J::s("intrinsic"))
                                .put("s", J::s(format!("{:?}", i))),
                        );
                    }
                    StatementKind::StorageLive(l) => stmts.push(
                        J::obj().put("k", J::s("live")).put("local", J::Int(l.index() as i128)),
                    ),
                    StatementKind::StorageDead(l) => stmts.push(
                        J::obj().put("k", J::s("dead")).put("local", J::Int(l.index() as i128)),
                    ),
                    _ => {}
                }
            }
            let term = self.terminator(data.terminator());
            blocks.push(
                J::obj()
                    .put("stmts", J::Arr(stmts))
                    .put("term", term)
                    .put("cleanup", J::Bool(data.is_cleanup)),
            );
        }
        J::obj()
            .put("arg_count", J::Int(body.arg_count as i128))
            .put("locals", J::Arr(locals))
            .put("debug", J::Arr(dbg))
            .put("blocks", J::Arr(blocks))
    }
}

fn constval_json<'tcx>(
    tcx: TyCtxt<'tcx>,
    _env: TypingEnv<'tcx>,
    o: &mut J,
    val: ConstValue,
    ty: Ty<'tcx>,
) {
    match val {
        ConstValue::Scalar(mir::interpret::Scalar::Int(si)) => {
            let size = si.size();
            let bits = si.to_bits(size);
            let v: i128 = match ty.kind() {
                ty::Int(_) => si.to_int(size),
                _ => bits as i128,
            };
            o.set("val", J::Int(v));
            o.set("size", J::Int(size.bytes() as i128));
        }
        ConstValue::ZeroSized => o.set("zst", J::Bool(true)),
        ConstValue::Indirect { alloc_id, offset } => {
            // byte arrays / integer arrays: dump raw bytes when there is no provenance
            if let mir::interpret::GlobalAlloc::Memory(alloc) = tcx.global_alloc(alloc_id) {
                let a = alloc.inner();
                if a.provenance().ptrs().is_empty() {
                    let start = offset.bytes() as usize;
                    if let Ok(layout) =
                        tcx.layout_of(TypingEnv::fully_monomorphized().as_query_input(ty))
                    {
                        let len = layout.size.bytes() as usize;
                        if start + len <= a.len() && len <= 4096 {
                            let bytes =
                                a.inspect_with_uninit_and_ptr_outside_interpreter(start..start + len);
                            o.set(
                                "bytes",
                                J::Arr(bytes.iter().map(|b| J::Int(*b as i128)).collect()),
                            );
                        }
                    }
                }
            }
        }
        ConstValue::Slice { alloc_id, meta } => {
            if let mir::interpret::GlobalAlloc::Memory(alloc) = tcx.global_alloc(alloc_id) {
                let a = alloc.inner();
                let len = meta as usize;
                if a.provenance().ptrs().is_empty() && len <= a.len() && len <= 4096 {
                    let bytes = a.inspect_with_uninit_and_ptr_outside_interpreter(0..len);
                    o.set("slice_bytes", J::Arr(bytes.iter().map(|b| J::Int(*b as i128)).collect()));
                }
            }
        }
        _ => {}
    }
}

// ------------------------------------------------------------------------------------------

fn fn_header<'tcx>(tcx: TyCtxt<'tcx>, did: LocalDefId) -> J {
    let d = did.to_def_id();
    let kind = tcx.def_kind(d);
    let mut o = J::obj()
        .put("path", J::s(def_path(tcx, d)))
        .put("kind", J::s(format!("{:?}", kind)))
        .put("span", span_json(tcx, tcx.def_span(d)));
    if matches!(kind, DefKind::Fn | DefKind::AssocFn) {
        o.set("vis", J::s(format!("{:?}", tcx.visibility(d))));
        o.set("name", J::s(tcx.item_name(d).to_string()));
        let sig = tcx.fn_sig(d).instantiate_identity().skip_norm_wip().skip_binder();
        o.set("inputs", J::Arr(sig.inputs().iter().map(|t| ty_json(tcx, *t)).collect()));
        o.set("output", ty_json(tcx, sig.output()));
        o.set("unsafe", J::Bool(!sig.safety().is_safe()));
    }
    // generics
    let generics = tcx.generics_of(d);
    let mut gs = Vec::new();
    let mut g = Some(generics);
    while let Some(gg) = g {
        for p in gg.own_params.iter() {
            gs.push(J::s(p.name.to_string()));
        }
        g = gg.parent.map(|p| tcx.generics_of(p));
    }
    o.set("generics", J::Arr(gs));
    // parent chain (closure parent / impl)
    let mut parent = tcx.opt_parent(d);
    if matches!(kind, DefKind::Closure | DefKind::InlineConst | DefKind::AnonConst) {
        if let Some(p) = parent {
            o.set("parent_fn", J::s(def_path(tcx, tcx.typeck_root_def_id(d))));
            parent = tcx.opt_parent(p);
        }
    }
    if let Some(imp) = tcx.impl_of_assoc(d) {
        let self_ty = tcx.type_of(imp).instantiate_identity().skip_norm_wip();
        let mut i = J::obj().put("self_ty", ty_json(tcx, self_ty));
        if let Some(tr) = tcx.impl_opt_trait_ref(imp) {
            let tr = tr.instantiate_identity().skip_norm_wip();
            i.set("trait", J::s(def_path(tcx, tr.def_id)));
            i.set("trait_s", J::s(format!("{}", tr)));
        }
        o.set("impl", i);
    } else if let Some(tr) = tcx.trait_of_assoc(d) {
        o.set("trait_default", J::s(def_path(tcx, tr)));
    }
    let _ = parent;
    o
}

fn dump_crate<'tcx>(tcx: TyCtxt<'tcx>) -> J {
    let mut fns = Vec::new();
    let mut consts = Vec::new();
    let mut statics = Vec::new();

    let mut keys: Vec<LocalDefId> = tcx.mir_keys(()).iter().copied().collect();
    keys.sort_by_key(|d| tcx.def_path_str(d.to_def_id()));

    for did in keys {
        let d = did.to_def_id();
        let kind = tcx.def_kind(d);
        match kind {
            DefKind::Fn | DefKind::AssocFn | DefKind::Closure => {
                let body = tcx.optimized_mir(d);
                let env = TypingEnv::post_analysis(tcx, d);
                let cx = FnCx { tcx, body, env, owner: d };
                let mut o = fn_header(tcx, did);
                o.set("body", cx.body_json());
                // promoted bodies
                let proms = tcx.promoted_mir(d);
                let mut ps = Vec::new();
                for pb in proms.iter() {
                    let pcx = FnCx { tcx, body: pb, env, owner: d };
                    ps.push(pcx.body_json());
                }
                o.set("promoted", J::Arr(ps));
                fns.push(o);
            }
            DefKind::Const { .. } | DefKind::AssocConst { .. } => {
                let mut o = J::obj()
                    .put("path", J::s(def_path(tcx, d)))
                    .put("kind", J::s(format!("{:?}", kind)))
                    .put("span", span_json(tcx, tcx.def_span(d)));
                let ty = tcx.type_of(d).instantiate_identity().skip_norm_wip();
                o.set("ty", ty_json(tcx, ty));
                let env = TypingEnv::post_analysis(tcx, d);
                if tcx.generics_of(d).count() == 0 || !tcx.generics_of(d).requires_monomorphization(tcx) {
                    if let Ok(val) = tcx.const_eval_poly(d) {
                        constval_json(tcx, env, &mut o, val, ty);
                    }
                }
                if let Some(imp) = tcx.impl_of_assoc(d) {
                    let self_ty = tcx.type_of(imp).instantiate_identity().skip_norm_wip();
                    let mut i = J::obj().put("self_ty", ty_json(tcx, self_ty));
                    if let Some(tr) = tcx.impl_opt_trait_ref(imp) {
                        let tr = tr.instantiate_identity().skip_norm_wip();
                        i.set("trait", J::s(def_path(tcx, tr.def_id)));
                    }
                    o.set("impl", i);
                    o.set("name", J::s(tcx.item_name(d).to_string()));
                }
                consts.push(o);
            }
            DefKind::Static { .. } => {
                let ty = tcx.type_of(d).instantiate_identity().skip_norm_wip();
                statics.push(
                    J::obj()
                        .put("path", J::s(def_path(tcx, d)))
                        .put("ty", ty_json(tcx, ty))
                        .put("kind", J::s(format!("{:?}", kind)))
                        .put("span", span_json(tcx, tcx.def_span(d))),
                );
            }
            _ => {}
        }
    }

    // ADTs, impls, traits, unsafe
    let mut adts = Vec::new();
    let mut impls = Vec::new();
    let mut traits = Vec::new();
    let mut unsafe_items = Vec::new();
    let mut thread_locals = Vec::new();
    for id in tcx.hir_free_items() {
        let d = id.owner_id.to_def_id();
        let kind = tcx.def_kind(d);
        match kind {
            DefKind::Struct | DefKind::Enum | DefKind::Union => {
                let def = tcx.adt_def(d);
                let mut vs = Vec::new();
                for v in def.variants().iter() {
                    let mut fs = Vec::new();
                    for f in v.fields.iter() {
                        let fty = tcx.type_of(f.did).instantiate_identity().skip_norm_wip();
                        let mut attrs = Vec::new();
                        if let Some(ld) = f.did.as_local() {
                            let hid = tcx.local_def_id_to_hir_id(ld);
                            for a in tcx.hir_attrs(hid) {
                                attrs.push(J::s(attr_str(tcx, a)));
                            }
                        }
                        fs.push(
                            J::obj()
                                .put("name", J::s(f.name.to_string()))
                                .put("ty", ty_json(tcx, fty))
                                .put("vis", J::s(format!("{:?}", f.vis)))
                                .put("attrs", J::Arr(attrs)),
                        );
                    }
                    vs.push(
                        J::obj().put("name", J::s(v.name.to_string())).put("fields", J::Arr(fs)),
                    );
                }
                let generics = tcx.generics_of(d);
                let gs: Vec<J> =
                    generics.own_params.iter().map(|p| J::s(p.name.to_string())).collect();
                let ty = tcx.type_of(d).instantiate_identity().skip_norm_wip();
                let env = TypingEnv::post_analysis(tcx, d);
                adts.push(
                    J::obj()
                        .put("path", J::s(def_path(tcx, d)))
                        .put("kind", J::s(format!("{:?}", kind)))
                        .put("generics", J::Arr(gs))
                        .put("variants", J::Arr(vs))
                        .put("is_copy", J::Bool(tcx.type_is_copy_modulo_regions(env, ty)))
                        .put("needs_drop", J::Bool(ty.needs_drop(tcx, env)))
                        .put("vis", J::s(format!("{:?}", tcx.visibility(d))))
                        .put("span", span_json(tcx, tcx.def_span(d))),
                );
            }
            DefKind::Impl { .. } => {
                let self_ty = tcx.type_of(d).instantiate_identity().skip_norm_wip();
                let mut o = J::obj()
                    .put("self_ty", ty_json(tcx, self_ty))
                    .put("span", span_json(tcx, tcx.def_span(d)));
                if let Some(tr) = tcx.impl_opt_trait_ref(d) {
                    let tr = tr.instantiate_identity().skip_norm_wip();
                    o.set("trait", J::s(def_path(tcx, tr.def_id)));
                    o.set("trait_s", J::s(format!("{}", tr)));
                    o.set("trait_args", args_json(tcx, tr.args, 0));
                    o.set("trait_crate", J::s(crate_of(tcx, tr.def_id)));
                    o.set("unsafe", J::Bool(!tcx.trait_def(tr.def_id).safety.is_safe()));
                } else {
                    o.set("trait", J::Null);
                }
                let mut items = Vec::new();
                for it in tcx.associated_items(d).in_definition_order() {
                    items.push(
                        J::obj()
                            .put("name", J::s(it.name().to_string()))
                            .put("path", J::s(def_path(tcx, it.def_id)))
                            .put("kind", J::s(format!("{:?}", it.tag()))),
                    );
                }
                o.set("items", J::Arr(items));
                impls.push(o);
            }
            DefKind::Trait => {
                let mut items = Vec::new();
                for it in tcx.associated_items(d).in_definition_order() {
                    items.push(
                        J::obj()
                            .put("name", J::s(it.name().to_string()))
                            .put("path", J::s(def_path(tcx, it.def_id)))
                            .put("kind", J::s(format!("{:?}", it.tag())))
                            .put("has_default", J::Bool(it.defaultness(tcx).has_value())),
                    );
                }
                traits.push(
                    J::obj()
                        .put("path", J::s(def_path(tcx, d)))
                        .put("vis", J::s(format!("{:?}", tcx.visibility(d))))
                        .put("items", J::Arr(items)),
                );
            }
            DefKind::Static { .. } => {
                if tcx.is_thread_local_static(d) {
                    thread_locals.push(J::s(def_path(tcx, d)));
                }
            }
            _ => {}
        }
    }

    // unsafe: fns with unsafe signature, unsafe impls, unsafe blocks (from THIR-less HIR walk)
    for did in tcx.hir_body_owners() {
        let d = did.to_def_id();
        if matches!(tcx.def_kind(d), DefKind::Fn | DefKind::AssocFn) {
            let sig = tcx.fn_sig(d).instantiate_identity().skip_norm_wip().skip_binder();
            if !sig.safety().is_safe() {
                unsafe_items.push(J::obj().put("kind", J::s("unsafe_fn")).put("path", J::s(def_path(tcx, d))));
            }
        }
        // unsafe blocks: walk HIR body
        let body = tcx.hir_body_owned_by(did);
        let mut v = UnsafeFinder { found: Vec::new() };
        rustc_hir::intravisit::Visitor::visit_body(&mut v, body);
        for sp in v.found {
            unsafe_items.push(
                J::obj()
                    .put("kind", J::s("unsafe_block"))
                    .put("path", J::s(def_path(tcx, d)))
                    .put("span", span_json(tcx, sp)),
            );
        }
    }

    // crate-level attributes (source snippets)
    let mut crate_attrs = Vec::new();
    for a in tcx.hir_krate_attrs() {
        crate_attrs.push(J::s(attr_str(tcx, a)));
    }
    // lint level of unsafe_code at crate root

    // cfg
    let mut cfgs = Vec::new();
    for (k, v) in tcx.sess.config.iter() {
        match v {
            Some(v) => cfgs.push(J::s(format!("{}={}", k, v))),
            None => cfgs.push(J::s(k.to_string())),
        }
    }

    // public items visible at the crate root (direct items and re-exports)
    let mut exports = Vec::new();
    for ch in tcx.module_children_local(rustc_hir::def_id::CRATE_DEF_ID) {
        if !ch.vis.is_public() {
            continue;
        }
        if let Some(did) = ch.res.opt_def_id() {
            exports.push(
                J::obj()
                    .put("name", J::s(ch.ident.name.to_string()))
                    .put("path", J::s(def_path(tcx, did)))
                    .put("crate", J::s(crate_of(tcx, did)))
                    .put("kind", J::s(format!("{:?}", tcx.def_kind(did)))),
            );
        }
    }

    J::obj()
        .put("crate", J::s(tcx.crate_name(LOCAL_CRATE).to_string()))

        .put("nonce", J::s(std::env::var("LMSFACTS_NONCE").unwrap_or_default()))
        .put("exports", J::Arr(exports))
        .put("cfg", J::Arr(cfgs))
        .put("crate_attrs", J::Arr(crate_attrs))
        .put("functions", J::Arr(fns))
        .put("consts", J::Arr(consts))
        .put("statics", J::Arr(statics))
        .put("thread_locals", J::Arr(thread_locals))
        .put("adts", J::Arr(adts))
        .put("impls", J::Arr(impls))
        .put("traits", J::Arr(traits))
        .put("unsafe_items", J::Arr(unsafe_items))
}

fn attr_str(tcx: TyCtxt<'_>, a: &rustc_hir::Attribute) -> String {
    match a {
        rustc_hir::Attribute::Unparsed(item) => tcx
            .sess
            .source_map()
            .span_to_snippet(item.span)
            .unwrap_or_else(|_| format!("{:?}", item.path)),
        rustc_hir::Attribute::Parsed(k) => {
            let s = format!("{:?}", k);
            if s.starts_with("DocComment") {
                "doc".to_string()
            } else {
                s
            }
        }
    }
}

struct UnsafeFinder {
    found: Vec<Span>,
}

impl<'v> rustc_hir::intravisit::Visitor<'v> for UnsafeFinder {
    fn visit_block(&mut self, b: &'v rustc_hir::Block<'v>) {
        if let rustc_hir::BlockCheckMode::UnsafeBlock(rustc_hir::UnsafeSource::UserProvided) = b.rules {
            self.found.push(b.span);
        }
        rustc_hir::intravisit::walk_block(self, b);
    }
}
