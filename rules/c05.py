"""C05 - a key signs exactly 2^(sum h) times, then is wiped and refuses (clause level).

  W1  wipe coverage: the explicit wipe overwrites every field of the key wholesale with its default /
      zero value; hand-written Default impls involved fill the whole array with the end marker
  W2  exhaustion => wipe: the failure of the counter increment leads (closure or branch) to the wipe, inside
      the key-level increment that the signing core calls before serialising
  W3  wiped keys are refused: the parameter decoder returns Err on zero levels; the key expansion calls it and
      propagates its failure; the signing core calls it (or the expansion) before the callback
  A1  exhaustion threshold (interval analysis, three partitions of the total height): the bound the counter
      is compared with is 2^t - 1 for t <= 63 and unreachable (u64::MAX) for t >= 64; the `+1` is guarded by it
  S4  lifetime structure (rules of C13-S4): bottom-up, multiplier excludes the level's own size, free = size - used
      every update of loop-carried state (size recorded, term added) sits on every path through the level loop; A1 also demands that
      the total height is a sum (no product / multiplication in the increment routine)
  A2  accounting arithmetic cannot fail (the C13 engine run on the three pure functions)
Not decided: that the reported number equals prod 2^h - counter (a numeric identity).
"""
from . import c03, c04, core, expr, flow, gf, ia, pf, zz
from .api import Api

LEVEL = "other"
TECHNIQUE = "field-coverage analysis of the wipe, result-flow idioms, guard facts, interval analysis of the exhaustion threshold under height partitions, panic-freedom engine on the accounting functions"


def wholesale_default(F, f, s, field_ty):
    """Is assignment statement s `self.field = <T as Default>::default()` / `T::new(0)` / zero constant?"""
    ex = expr.Expr(F, f, inline_getters=False)
    e = ex.of_rvalue(s["rv"], 0)
    if e[0] == "call" and e[1].endswith("::default") and not e[2]:
        return True, e[1]
    if e[0] == "call" and e[1].endswith("::new") and e[2] == (("const", 0),):
        return True, e[1] + "(0)"
    if e[0] == "const" and e[1] == 0:
        return True, "0"
    return False, str(e)[:120]


def check_default_impl(chk, F, adt, tag):
    """A hand-written Default of a byte-array newtype must fill the whole array with one constant."""
    dfn = zz.impl_fn(F, adt, "core::default::Default", "default")
    if dfn is None:
        return
    f = F.fn(dfn)
    if f.span.get("exp"):
        return  # derived
    reps = [s for _, _, s in f.iter_stmts() if s["k"] == "assign" and s["rv"]["k"] == "repeat"]
    flds = zz.fields_of(F, adt)
    arr = [fl for fl in flds if fl["ty"].get("k") == "array"]
    ok = len(reps) == 1 and len(arr) == 1 and reps[0]["rv"].get("n") == arr[0]["ty"].get("len") and core.op_const_val(reps[0]["rv"]["op"]) is not None
    if not ok:
        # ... or it spells out what the derive generates: every member is the `Default::default()` of its own type, a constant,
        # a full-length constant array or a marker
        aggs = [s for b, _, s in f.iter_stmts() if s["k"] == "assign" and s["rv"]["k"] == "aggregate" and s["rv"].get("path") == adt and not f.blocks[b]["cleanup"]]
        if len(aggs) == 1:
            good = True
            for fl, op in zip(flds, aggs[0]["rv"]["ops"]):
                if "PhantomData" in fl["ty"].get("s", ""):
                    continue
                if core.op_const_val(op) is not None:
                    continue
                o = flow.origin(f, op)
                if o[0] == "call" and core.strip_generics(core.callee_path(o[2]) or "").endswith("::default") and not o[2]["args"]:
                    continue
                ol = core.op_local(op)
                ds = [d for d in f.defs_of(ol) if not f.blocks[d[0]]["cleanup"]] if ol is not None else []
                if len(ds) == 1 and ds[0][1] != "term" and ds[0][2]["rv"]["k"] == "repeat" and ds[0][2]["rv"].get("n") == fl["ty"].get("len") and core.op_const_val(ds[0][2]["rv"]["op"]) is not None:
                    continue
                good = False
            ok = good
    chk.ob("W1.default-fills-whole-array", adt + tag, ok,
           "Default for %s is not `[CONST; N]` over the full array (repeat=%s, array len %s)" % (adt, [(r["rv"].get("n"), core.op_const_val(r["rv"]["op"])) for r in reps], [a["ty"].get("len") for a in arr]), where=f.loc())
    if ok and len(reps) == 1 and core.op_const_val(reps[0]["rv"]["op"]) is not None:
        chk.note("Default for %s fills %d bytes with %#x" % (adt, reps[0]["rv"]["n"], core.op_const_val(reps[0]["rv"]["op"])))


def threshold_rules(chk, F, an, tag, prefix="A1"):
    """A1: the bound the counter is compared with, per total-height partition."""
    inc = an["inc"]
    anl = ia.Analyzer(F)
    # the local holding the total height: destination of the `sum` call; the threshold switch: the one guarding the +1
    sums = [(b, t) for b, t in inc.calls() if core.strip_generics(core.callee_path(t) or "").endswith("Iterator::sum")]
    wb = None
    for b, i, s in inc.iter_stmts():
        if s["k"] == "assign" and s["place"]["proj"] and s["place"]["proj"][-1].get("name") == an["cfield"] and not inc.blocks[b]["cleanup"]:
            wb = b

    def dep2(d):
        return (an["C"], an["cfield"]) in d["fields"] and any(r["op"] in ("Lt", "Le", "Gt", "Ge") for r in d["binops"])
    gs = gf.find_guards(inc, dep2, [wb]) if wb is not None else []
    # however the total is summed up (iterator sum, explicit loop): the value that is partitioned is the shift amount / exponent
    # of the 2^t computation
    shift_locals = []
    for b, t in inc.calls():
        last = core.strip_generics(core.callee_path(t) or "").rsplit("::", 1)[-1]
        if not inc.blocks[b]["cleanup"] and last in ("checked_shl", "wrapping_shl", "overflowing_shl", "pow", "checked_pow", "saturating_pow") and len(t["args"]) == 2:
            l = core.op_local(t["args"][1])
            if l is not None:
                shift_locals.append(l)
    for b, i, s_ in inc.iter_stmts():
        if s_["k"] == "assign" and s_["rv"]["k"] == "binop" and s_["rv"]["op"] in ("Shl", "ShlUnchecked") and not inc.blocks[b]["cleanup"]:
            l = core.op_local(s_["rv"]["b"])
            if l is not None:
                shift_locals.append(l)
    tl = sums[0][1]["dest"]["local"] if len(sums) == 1 else (shift_locals[0] if len(shift_locals) == 1 and len([d for d in inc.defs_of(shift_locals[0])]) == 1 else None)
    chk.ob(prefix + ".anchors", inc.key + tag, tl is not None and len(gs) >= 1,
           "could not locate the total tree height (sum calls %d, 2^t computations %d) and the threshold comparison (%d) in %s" % (len(sums), len(shift_locals), len(gs), inc.path), where=inc.loc())
    # the total is a *sum* of heights (the key has 2^(h1+..+hL) leaves): no product / multiplication in the routine or its closures
    mults = []
    for p_, g_ in F.fns.items():
        if p_ == inc.path or p_.startswith(inc.path + "::{closure"):
            for b, t in g_.iter_terms():
                if g_.blocks[b]["cleanup"]:
                    continue
                last = core.strip_generics(core.callee_path(t) or "").rsplit("::", 1)[-1] if t["k"] == "call" else None
                if last in ("product", "saturating_mul", "checked_mul", "wrapping_mul", "overflowing_mul", "mul") or \
                        (t["k"] == "assert" and t["msg"]["kind"] == "Overflow" and t["msg"].get("op") == "Mul"):
                    mults.append(g_.loc(b))
    chk.ob(prefix + ".total-height-is-a-sum", inc.key + tag, not mults,
           "%s multiplies while computing the exhaustion bound (at %s): the number of leaves is 2^(sum of the heights); a product of heights equals the sum "
           "only for shapes like one level or 2+2, every other key is never (or too early) detected as exhausted" % (inc.path, mults[:2]), where=inc.loc())
    if tl is not None and gs:
        gb = gs[0].block
        for lo, hi in ((1, 31), (32, 63), (64, 200)):
            anl.overrides = {(inc.path, tl): (lo, hi)}
            anl.memo, anl.ctx_count, anl.cmp_obs = {}, {}, {}
            anl.call_local(inc.path, [None] * inc.arg_count)
            obs = anl.cmp_obs.get((inc.path, gb))
            bound = None
            if obs:
                op, a, b_ = obs
                # the operand that is not the counter (full u64 range) is the bound
                bound = b_ if (a is not None and a == (0, 2**64 - 1)) else a
            if hi <= 63:
                exp = (2**lo - 1, 2**hi - 1)
                ok = bound is not None and bound[0] >= exp[0] and bound[1] <= exp[1]
            else:
                exp = (2**64 - 1, 2**64 - 1)
                ok = bound is not None and bound[0] >= 2**64 - 1
            chk.ob(prefix + ".exhaustion-bound", "total-height[%d..%d]%s" % (lo, hi, tag), ok,
                   "for a total tree height in %d..%d the counter is compared with a bound in %s; the last usable counter value 2^t - 1 lies in %s "
                   "(a larger bound means the key is never detected as exhausted and leaf 0 is reused; a smaller one reports exhaustion early)" % (lo, hi, bound, exp),
                   where=inc.loc(gb))
            chk.count("threshold_partitions", 1)
        anl.overrides = {}


def run_config(chk, ctx, name):
    F = ctx.facts(name)
    A = Api(F)
    chk.configs.append(name)
    tag = "" if name == "default" else "[%s]" % name
    an = c03.key_anchors(F, A)
    K, wipe = an["K"], an["wipe"]
    # ---------------- W1 ----------------
    assigned = {}
    for b, i, s in wipe.iter_stmts():
        if s["k"] == "assign" and not wipe.blocks[b]["cleanup"]:
            pr = s["place"]["proj"]
            if len(pr) == 2 and pr[0]["k"] == "deref" and pr[1]["k"] == "field" and s["place"]["local"] == 1:
                assigned[pr[1]["name"]] = s
    for fl in zz.fields_of(F, K):
        s = assigned.get(fl["name"])
        ok, how = (False, "no wholesale assignment")
        if s is not None:
            ok, how = wholesale_default(F, wipe, s, fl["ty"])
        chk.ob("W1.wipe-overwrites-field-with-default", "%s.%s%s" % (K, fl["name"], tag), ok,
               "the wipe does not overwrite `%s` wholesale with its default / zero value (%s): an exhausted key could keep stale %s bytes" % (fl["name"], how, fl["name"]),
               where=wipe.loc())
        chk.count("key_fields", 1)
        if fl["ty"].get("k") == "adt" and fl["ty"].get("crate") == core.LOCAL_CRATE:
            check_default_impl(chk, F, fl["ty"]["path"], tag)
    # no partial writes through &mut of the fields in the wipe (e.g. an in-place `clear()` of one slot)
    calls = [core.strip_generics(core.callee_path(t) or "?") for b, t in wipe.calls() if not wipe.blocks[b]["cleanup"]]
    chk.note("%s: wipe calls %s" % (name, calls))

    # ---------------- W2 ----------------
    kinc, inc = an["key_inc"], an["inc"]
    sites = [(b, t) for b, t in kinc.calls() if F.call_targets(kinc, t) == [inc.path]]
    chk.ob("W2.single-counter-increment-call", kinc.key + tag, len(sites) == 1, "expected one call of %s in %s" % (inc.path, kinc.path), where=kinc.loc())
    if sites:
        b, t = sites[0]
        dl = t["dest"]["local"]
        handled = False
        how = ""
        # (a) handed to an adaptor together with a closure that calls the wipe
        for bb, kind, item in [(u[0], u[2], u[3]) for u in flow.uses_of_local(kinc, dl)]:
            if kind == "call":
                dp = flow.decl_path(item) or ""
                if dp.split("::")[-1] in ("unwrap_or_else", "or_else", "map_err", "unwrap_or_default") and len(item["args"]) >= 2:
                    ca = core.op_place(item["args"][1])
                    cty = kinc.locals[ca["local"]]["ty"] if ca else {}
                    if cty.get("k") == "closure":
                        cf = F.fns.get(cty["path"])
                        if cf and any(F.call_targets(cf, ct) == [wipe.path] for cb, ct in cf.calls()):
                            handled, how = True, "%s(|_| wipe)" % dp.split("::")[-1]
        # (b) tested, failure edge reaches a call to the wipe
        if not handled:
            for c in flow.result_checks(kinc, dl):
                for et in c.err_targets:
                    r = flow.reach_from(kinc, et)
                    if any(F.call_targets(kinc, kinc.blocks[x]["term"]) == [wipe.path] for x in r if kinc.blocks[x]["term"]["k"] == "call"):
                        handled, how = True, "branch on the result"
        chk.ob("W2.exhaustion-leads-to-wipe", kinc.key + tag, handled,
               "the failure of the counter increment in %s does not lead to the wipe (result ignored or handled otherwise)" % kinc.path, where=kinc.loc(b))
        chk.note("%s: exhaustion -> wipe via %s" % (name, how))
    # the signing core calls the key-level increment before serialising (C04-R3 / C03-O1 give the order)
    tree, cs = c04.find_core(F, A.entries_sign())
    corefn = F.fns[cs[0][0]] if len(cs) == 1 else None
    chk.ob("W2.core-calls-key-increment", name, corefn is not None and any(F.call_targets(corefn, t) == [kinc.path] for b, t in corefn.calls()),
           "the signing core does not call %s" % kinc.path)

    # the in-memory signing key must take over every successor the core hands it - including the wiped one (shared with C04-R5)
    c04.in_memory_key_rules(chk, F, A, tag, "W2")

    # ---------------- W3 ----------------
    dec, xf = an["decoder"], an["expansion"]
    oks = [b for b, d, e in c04.ret_defs(dec) if not e]

    def dep(d):
        cal = gf.dep_callees(d)
        return any(c.endswith("is_empty") or c.endswith("::len") for c in cal)
    g = gf.find_guards(dec, dep, oks)
    chk.ob("W3.decoder-rejects-zero-levels", dec.key + tag, len(g) >= 1 and bool(oks),
           "%s can return Ok for an empty level list: a wiped key (all parameter bytes 0xff) would be accepted" % dec.path, where=dec.loc())
    # expansion calls the decoder and propagates failure
    dc = [(b, t) for b, t in xf.calls() if F.call_targets(xf, t) == [dec.path]]
    okp = False
    for b, t in dc:
        cs2 = flow.result_checks(xf, t["dest"]["local"])
        okp = bool(cs2) and all(gf.error_only_from(xf, et) for c in cs2 for et in c.err_targets if xf.blocks[et]["term"]["k"] != "unreachable")
    chk.ob("W3.expansion-propagates-decoder-failure", xf.key + tag, okp, "%s does not propagate a decoder failure as an error" % xf.path, where=xf.loc())
    # lifetime entry and signing core both go through the expansion (or the decoder) before anything else observable
    for e in A.entries_lifetime() + ([corefn.path] if corefn else []):
        t2 = F.reachable([e])
        chk.ob("W3.entry-decodes-parameters", core.strip_generics(e) + tag, dec.path in t2, "%s never calls the parameter decoder" % e)

    threshold_rules(chk, F, an, tag)

    # ---------------- L1 (lifetime structure; shared with C13-S4) ----------------
    from . import c13
    c13.lifetime_rules(chk, F, an, tag)

    # ---------------- A2 ----------------
    entries = [inc.path, an["decomposition"].path, an["lifetime"].path, kinc.path]
    sites, an_ia = pf.run(chk, F, A, entries, "accounting:" + name, allow_recursion=(), tag=tag, partitions="assoc")
    # no silent saturation / truncation / wrap-around below the 64-bit result (shared with C13-S5)
    c13.lossy_rules(chk, F, an_ia, an, entries, tag)


def run(chk, ctx):
    chk.explanation = (
        "The wipe routine (found by role) must overwrite every field of the key struct wholesale with its default / zero value; the failure of the "
        "counter increment must lead to it; the parameter decoder must reject zero levels and every signing / lifetime entry must go through it; the "
        "bound the counter is compared with is checked by interval analysis under three partitions of the total height against 2^t - 1; the accounting "
        "functions are shown free of arithmetic failure by the panic-freedom engine.")
    chk.not_decided = "that the reported lifetime equals prod(2^h) - counter and decreases by exactly one per signature (numeric identities over runtime values)"
    chk.trusted_base = ["rustc MIR construction", "C04 (callback protocol) and C16-Z4 (wrapper default is full-capacity zero) for the remaining links"]
    configs = ["default"] if ctx.tier == "quick" else ["default", "std", "fast_verify"]
    for name in configs:
        run_config(chk, ctx, name)
    chk.floor("key_fields", 3)
    chk.floor("threshold_partitions", 3)
