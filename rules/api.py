"""Anchor resolution through the crate's public API (re-exports at the crate root and impls of
the exported types), so that rules name entry points the way a user of the library does."""
from .core import AnchorLost


class Api:
    def __init__(self, facts):
        self.facts = facts
        self.exports = {e["name"]: e for e in facts.j.get("exports", [])}

    def has(self, name):
        return name in self.exports

    def fn(self, name):
        e = self.exports.get(name)
        if not e or not e["kind"].startswith("Fn"):
            raise AnchorLost("public function `%s` is not exported by the crate" % name)
        if e["path"] not in self.facts.fns:
            raise AnchorLost("exported function `%s` (%s) has no MIR body" % (name, e["path"]))
        return e["path"]

    def type_path(self, name):
        e = self.exports.get(name)
        if not e or e["kind"] not in ("Struct", "Enum", "Union"):
            raise AnchorLost("public type `%s` is not exported by the crate" % name)
        return e["path"]

    def methods(self, type_name, name=None, trait=None):
        tp = self.type_path(type_name)
        out = []
        for f in self.facts.fns.values():
            im = f.j.get("impl")
            if not im:
                continue
            st = im["self_ty"]
            if st.get("k") != "adt" or st.get("path") != tp:
                continue
            if name is not None and f.j.get("name") != name:
                continue
            if trait is not None and im.get("trait") != trait:
                continue
            if trait is None and name is not None and im.get("trait") is not None:
                continue
            out.append(f.path)
        return sorted(out)

    def method(self, type_name, name, trait=None):
        m = self.methods(type_name, name, trait)
        if not m:
            raise AnchorLost("method `%s::%s`%s not found" % (type_name, name, " (trait %s)" % trait if trait else ""))
        return m

    # --- entry sets -------------------------------------------------------------------
    def entries_sign(self):
        e = [self.fn("sign")]
        if self.has("sign_mut"):
            e.append(self.fn("sign_mut"))
        e += self.method("SigningKey", "try_sign_with_aux")
        e += self.method("SigningKey", "try_sign", "signature::signer::SignerMut")
        return e

    def entries_sign_plain(self):
        """Signing entry points that take an immutable message (no fast-verify search)."""
        e = [self.fn("sign")]
        e += self.method("SigningKey", "try_sign_with_aux")
        e += self.method("SigningKey", "try_sign", "signature::signer::SignerMut")
        return e

    def entries_keygen(self):
        return [self.fn("keygen")]

    def entries_verify(self):
        e = [self.fn("verify")]
        v = self.method("VerifyingKey", "verify", "signature::verifier::Verifier")
        if len(v) < 2:
            raise AnchorLost("expected Verifier impls for Signature and VerifierSignature, found %d" % len(v))
        return e + v

    def entries_lifetime(self):
        return self.method("SigningKey", "get_lifetime")

    def entries_constructors(self):
        e = []
        e += self.method("Signature", "from_bytes", "signature::signature::Signature")
        e += self.method("VerifierSignature", "from_bytes", "signature::signature::Signature")
        e += self.method("VerifierSignature", "from_ref")
        e += self.method("VerifyingKey", "from_bytes")
        return e

    def entries_key_constructors(self):
        return self.method("SigningKey", "from_bytes")
