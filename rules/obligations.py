"""OBL: reviewed obligations.  A panic-capable site that neither interval analysis nor an idiom
discharges may be discharged by an entry of this table, *provided every fact the entry depends
on still holds on the current tree* (each dependency is a MIR / table check evaluated on every
run).  Entries are keyed by function, site kind and operand description - never by line number.
Each entry was confirmed by reading the code; none is inferred.

If a dependency stops holding, the site is reported as undischarged and the report names it.
"""
import re

from . import core, expr, flow, gf, ia, paramtable as pt
from .api import Api

H = r"(hasher::sha256::Sha256_\d+|hasher::shake256::Shake256_\d+)"

OBL = [
    # ---------------- hash implementations ------------------------------------------------
    dict(id="hash-out-prefix", fn=r"^<%s as hasher::HashChain>::finalize(_reset)?$" % H, site=r"call:core::slice::index::index", operand=None,
         reason="`&digest[..OUTPUT_SIZE]` on the 32-byte SHA-256 output; OUTPUT_SIZE <= 32",
         requires=["T-HASHOUT"]),
    dict(id="hash-out-fits", fn=r"^<%s as hasher::HashChain>::finalize(_reset)?$" % H, site=r"call:core::result::Result::unwrap", operand=r"try_from",
         reason="ArrayVec::<[u8;32]>::try_from of a slice of OUTPUT_SIZE <= 32 bytes cannot fail",
         requires=["T-HASHOUT"]),
    # ---------------- parameter tables -------------------------------------------------------
    dict(id="default-param", fn=r"^<(lm_ots|lms)::parameters::Lm(ots|s)Parameter<H> as core::default::Default>::default$", site=r"call:core::option::Option::unwrap", operand=r"construct_parameter",
         reason="the receiver is a constant enum variant that has a row in the constructor table (never `Reserved`)",
         requires=["default-variant-has-row"]),
    dict(id="hssparam-new", fn=r"^hss::parameter::HssParameter::new$", site=r"call:core::option::Option::expect", operand=r"construct_parameter",
         reason="from the key decoder the call is preceded by `construct_parameter().is_none() -> Err` tests on the same two values; "
                "direct callers pass the public enum variants (constructing a parameter from `Reserved` is outside C11's statement)",
         requires=["GF-PARAMS-VALID"]),
    # ---------------- cursor arithmetic in the parsers ----------------------------------------
    dict(id="cursor-advance", fn=r"^util::helper::read_and_advance$", site=r"assert:Overflow:Add", operand=None,
         reason="executed only after read() returned Some, i.e. after `index.checked_add(length)` succeeded on the same operands",
         requires=["read-checked", "advance-after-read"]),
    dict(id="cursor-sum-pk", fn=r"^hss::definitions::InMemoryHssPublicKey::new$", site=r"assert:Overflow:Add", operand=None,
         reason="index (4) + length of a structure parsed from data[index..]: bounded by data.len() <= isize::MAX",
         requires=["read-checked", "tail-parse:hss::definitions::InMemoryHssPublicKey::new"]),
    dict(id="cursor-sum-sig", fn=r"^hss::signing::InMemoryHssSignature::new$", site=r"assert:Overflow:Add", operand=None,
         reason="cursor + length of a structure parsed from data[index..]: bounded by data.len() <= isize::MAX",
         requires=["read-checked", "tail-parse:hss::signing::InMemoryHssSignature::new"]),
    dict(id="lms-pk-prefix", fn=r"^lms::definitions::InMemoryLmsPublicKey::new$", site=r"call:core::slice::index::index", operand=None, max_sites=1,
         reason="`&data[..data_index]` where data_index was only advanced by successful reads from data",
         requires=["read-checked", "cursor-only-advanced-by-reads:lms::definitions::InMemoryLmsPublicKey::new"]),
    dict(id="lms-sig-len", fn=r"^lms::signing::InMemoryLmsSignature::len$", site=r"assert:Overflow:Add", operand=None,
         reason="sum of the lengths of disjoint sub-slices of one input slice plus 12",
         requires=["read-checked"]),
    # ---------------- HSS verify ----------------------------------------------------------------
    dict(id="hss-verify-spk", fn=r"^hss::verify::verify$", site=r"call:(<tinyvec::arrayvec::ArrayVec<A> as core::ops::index::Index<I>>::index|core::option::Option::unwrap)", operand=None, max_sites=4,
         reason="i < public_key.level - 1 == signature.level == number of `Some(..)` entries the parser pushed",
         requires=["GF-LEVEL", "GF-NSPK", "nspk-pushes-some-per-level"]),
    # ---------------- LM-OTS verify ------------------------------------------------------------
    dict(id="chain-array-cap", fn=r"^lm_ots::verify::HashChainArray::push$", site=r"call:tinyvec::arrayvec::ArrayVec::push", operand=r"array_w\d",
         reason="at most p pushes (one per chain) into the array selected for this w, whose capacity is the chain count for (w, 32) >= p(w, n)",
         requires=["T-CAP-CHAIN", "chain-array-one-selected"]),
    dict(id="chain-array-w1", fn=r"^lm_ots::verify::HashChainArray::as_slice$", site=r"call:core::option::Option::unwrap", operand=None, max_sites=1,
         reason="`new` sets exactly one of the four arrays on every path; the else-branch is reached only if it is array_w1",
         requires=["chain-array-one-selected"]),
    # ---------------- LMS path walk -------------------------------------------------------------
    dict(id="get-path", fn=r"^lms::signing::InMemoryLmsSignature::get_path$", site=r"(assert:Overflow:(Mul|Add)|call:core::slice::index::index)", operand=None,
         reason="called with i < h only: node_num < 2^(h+1) by the leaf-range check and halves every round; authentication_path holds n*h bytes",
         requires=["GF-LEAF", "node-number-below-2-pow-h-plus-1", "path-walk-halves", "auth-path-width"]),
    dict(id="path-walk-counter", fn=r"^lms::verify::generate_public_key_candidate$", site=r"assert:Overflow:Add", operand=r"^\w+,1$",
         reason="i counts the rounds of the halving loop (< 32 rounds for a u32 node number)",
         requires=["path-walk-halves"]),
    # ---------------- digits --------------------------------------------------------------------
    dict(id="coef-index", fn=r"^util::coef::coef$", site=r"assert:BoundsCheck", operand=None,
         reason="index = floor(i*w/8) with i < p; the byte string is digest||checksum (n+2 bytes) for i < p and the digest (n bytes) for i < 8n/w",
         requires=["T-COEF", "digit-callers-bounded"]),
    dict(id="iter-sum", fn=r"^lm_ots::signing::LmotsSignature::sign_core::\{closure#0\}$", site=r"assert:Overflow:Add", operand=r"^\w+,",
         reason="sum of p digits each < 2^w: p*(2^w-1) <= 65535 for every parameter row",
         requires=["T-ITERSUM"]),
    dict(id="hash-iterations", fn=r"^hss::hss_sign_core$", site=r"assert:Overflow:Add", operand=r"hash_iterations",
         reason="sum of at most MAX_ALLOWED_HSS_LEVELS u16 values in a u32",
         requires=["T-HASHITER"]),
    # ---------------- one-time keys ---------------------------------------------------------------
    dict(id="ots-key-index", fn=r"^<util::ArrayVecZeroize<T, N> as core::ops::index::Index<Idx>>::index$", site=r"call:<tinyvec::arrayvec::ArrayVec<A> as core::ops::index::Index<I>>::index", operand=None,
         reason="only used as private_key.key[i] with i < p; the key vector holds p entries (one push per chain in generate_private_key)",
         requires=["ots-key-index-callers"]),
    dict(id="chain-start-len", fn=r"^hasher::HashChain::do_hash_chain$", site=r"call:core::slice::copy_from_slice", operand=None,
         reason="initial_value is a hash-sized node: an element of the one-time key (finalize_reset output) or a checked n-byte slice of the signature",
         requires=["nodes-are-hash-outputs"]),
    dict(id="randomizer-assert", fn=r"^lm_ots::signing::LmotsSignature::to_binary_representation$", site=r"call:core::panicking::assert_failed", operand=None,
         reason="signature_randomizer is always a hash output (seed-derived, length n): the assert_eq cannot fail",
         requires=["randomizer-is-hash-output"]),
    # ---------------- key blob / in-memory key ---------------------------------------------------------
    dict(id="signing-key-copy", fn=r"^hss::SigningKey::try_sign_with_aux::\{closure#0\}$", site=r"call:core::slice::copy_from_slice", operand=None,
         reason="the callback is reached only after the key blob passed the exact-length test; the successor blob has the same length",
         requires=["GF-KEYLEN", "serialiser-length-constant"]),
    dict(id="seed-slice", fn=r"^hss::reference_impl_private_key::Seed::as_(mut_)?slice$", site=r"call:core::slice::index::index(_mut)?", operand=None,
         reason="Seed.data always holds at least OUTPUT_SIZE bytes: Default and From<[u8;32]> give 32, try_from requires exactly OUTPUT_SIZE",
         requires=["seed-constructors"]),
    dict(id="heights-collect", fn=r"^hss::reference_impl_private_key::ReferenceImplPrivateKey::increment$", site=r"call:core::iter::traits::iterator::Iterator::collect", operand=None,
         reason="collects one u8 per LMS private key into a vector of the same capacity as the key vector",
         requires=["collect-capacity-equal:hss::reference_impl_private_key::ReferenceImplPrivateKey::increment"]),
    dict(id="heights-sum", fn=r"^hss::reference_impl_private_key::CompressedUsedLeafsIndexes::increment$", site=r"call:core::iter::traits::iterator::Iterator::sum", operand=None,
         reason="sum of at most MAX_ALLOWED_HSS_LEVELS heights, each <= 25, in a u32",
         requires=["T-HEIGHTSUM"]),
    dict(id="shl-minus-one", fn=r"^hss::reference_impl_private_key::CompressedUsedLeafsIndexes::increment::\{closure#1\}$", site=r"assert:Overflow:Sub", operand=r"^\w+,1$",
         reason="the closure receives the Some payload of 1u64.checked_shl(h), which is 1 << h >= 1",
         requires=["closure-arg-is-checked-shl-of-one"]),
    dict(id="child-seed-inc", fn=r"^hss::seed_derive::SeedDerive::seed_derive$", site=r"assert:Overflow:Add", operand=r"child_seed,1",
         reason="child_seed is set to a constant <= 0xfffe before the single incrementing call per SeedDerive value",
         requires=["T-CHILDSEED", "seed-derive-increment-once"]),
    # ---------------- expanded key ---------------------------------------------------------------------
    dict(id="expand-prev-level", fn=r"^hss::definitions::HssPrivateKey::from$", site=r"call:<tinyvec::arrayvec::ArrayVec<A> as core::ops::index::Index(Mut)?<I>>::index(_mut)?", operand=r"private_key,\(next",
         reason="at loop index i >= 1 exactly i LMS keys have been pushed (root before the loop, one per iteration)",
         requires=["expansion-one-key-per-level"]),
    dict(id="expanded-key-shape", fn=r"^hss::signing::HssSignature::sign$", site=r"call:(<tinyvec::arrayvec::ArrayVec<A> as core::ops::index::Index(Mut)?<I>>::index(_mut)?|tinyvec::arrayvec::ArrayVec::push)", operand=r"^\w+\.(private_key|public_key|signatures)\b",
         reason="an expanded key has L private keys, L-1 public keys and L-1 signatures (HssPrivateKey::from); indices are L-1 or < L-1; "
                "the already-signed test guarantees signatures.len() == L-1 < capacity before the push",
         requires=["expansion-one-key-per-level", "GF-SIGNED-ONCE", "T-SIGCAP"]),
    dict(id="lifetime-free-leaves", fn=r"^hss::definitions::HssPrivateKey::get_lifetime$", site=r"assert:Overflow:Sub", operand=None, max_sites=1,
         reason="used_leafs_index <= 2^h: it is a masked counter digit (< 2^h) possibly advanced once by use_lmots_private_key under the range test",
         requires=["GF-OTS-RANGE", "leaf-digit-masked"]),
    # ---------------- auxiliary data (hash-sigs layout) ---------------------------------------------------
    dict(id="aux-marker", fn=r"^hss::aux::hss_store_aux_marker$", site=r"(assert:BoundsCheck|call:core::slice::index::index_mut)", operand=None,
         reason="called only on the freshly shrunk buffer whose length is hss_get_aux_data_len(..) >= 1, and >= 4+n when the level word is non-zero",
         requires=["aux-store-after-shrink", "aux-word-only-for-nonzero-level"]),
    dict(id="aux-shrink", fn=r"^hss::definitions::HssPrivateKey::get_expanded_aux_data$", site=r"call:core::slice::index::index_mut", operand=None, max_sites=1,
         reason="aux_len is min-bounded by the buffer length: hss_get_aux_data_len returns 1 (buffer non-empty is tested first) or orig_len - rest <= orig_len",
         requires=["aux-nonempty-guard", "aux-len-le-input"]),
    dict(id="aux-optimal", fn=r"^hss::aux::hss_optimal_aux_level$", site=r"assert:Overflow:Sub", operand=None,
         reason="each subtraction is guarded by a comparison of the same operands (max_length >= x) on the dominating branch",
         requires=["aux-optimal-guards"]),
    # exact site lists (function, site, operand) for the three hash-sigs aux routines: a new panic-capable site in
    # any of them is NOT covered and will be reported
] + [
    dict(id="aux-expand", fn=r"^hss::aux::hss_expand_aux_data$", site="^" + re.escape(site) + "$", operand="^" + re.escape(opnd) + "$",
         reason="layer sizes are n << level for level <= MAX_TREE_HEIGHT (their sum fits usize); with a seed the total is compared with the buffer "
                "length before split_at; without a seed (fresh buffer) the level word was computed by hss_optimal_aux_level for exactly this buffer length",
         requires=["aux-expand-length-guard", "aux-fresh-level-from-optimal", "T-AUXSUM"])
    for site, opnd in [
        ("call:core::iter::traits::iterator::Iterator::sum", "iter(repeat)"),
        ("assert:Overflow:Add", "0,sum(iter(deep))"),
        ("call:core::slice::split_at", "aux_data,(0 Add sum(iter(deep)))"),
        ("call:core::slice::index::index_mut", "aux_data,adt"),
        ("call:core::slice::split_at_mut", "aux_data,next(deep).0.1"),
        ("assert:BoundsCheck", "next(deep).0.0"),
    ]
] + [
    # the node accessors: the obligation covers the sites of the listed kinds in the two accessor functions, but no more of each
    # kind than were reviewed (`max_sites`): an additional index / arithmetic site in these functions needs a new review.  The
    # operand text is not matched - `slot.as_ref()?` and `if slot.is_none() { return } .. slot.unwrap()` are the same access.
    dict(id="aux-node", fn=r"^hss::aux::hss_%s_aux_data$" % which, site="^" + re.escape(site) + "$", operand=None, max_sites=n,
         reason="index is a tree node number 1 <= index < 2^(h+1) (root 1, children 2i and 2i+1, leaf indices 2^h + q with q < 2^h); "
                "level = floor(log2(index)) <= h <= MAX_TREE_HEIGHT; a level slice holds n << level bytes",
         requires=["aux-index-is-tree-node", "GF-OTS-RANGE", "aux-expand-length-guard"])
    for which, site, n in [
        ("extract", "assert:Overflow:Sub", 2),
        ("extract", "call:core::num::pow", 1),
        ("extract", "assert:BoundsCheck", 1),
        ("extract", "call:core::option::Option::unwrap", 1),
        ("extract", "call:core::slice::index::index", 2),
        ("save", "assert:Overflow:Sub", 2),
        ("save", "assert:BoundsCheck", 1),
        ("save", "assert:Overflow:Mul", 1),
        ("save", "assert:Overflow:Add", 1),
        ("save", "call:core::option::Option::unwrap", 1),
        ("save", "call:core::slice::index::index_mut", 1),
        ("save", "call:core::slice::copy_from_slice", 1),
    ]
] + [
    dict(id="aux-finalize", fn=r"^hss::aux::hss_finalize_aux_data$", site=r"call:core::slice::copy_from_slice", operand=None, max_sites=1,
         reason="hmac is the n-byte tail left by hss_expand_aux_data for the level word chosen by hss_optimal_aux_level (which reserves 4+n bytes)",
         requires=["aux-fresh-level-from-optimal"]),
    dict(id="hmac-collect", fn=r"^hss::aux::compute_hmac_(i|o)pad$", site=r"call:core::iter::traits::iterator::Iterator::collect", operand=None,
         reason="collects one byte per key byte; the key is a hash output (<= 32 bytes) into ArrayVec<[u8; 32]>",
         requires=["hmac-key-is-hash-output"]),
    # ---------------- capacities dimensioned by the build limits (HBS_LMS_* environment, C14) --------------------------
    # In the default build these sites are discharged by interval analysis alone (every table row fits); in a constrained
    # build they hold only because the decoder refuses parameters beyond the per-level limits.
    dict(id="limit-chains", fn=r"^lm_ots::(keygen::generate_private_key|keygen::generate_public_key|signing::LmotsSignature::calculate_signature)$",
         site=r"call:tinyvec::arrayvec::ArrayVec::push", operand=None,
         reason="one push per Winternitz chain (loop over 0..p); p <= MAX_NUM_WINTERNITZ_CHAINS because the parameter passed the per-level limit test w >= WINTERNITZ_PARAMETERS[level] >= MIN_WINTERNITZ_PARAMETER",
         requires=["GF-LIMITS", "params-only-from-decoder", "T-LIMIT-CHAINS", "chain-loops-run-to-p"]),
    dict(id="limit-auth-path", fn=r"^lms::signing::LmsSignature::build_authentication_path$", site=r"call:tinyvec::arrayvec::ArrayVec::push", operand=None,
         reason="one push per tree level (loop runs while the height counter is below the tree height); height <= TREE_HEIGHTS[level] <= MAX_TREE_HEIGHT by the limit test",
         requires=["GF-LIMITS", "params-only-from-decoder", "T-LIMIT-HEIGHT", "auth-path-loop-runs-to-height"]),
    dict(id="limit-hss-signature", fn=r"^hss::signing::HssSignature::to_binary_representation$", site=r"call:tinyvec::arrayvec::ArrayVec::extend_from_slice", operand=None,
         reason="level word + one signed public key per upper level + the message signature; each part is bounded by the formula lengths of its own level's limits, whose sum is the buffer's capacity and fits the u16 length field",
         requires=["GF-LIMITS", "params-only-from-decoder", "T-LIMIT-SIGLEN", "expansion-one-key-per-level"],
         # builds whose capacity exceeds the u16 length field: the signing core refuses parameter lists whose exact signature length exceeds 65535
         alt=["GF-LIMITS", "params-only-from-decoder", "T-LIMIT-SIGCAP", "GF-SIGLEN-U16", "T-SIGLEN-FORMULA", "expansion-one-key-per-level"]),

    # ---------------- fast-verify search (feature fast_verify; C15) -----------------------------------------------------
    dict(id="fv-eval", fn=r"^lm_ots::parameters::LmotsParameter::fast_verify_eval$", site=r".", operand=None,
         reason="the cache is [coef_helper(i, w) for i in 0..p] of the same parameter: digit i < 8n/w reads digest byte i*w/8 < n of an n-byte hash output, digit i >= 8n/w reads "
                "checksum byte i*w/8 - n in 0..1, shifts are <= 7, every term is <= 2^w-1 so the running sum stays <= p*(2^w-1) <= 65535 and the first-loop sum <= (8n/w)*(2^w-1) = cache.1",
         requires=["T-FVEVAL", "fv-init-shape", "fv-helper-matches-table", "fv-eval-shape", "fv-cache-from-init-of-same-parameter", "T-HASHOUT"]),
    dict(id="fv-worker-copy", fn=r"^lm_ots::signing::thread_optimize_message_hash$", site=r"call:core::slice::copy_from_slice", operand=None,
         reason="both vectors hold exactly H::OUTPUT_SIZE bytes: created empty, pushed once per iteration of 0..output size, afterwards only overwritten by hash outputs / copy_from_slice",
         requires=["fv-worker-vectors-have-output-size", "T-HASHOUT"]),
    dict(id="fv-worker-push", fn=r"^lm_ots::signing::thread_optimize_message_hash$", site=r"call:tinyvec::arrayvec::ArrayVec::push", operand=None,
         reason="one push per iteration of 0..output size (<= 32 = capacity) into a vector created empty",
         requires=["fv-worker-vectors-have-output-size", "T-HASHOUT"]),
    dict(id="fv-take-result", fn=r"^lm_ots::signing::optimize_message_hash$", site=r"call:core::slice::copy_from_slice", operand=None,
         reason="destination is the H::OUTPUT_SIZE-byte trailer (interval analysis: split at len - n), source is a worker's randomizer of exactly H::OUTPUT_SIZE bytes",
         requires=["fv-worker-vectors-have-output-size", "fv-results-only-from-workers", "fv-trailer-len-is-output-size"]),
    dict(id="fv-message-none", fn=r"^lm_ots::signing::optimize_message_hash(::\{closure#0\})?$", site=r"call:(core::panicking::assert_failed|core::result::Result::unwrap)", operand=r"^(adt|try_from\(\w+\))$",
         reason="below sign_mut the optional immutable message is None: the closure converting it never runs and the compared vectors are both empty",
         requires=["fv-message-none-in-live-contexts"]),
    dict(id="fv-scope-join", fn=r"^lm_ots::signing::optimize_message_hash$", site=r"call:core::result::Result::unwrap", operand=r"^scope",
         reason="scope() returns Err only if a worker panicked; every panic-capable site of the worker and of what it calls is enumerated and discharged in this same run",
         requires=["fv-scope-and-channel"]),
    dict(id="fv-send", fn=r"^lm_ots::signing::optimize_message_hash::\{closure#\d+\}::\{closure#\d+\}$", site=r"call:core::result::Result::unwrap", operand=r"^send",
         reason="send on an unbounded channel fails only when the receiver is gone; the receiver outlives the scope",
         requires=["fv-scope-and-channel"]),

]
