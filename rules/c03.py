"""C03 - no one-time key signs twice (clause level: counter discipline, the mechanism the property names).

  W1  single writer: the counter field is written only inside its own type, by constructors
      (from an integer / bytes / default / clone), one `+ 1` read-modify-write, and wipes
  W2  on an existing private-key value the counter member is only replaced by the parser, the
      generator, the explicit wipe, and advanced by exactly one call to the increment
  O1  signing path: expansion ≺ sign ≺ (exactly one) increment ≺ serialise ≺ callback on one key local
  O2  the increment's range test guards the `+1` (the counter is not touched on the exhausted path)
  P1  leaf provenance: level i's leaf is element i of the counter decomposition (root: 0), taken
      with the same loop item as level i's parameter; child identity derives from the parent's
      seed/identifier and the parent's *current* leaf (level i-1)
  P2  decomposition: per level, mask and shift use the same level's height; levels are visited
      bottom-up; the element index is the level index
  G1  GF-OTS-RANGE (leaf counter < 2^h before a one-time key is derived; the tree's own index advances)
  G2  GF-SIGNED-ONCE (an expanded key refuses to sign twice)
Not decided: that the decomposition *is* the mixed-radix digit rule, nor uniqueness over histories.
"""
from . import c04, c16, core, expr, flow, gf, zz
from .api import Api
from .core import AnchorLost

LEVEL = "other"
TECHNIQUE = "who-may-write enumeration over MIR, dominance on the signing core, expression-DAG provenance rules, guard facts"


def counter_type(F, K):
    cands = []
    for f in zz.fields_of(F, K):
        t = f["ty"]
        if t.get("k") == "adt" and t.get("crate") == core.LOCAL_CRATE and t["path"] in F.adts:
            fs = zz.fields_of(F, t["path"])
            if len(fs) == 1 and fs[0]["ty"].get("k") == "int":
                cands.append((f["name"], t["path"], fs[0]["name"]))
    if len(cands) != 1:
        raise AnchorLost("counter member (field of %s whose type wraps a single integer) not unique: %s" % (K, cands))
    return cands[0]


def self_is(f, adt):
    im = f.j.get("impl")
    if im and im["self_ty"].get("k") == "adt" and im["self_ty"]["path"] == adt:
        return True
    # closures inside such methods
    p = f.j.get("parent_fn")
    if p and p in f.facts.fns:
        return self_is(f.facts.fns[p], adt)
    return False


def classify_counter_write(F, f, C, cfield, s=None, term=None):
    """Classify one write to the counter field. Returns (kind, ok)."""
    ex = expr.Expr(F, f)
    if s is not None and s["rv"]["k"] == "aggregate":
        rv = s["rv"]
        i = rv["fields"].index(cfield)
        e = ex.of_operand(rv["ops"][i])
        if e[0] == "arg":
            return "constructor-from-integer", True
        if e[0] == "const" and e[1] == 0:
            return "constructor-zero", True
        if e[0] == "call" and e[1].endswith("from_be_bytes"):
            return "constructor-from-bytes", True
        if e[0] == "call" and e[1].endswith("default"):
            return "default", True
        if e[0] == "field" and e[2] == cfield:
            return "clone", True
        return "constructor-other:%s" % (e,), False
    if s is not None:
        e = ex.of_rvalue(s["rv"], 0)
        if e[0] == "bin" and e[1] == "Add" and ("const", 1) in (e[2], e[3]) and any(x[0] == "field" and x[2] == cfield for x in (e[2], e[3])):
            return "increment-by-one", True
        if e[0] == "const" and e[1] == 0:
            return "reset-zero", True
        if e[0] == "call" and e[1].endswith("checked_add") and ("const", 1) in e[2]:
            return "increment-by-one", True
        return "assign:%s" % (e,), False
    return "other", False


def run_config(chk, ctx, name):
    F = ctx.facts(name)
    A = Api(F)
    chk.configs.append(name)
    tag = "" if name == "default" else "[%s]" % name
    wr, leaves, S = zz.secret_sets(F, A)
    K, wipe_fn = c16.find_wipe(F, A, S)
    kmember, C, cfield = counter_type(F, K)
    chk.note("%s: key struct %s, counter member `%s`: %s.%s, wipe %s" % (name, K, kmember, C, cfield, wipe_fn))

    # ---------------- W1: writers of C.cfield ----------------
    incs = []
    nwriters = 0
    for f in F.fns.values():
        for b, i, s in f.iter_stmts():
            if s["k"] != "assign" or f.blocks[b]["cleanup"]:
                continue
            rv = s["rv"]
            hit = None
            if rv["k"] == "aggregate" and rv.get("agg") == "adt" and rv["path"] == C:
                hit = "aggregate"
            pr = s["place"]["proj"]
            if pr and pr[-1]["k"] == "field" and pr[-1].get("adt") == C and pr[-1].get("name") == cfield:
                hit = "assign"
            if hit:
                nwriters += 1
                kind, ok = classify_counter_write(F, f, C, cfield, s=s)
                inside = self_is(f, C)
                chk.ob("W1.counter-writer-allowed", "%s:%s%s" % (f.key, kind.split(":")[0], tag), ok and inside,
                       "write to the leaf counter in %s is %s%s" % (f.path, kind, "" if inside else " and lies outside the counter's own type"),
                       where="%s:%s" % (s["span"]["file"], s["span"]["line"]))
                if kind == "increment-by-one":
                    incs.append((f, b))
            # &mut borrows of the field
            if rv["k"] in ("ref", "rawptr") and rv.get("bk") == "mut":
                pp = rv["place"]["proj"]
                if pp and pp[-1]["k"] == "field" and pp[-1].get("adt") == C and pp[-1].get("name") == cfield:
                    nwriters += 1
                    # must flow into a zeroize call only
                    l = s["place"]["local"]
                    sinks = sinks_of_ref(f, l)
                    ok = bool(sinks) and all(c is not None and ("zeroize" in c) for c in sinks) and self_is(f, C)
                    chk.ob("W1.counter-mut-borrow-only-for-wipe", f.key + tag, ok,
                           "the counter is mutably borrowed in %s and passed to %s" % (f.path, sinks), where=f.loc(b))
    chk.count("counter_write_sites", nwriters)
    chk.ob("W1.exactly-one-increment-site", C + tag, len(incs) == 1,
           "expected exactly one `counter + 1` site, found %d: %s" % (len(incs), [(f.path, b) for f, b in incs]))
    inc_fn = incs[0][0] if incs else None

    # ---------------- O2: range test guards the +1 ----------------
    if inc_fn is not None:
        wb = [incs[0][1]]

        def dep(d):
            return (C, cfield) in d["fields"] and any(r["op"] in ("Lt", "Le", "Gt", "Ge") for r in d["binops"]) and bool(d["args"] - {1})
        g = gf.find_guards(inc_fn, dep, wb)
        chk.ob("O2.exhaustion-test-guards-increment", inc_fn.key + tag, len(g) >= 1,
               "in %s the `+1` is not guarded by a comparison of the counter with a bound derived from the tree heights whose failing edge returns Err "
               "(the counter must not move on the exhausted path)" % inc_fn.path, where=inc_fn.loc())

    # ---------------- W2: writes to K.kmember ----------------
    ninc_calls = 0
    for f in F.fns.values():
        ex = None
        for b, i, s in f.iter_stmts():
            if s["k"] != "assign" or f.blocks[b]["cleanup"]:
                continue
            pr = s["place"]["proj"]
            rv = s["rv"]
            if pr and pr[-1]["k"] == "field" and pr[-1].get("adt") == K and pr[-1].get("name") == kmember:
                ex = ex or expr.Expr(F, f)
                e = ex.of_rvalue(rv, 0)
                ok = self_is(f, K) and e[0] == "call" and core.strip_generics(C) in e[1]
                chk.ob("W2.key-counter-replaced-only-by-constructor", f.key + tag, ok,
                       "%s overwrites the key's counter member with %s" % (f.path, e), where=f.loc(b))
                chk.count("key_counter_assignments", 1)
            if rv["k"] == "aggregate" and rv.get("agg") == "adt" and rv["path"] == K:
                # a struct literal of the key: the counter member is given a constructor result as well
                idx = [n for n, fl in enumerate(zz.fields_of(F, K)) if fl["name"] == kmember]
                ex = ex or expr.Expr(F, f)
                e = ex.of_operand(rv["ops"][idx[0]]) if idx and len(rv["ops"]) > idx[0] else ("?",)
                while e[0] == "call" and e[1].endswith("::clone") and e[2]:
                    e = e[2][0]
                    while e[0] in ("ref", "deref"):
                        e = e[1]
                copy_of_member = e[0] == "field" and e[2] == kmember  # a key copied member by member (derived Clone)
                ok = self_is(f, K) and (copy_of_member or (e[0] == "call" and core.strip_generics(C) in e[1]))
                chk.ob("W2.key-counter-replaced-only-by-constructor", f.key + ":literal" + tag, ok,
                       "%s builds a key whose counter member is %s" % (f.path, e), where=f.loc(b))
                chk.count("key_counter_assignments", 1)
            if rv["k"] in ("ref", "rawptr") and rv.get("bk") == "mut":
                pp = rv["place"]["proj"]
                if pp and pp[-1]["k"] == "field" and pp[-1].get("adt") == K and pp[-1].get("name") == kmember:
                    sinks = sinks_of_ref(f, s["place"]["local"])
                    good = []
                    for c in sinks:
                        if c is None:
                            good.append(False)
                        elif inc_fn is not None and c == core.strip_generics(inc_fn.path):
                            good.append(True)
                            ninc_calls += 1
                        elif "zeroize" in c:
                            good.append(True)
                        else:
                            good.append(False)
                    chk.ob("W2.key-counter-mut-borrow", f.key + tag, bool(sinks) and all(good) and self_is(f, K),
                           "%s mutably borrows the key's counter member and hands it to %s" % (f.path, sinks), where=f.loc(b))
    chk.ob("W2.one-advance-call-site", K + tag, ninc_calls == 1,
           "the counter increment is invoked from %d sites on a key value (expected exactly one, in the key's own increment)" % ninc_calls)

    # the in-memory signing key persists the complete successor key (same protocol as the byte-level API)
    c04.in_memory_key_rules(chk, F, A, tag, "W3")

    # ---------------- O1: order on the signing core ----------------
    entries = A.entries_sign()
    tree, sites = c04.find_core(F, entries)
    if len(sites) != 1:
        raise AnchorLost("signing core (unique callback call site) not found: %s" % (sites,))
    core_path, cb_bb = sites[0]
    f = F.fns[core_path]
    cbt = f.blocks[cb_bb]["term"]
    org = flow.origin(f, cbt["args"][1])
    if org[0] != "call":
        chk.ob("O1.callback-argument-is-serialised-key", f.key + tag, False, "callback argument origin: %s" % (org[:2],), where=f.loc(cb_bb))
        return
    ser_b, ser_t = org[1], org[2]
    key_local = c04.resolve_owner(f, ser_t["args"][0])
    adv = []
    readers = []
    for b, t in f.calls():
        if not t["args"] or f.blocks[b]["cleanup"]:
            continue
        if c04.resolve_owner(f, t["args"][0], want_mut=True) == key_local:
            adv.append((b, t))
        elif c04.resolve_owner(f, t["args"][0]) == key_local and b != ser_b:
            readers.append((b, t))
    chk.ob("O1.exactly-one-advance-on-signing-path", f.key + tag, len(adv) == 1,
           "the signing core advances the key %d times (calls taking &mut key: %s)" % (len(adv), [core.callee_path(t) for b, t in adv]), where=f.loc())
    # expansion: the reader returning Result<local ADT>
    exp = [(b, t) for b, t in readers if f.locals[t["dest"]["local"]]["ty"].get("path") == flow.RESULT
           and f.locals[t["dest"]["local"]]["ty"]["args"][0].get("crate") == core.LOCAL_CRATE]
    chk.ob("O1.key-expansion-found", f.key + tag, len(exp) == 1, "key expansion call (fn(&key,..) -> Result<expanded key>) not unique: %s" % [core.callee_path(t) for b, t in exp])
    if len(adv) == 1 and len(exp) == 1:
        inc_b = adv[0][0]
        exp_b, exp_t = exp[0]
        # the signing call: takes &mut of the expanded key
        exp_checks = flow.result_checks(f, exp_t["dest"]["local"])
        sign_calls = []
        for b, t in f.calls():
            if f.blocks[b]["cleanup"] or not t["args"]:
                continue
            o = c04.resolve_owner(f, t["args"][0], want_mut=True)
            if o is not None and f.locals[o]["ty"].get("path") == f.locals[exp_t["dest"]["local"]]["ty"]["args"][0].get("path") and f.dominates(exp_b, b):
                sign_calls.append((b, t))
        chk.ob("O1.sign-call-found", f.key + tag, len(sign_calls) == 1, "signing call on the expanded key not unique: %s" % [core.callee_path(t) for b, t in sign_calls])
        if sign_calls:
            sb, st = sign_calls[0]
            cs = flow.result_checks(f, st["dest"]["local"])
            ok_dom = any(flow.edge_dominates(f, c.block, t_, inc_b) or (t_ == inc_b) for c in cs for t_ in c.ok_targets)
            chk.ob("O1.order", f.key + tag,
                   f.dominates(exp_b, sb) and f.dominates(sb, inc_b) and ok_dom and f.dominates(inc_b, ser_b) and f.dominates(ser_b, cb_bb),
                   "required order expansion(bb%d) < sign(bb%d) < increment(bb%d, after sign succeeded) < serialise(bb%d) < callback(bb%d) does not hold"
                   % (exp_b, sb, inc_b, ser_b, cb_bb), where=f.loc(inc_b))
            # the increment gets the expanded key that was used for signing (heights come from it)
        # no other definition of the key local between expansion and callback
        kdefs = [d for d in f.defs_of(key_local) if not f.blocks[d[0]]["cleanup"]]
        late = [d for d in kdefs if f.dominates(exp_b, d[0]) and d[0] != exp_b]
        chk.ob("O1.key-not-replaced-after-expansion", f.key + tag, not late,
               "the key local is redefined after the key expansion (bb %s)" % [d[0] for d in late], where=f.loc())
        expansion_fn = F.fns[F.call_targets(f, exp_t)[0]]
    else:
        return

    # ---------------- P1 / P2: leaf provenance ----------------
    xf = expansion_fn
    ex = expr.Expr(F, xf)
    decomp = None
    for b, t in xf.calls():
        if t["args"]:
            e0 = ex.of_operand(t["args"][0])
            if e0 == ("field", ("arg", 1), kmember):
                decomp = (b, t)
    chk.ob("P1.decomposition-call-found", xf.key + tag, decomp is not None, "no call on the key's counter member in %s" % xf.path, where=xf.loc())
    if decomp is None:
        return
    dlocal = decomp[1]["dest"]["local"]
    dfn = F.fns[F.call_targets(xf, decomp[1])[0]]
    # every use of the decomposition array is an index; collect (index expr, consumer)
    uses = []
    for b, blk in enumerate(xf.blocks):
        if blk["cleanup"]:
            continue
        for s in blk["stmts"]:
            if s["k"] == "assign":
                for p in places_in_rvalue(s["rv"]):
                    if p["local"] == dlocal and p["proj"] and p["proj"][0]["k"] == "index":
                        uses.append((b, ex.of_local(p["proj"][0]["local"], 0), s))
    chk.count("decomposition_uses", len(uses))
    idx_exprs = [u[1] for u in uses]
    has_root = any(e == ("const", 0) for e in idx_exprs)
    loop_idx = [e for e in idx_exprs if e != ("const", 0)]
    chk.ob("P1.root-uses-element-0", xf.key + tag, has_root, "the root tree's leaf is not element 0 of the counter decomposition: %s" % idx_exprs, where=xf.loc())
    # loop index must be the level index of the enumerate item whose parameter is passed alongside
    kp_calls = []
    for b, t in xf.calls():
        if xf.blocks[b]["cleanup"] or not xf.in_cycle(b):
            continue
        args = [ex.of_operand(a) for a in t["args"]]
        if any(a[0] == "index" and strip_to_local(a[1]) == ("var-or-call", dlocal) or (a[0] == "index" and is_local(xf, a, dlocal)) for a in args):
            kp_calls.append((b, t, args))
    # simpler: find the in-loop call one of whose arguments is &decomp[i]
    found = False
    for b, t in xf.calls():
        if xf.blocks[b]["cleanup"] or not xf.in_cycle(b):
            continue
        for ai, a in enumerate(t["args"]):
            p = ref_target_place(xf, a)
            if p is not None and p["local"] == dlocal and p["proj"] and p["proj"][0]["k"] == "index":
                ie = ex.of_local(p["proj"][0]["local"], 0)
                # the same call must receive the parameter of the same enumerate item: (item).1 with item == root of ie
                item_root = item_of(ie)
                others = [ex.of_operand(o) for j, o in enumerate(t["args"]) if j != ai]
                same_item = item_root is not None and any(item_of(o) == item_root and o != ie for o in others)
                is_level_index = ie[0] == "field" and ie[2] == "0" and item_root is not None
                chk.ob("P1.level-i-gets-element-i", xf.key + tag, same_item and is_level_index,
                       "the leaf handed to level i's key generation is decomposition[%s], not indexed by the loop item that also supplies level i's parameter" % (ie,),
                       where=xf.loc(b))
                found = True
                # ... and level i's *parameter* is element i of the decoded parameter list: either the enumerate item that also
                # supplies the index (enumerate directly over the list, so numbering and elements agree), or list[i] with the
                # very same index expression
                dec_path = core.strip_generics(key_anchors(F, A)["decoder"].path)

                def mentions_params(e):
                    return any(x[0] == "call" and core.strip_generics(x[1]) == dec_path for x in expr.walk(e))
                acc = []
                for j, o in enumerate(t["args"]):
                    if j == ai:
                        continue
                    for x in expr.walk(ex.of_operand(o)):
                        if x[0] == "index" and mentions_params(x[1]):
                            acc.append(("index", x[2]))
                        elif x[0] == "call" and x[1].endswith("::index") and len(x[2]) == 2 and mentions_params(x[2][0]):
                            acc.append(("index", x[2][1]))
                        elif x[0] == "field" and x[2] == "1" and x[1][0] == "field" and x[1][2] == "0" and x[1][1][0] == "variant" and item_of(x) is not None:
                            acc.append(("item", x))
                okp = bool(acc)
                for kind, v in acc:
                    if kind == "index":
                        okp = okp and v == ie
                    else:
                        nx = item_of(v)
                        # ie must be the .0 of the same item, and the enumerate must sit directly on the list's iterator
                        same = ie == ("field", v[1], "0")
                        direct = any(y[0] == "call" and y[1].endswith("::enumerate") and y[2] and y[2][0][0] == "call"
                                     and y[2][0][1].rsplit("::", 1)[-1] in ("iter", "into_iter") and mentions_params(y[2][0]) for y in expr.walk(nx))
                        okp = okp and same and direct
                chk.ob("P1.level-i-gets-parameter-i", xf.key + tag, okp,
                       "the parameter handed to level i's key generation is not element i of the decoded parameter list (accesses: %s; level index %s)"
                       % ([pf_short(v) for k, v in acc], pf_short(ie)), where=xf.loc(b))
    chk.ob("P1.per-level-leaf-site-found", xf.key + tag, found, "no in-loop call receiving &decomposition[i] in %s" % xf.path, where=xf.loc())
    # child identity: parent leaf of level i-1
    child = []
    for b, t in xf.calls():
        if xf.blocks[b]["cleanup"] or not xf.in_cycle(b) or len(t["args"]) != 2:
            continue
        tps = F.call_targets(xf, t)
        if not tps:
            continue
        g = F.fns[tps[0]]
        if g.j.get("output", {}).get("s") == xf.locals[core.op_place(t["args"][0])["local"]]["ty"]["s"].lstrip("&") or \
                (g.j.get("output", {}).get("path") in S and len(t["args"]) == 2):
            child.append((b, t, g))
    chk.ob("P1.child-derivation-found", xf.key + tag, len(child) >= 1, "child seed/identifier derivation call not found in the level loop of %s" % xf.path, where=xf.loc())
    for b, t, g in child[:1]:
        leaf_e = ex.of_operand(t["args"][1])
        # the argument must BE the parent's leaf counter (a copy / borrow of `keys[i-1].<leaf index field>`), not a function of it:
        # any arithmetic on the way (masking, modulo, truncation) lets two parent leaves share one child tree
        root = leaf_e
        while isinstance(root, tuple) and root[0] in ("ref", "deref", "copy"):
            root = root[1]
        is_field = isinstance(root, tuple) and root[0] == "field" and root[2] in ("used_leafs_index",)
        idx_ok = is_field and any(x[0] == "bin" and x[1] == "Sub" and ("const", 1) in (x[2], x[3]) for x in expr.walk(root[1]))
        ok = is_field and idx_ok
        chk.ob("P1.child-derived-from-parent-current-leaf", xf.key + tag, ok,
               "the child tree's seed/identifier is not derived from level i-1's current leaf index: %s" % (leaf_e,), where=xf.loc(b))
        # the derivation depends on both parameters
        gs = core.Slice(g)
        d = gs.deps([0])
        chk.ob("P1.child-identity-depends-on-parent-and-leaf", g.key + tag, {1, 2} <= d["args"],
               "%s does not depend on both the parent seed/identifier and the parent leaf (depends on parameters %s)" % (g.path, sorted(d["args"])), where=g.loc())
        # every component of the returned identity (seed and tree identifier) must depend on both
        for rb, rt in g.calls():
            if rt["dest"]["local"] == 0 and not rt["dest"]["proj"] and not g.blocks[rb]["cleanup"]:
                for ai, a in enumerate(rt["args"]):
                    pl = core.op_place(a)
                    if pl is None:
                        continue
                    owner = flow.resolve_owner(g, a)
                    dd = gs.deps([owner if owner is not None else pl["local"]])
                    chk.ob("P1.child-component-depends-on-parent-and-leaf", "%s#%d%s" % (g.key, ai, tag), {1, 2} <= dd["args"],
                           "component %d of the child identity built in %s depends only on parameters %s: sibling subtrees would share it "
                           "(it must be a function of parent seed/identifier AND parent leaf)" % (ai, g.path, sorted(dd["args"])), where=g.loc(rb))
                    chk.count("child_components", 1)

    decomposition_rules(chk, F, dfn, cfield, tag)
    # G4: the exhaustion threshold (C05-A1): a key that is not wiped after its last leaf wraps around and signs with leaf 0 again
    from . import c05 as _c05
    _c05.threshold_rules(chk, F, key_anchors(F, A), tag, prefix="G4")

    # ---------------- G1 / G2 ----------------
    # G1: the function returning the one-time private key type from &mut LMS private key
    ots_types = [p for p in leaves if p != seed_type(F, A, leaves)]
    g1 = None
    for f2 in F.fns.values():
        out = f2.j.get("output", {})
        if out.get("path") == flow.RESULT and out["args"][0].get("path") in ots_types and len(f2.j.get("inputs", [])) == 1 and f2.j["inputs"][0]["s"].startswith("&mut "):
            g1 = f2
    chk.ob("G1.leaf-dispenser-found", name, g1 is not None, "fn(&mut LMS private key) -> Result<one-time key> not found")
    if g1 is not None:
        gen_blocks = [b for b, t in g1.calls() if not g1.blocks[b]["cleanup"] and g1.locals[t["dest"]["local"]]["ty"].get("path") in ots_types]
        adt = c04.self_adt(g1)

        def dep(d):
            return any(n == "used_leafs_index" for a, n in d["fields"]) and any(r["op"] in ("Lt", "Le", "Gt", "Ge") for r in d["binops"]) and \
                (any("LmsParameter" in c for c in gf.dep_callees(d)) or any(n == "tree_height" for a, n in d["fields"]))
        g = gf.find_guards(g1, dep, gen_blocks)
        chk.ob("G1.GF-OTS-RANGE", g1.key + tag, len(g) >= 1 and bool(gen_blocks),
               "%s derives a one-time key without first comparing the leaf counter with 2^h" % g1.path, where=g1.loc())
        adv_ = []
        gx = expr.Expr(F, g1)
        for b, i, s in g1.iter_stmts():
            if s["k"] == "assign" and s["place"]["proj"] and s["place"]["proj"][-1]["k"] == "field" and s["place"]["proj"][-1].get("name") == "used_leafs_index" and not g1.blocks[b]["cleanup"]:
                e = gx.of_rvalue(s["rv"], 0)
                adv_.append(e)
        ok = len(adv_) == 1 and adv_[0][0] == "bin" and adv_[0][1] == "Add" and ("const", 1) in (adv_[0][2], adv_[0][3])
        chk.ob("G1.tree-index-advances-by-one", g1.key + tag, ok, "the LMS key's own leaf index is not advanced by exactly one when a one-time key is handed out: %s" % adv_, where=g1.loc())

    # G2: signing routine of the expanded key: an `already signed` test guards the bottom-level signing call
    if sign_calls:
        sfn = F.fns[F.call_targets(f, sign_calls[0][1])[0]]
        lms_sign_blocks = [b for b, t in sfn.calls() if not sfn.blocks[b]["cleanup"] and t["args"] and
                           any(tp for tp in F.call_targets(sfn, t) if F.fns[tp].j.get("output", {}).get("path") == flow.RESULT)
                           and sfn.locals[t["dest"]["local"]]["ty"].get("path") == flow.RESULT]

        def dep2(d):
            cal = gf.dep_callees(d)
            return any(c.endswith("get_mut") or c.endswith("::get") or c.endswith("::len") for c in cal) and any(c.endswith("is_some") or c.endswith("is_none") for c in cal) or \
                (any(c.endswith("::len") for c in cal) and bool(d["binops"]))
        g = gf.find_guards(sfn, dep2, lms_sign_blocks)
        chk.ob("G2.GF-SIGNED-ONCE", sfn.key + tag, len(g) >= 1 and bool(lms_sign_blocks),
               "%s signs without first testing whether this expanded key already produced its signature" % sfn.path, where=sfn.loc())


def decomposition_rules(chk, F, dfn, cfield, tag, prefix="P2"):
    """P2: structure of the counter decomposition routine `dfn`."""
    dx = expr.Expr(F, dfn)
    writes = []
    for b, i, s in dfn.iter_stmts():
        if s["k"] == "assign" and s["place"]["proj"] and s["place"]["proj"][0]["k"] == "index" and not dfn.blocks[b]["cleanup"]:
            writes.append((b, s))
    chk.ob(prefix + ".single-element-write", dfn.key + tag, len(writes) == 1, "expected one element write in %s, found %d" % (dfn.path, len(writes)), where=dfn.loc())
    if len(writes) == 1:
        b, s = writes[0]
        ie = dx.of_local(s["place"]["proj"][0]["local"], 0)
        ve = dx.of_rvalue(s["rv"], 0)
        item = item_of(ie)
        hs = [x for x in expr.walk(ve) if x[0] == "field" and x[2] == "tree_height"]
        h_same_item = bool(hs) and all(item_of(x) == item for x in hs) and item is not None
        masks = [x for x in expr.walk(ve) if x[0] == "bin" and x[1] in ("BitAnd", "Rem")]
        chk.ob(prefix + ".mask-uses-own-level-height", dfn.key + tag, h_same_item and bool(masks) and ie[0] == "field" and ie[2] == "0",
               "element[%s] := %s : index and height do not come from the same level item" % (ie, ve), where=dfn.loc(b))
        # the running value is shifted by the same height
        cnt_vars = [x for x in expr.walk(ve) if x[0] == "var"]
        shift_ok = False
        for v in cnt_vars:
            for d in dx.defs_exprs(v[1]):
                if d[0] == "bin" and d[1] in ("Shr", "Div") and d[2] == v:
                    hh = [x for x in expr.walk(d[3]) if x[0] == "field" and x[2] == "tree_height"]
                    if hh and all(item_of(x) == item for x in hh):
                        shift_ok = True
                if d == ("field", ("arg", 1), cfield):
                    pass
        chk.ob(prefix + ".shift-uses-own-level-height", dfn.key + tag, shift_ok,
               "the running counter is not shifted by the height of the level just extracted", where=dfn.loc(b))
        # bottom-up: the iteration is reversed
        rev = any(x[0] == "call" and x[1].endswith("::rev") for x in expr.walk(ie))
        chk.ob(prefix + ".levels-visited-bottom-up", dfn.key + tag, rev,
               "the decomposition loop does not visit levels in reverse (bottom level least significant): %s" % (ie,), where=dfn.loc(b))
        init = any(d == ("field", ("arg", 1), cfield) for v in cnt_vars for d in dx.defs_exprs(v[1]))
        chk.ob(prefix + ".starts-from-counter", dfn.key + tag, init, "the running value is not initialised from the counter field", where=dfn.loc())


def key_anchors(F, A):
    """Role-resolved anchors shared by C03 / C05 / C13."""
    wr, leaves, S = zz.secret_sets(F, A)
    K, wipe_fn = c16.find_wipe(F, A, S)
    kmember, C, cfield = counter_type(F, K)
    # counter increment: the function of C's impl containing the `+ 1` write
    inc_fn = None
    for f in F.fns.values():
        if not self_is(f, C):
            continue
        for b, i, s in f.iter_stmts():
            if s["k"] == "assign" and not f.blocks[b]["cleanup"]:
                pr = s["place"]["proj"]
                if pr and pr[-1]["k"] == "field" and pr[-1].get("adt") == C and pr[-1].get("name") == cfield:
                    kind, ok = classify_counter_write(F, f, C, cfield, s=s)
                    if kind == "increment-by-one":
                        inc_fn = f
    if inc_fn is None:
        raise AnchorLost("counter increment (`count + 1` inside %s)" % C)
    # key-level increment: the K method that hands `&mut self.<counter>` to inc_fn
    key_inc = None
    for f in F.fns.values():
        if self_is(f, K) and f.kind != "Closure":
            for b, t in f.calls():
                if F.call_targets(f, t) == [inc_fn.path]:
                    key_inc = f
    if key_inc is None:
        raise AnchorLost("key-level increment calling %s" % inc_fn.path)
    xf = _expansion_fn(F, A)
    ex = expr.Expr(F, xf)
    dfn = None
    for b, t in xf.calls():
        if t["args"] and ex.of_operand(t["args"][0]) == ("field", ("arg", 1), kmember):
            tps = F.call_targets(xf, t)
            if tps:
                dfn = F.fns[tps[0]]
    if dfn is None:
        raise AnchorLost("counter decomposition routine")
    # lifetime: fn(&expanded key) -> u64
    xadt = xf.j["output"]["args"][0]["path"]
    lt = [f for f in F.fns.values() if f.j.get("impl", {}).get("self_ty", {}).get("path") == xadt and f.j.get("output", {}).get("s") == "u64" and len(f.j.get("inputs", [])) == 1]
    if len(lt) != 1:
        raise AnchorLost("lifetime routine (fn(&%s) -> u64)" % xadt)
    decoder = None
    for b, t in xf.calls():
        tps = F.call_targets(xf, t)
        if tps and t["args"] and ex.of_operand(t["args"][0])[0] == "field" and ex.of_operand(t["args"][0])[1] == ("arg", 1) and \
                F.fns[tps[0]].j.get("output", {}).get("path") == flow.RESULT and tps[0] != dfn.path:
            decoder = F.fns[tps[0]]
    if decoder is None:
        raise AnchorLost("parameter decoder")
    return dict(K=K, wipe=F.fn(wipe_fn), kmember=kmember, C=C, cfield=cfield, inc=inc_fn, key_inc=key_inc, expansion=xf, decomposition=dfn,
                lifetime=lt[0], decoder=decoder, S=S)


def _leaf_dispenser(F, A):
    wr, leaves, S = zz.secret_sets(F, A)
    ots_types = [p for p in leaves if p != seed_type(F, A, leaves)]
    for f2 in F.fns.values():
        out = f2.j.get("output", {})
        if out.get("path") == flow.RESULT and out["args"][0].get("path") in ots_types and len(f2.j.get("inputs", [])) == 1 and f2.j["inputs"][0]["s"].startswith("&mut "):
            return f2, ots_types
    return None, ots_types


def ots_range_guard(F, A):
    g1, ots_types = _leaf_dispenser(F, A)
    if g1 is None:
        return (False, "leaf dispenser not found")
    gen_blocks = [b for b, t in g1.calls() if not g1.blocks[b]["cleanup"] and g1.locals[t["dest"]["local"]]["ty"].get("path") in ots_types]

    def dep(d):
        return any(n == "used_leafs_index" for a, n in d["fields"]) and any(r["op"] in ("Lt", "Le", "Gt", "Ge") for r in d["binops"]) and \
            (any("LmsParameter" in c for c in gf.dep_callees(d)) or any(n == "tree_height" for a, n in d["fields"]))
    g = gf.find_guards(g1, dep, gen_blocks)
    return (len(g) >= 1 and bool(gen_blocks), "leaf counter compared with 2^h before a one-time key is derived in %s" % g1.path)


def signed_once_guard(F, A):
    entries = A.entries_sign()
    tree, sites = c04.find_core(F, entries)
    if len(sites) != 1:
        return (False, "signing core not found")
    f = F.fns[sites[0][0]]
    for b, t in f.calls():
        tps = F.call_targets(f, t)
        if tps and t["args"] and f.locals[t["dest"]["local"]]["ty"].get("path") == flow.RESULT:
            sfn = F.fns[tps[0]]
            if sfn.j.get("name") == "sign" or "HssSignature" in sfn.path:
                lms_sign_blocks = [bb for bb, tt in sfn.calls() if not sfn.blocks[bb]["cleanup"] and tt["args"] and
                                   sfn.locals[tt["dest"]["local"]]["ty"].get("path") == flow.RESULT and F.call_targets(sfn, tt)]

                def dep2(d):
                    cal = gf.dep_callees(d)
                    return any(c.endswith("get_mut") or c.endswith("::get") or c.endswith("::len") for c in cal) and any(c.endswith("is_some") or c.endswith("is_none") for c in cal) or \
                        (any(c.endswith("::len") for c in cal) and bool(d["binops"]))
                g = gf.find_guards(sfn, dep2, lms_sign_blocks)
                if g and lms_sign_blocks:
                    return (True, "already-signed test guards the bottom-level signing in %s" % sfn.path)
    return (False, "no already-signed guard found")


def _expansion_fn(F, A):
    entries = A.entries_sign()
    tree, sites = c04.find_core(F, entries)
    f = F.fns[sites[0][0]]
    for b, t in f.calls():
        dty = f.locals[t["dest"]["local"]]["ty"]
        if dty.get("path") == flow.RESULT and dty["args"][0].get("crate") == core.LOCAL_CRATE and t["args"] and len(t["args"]) == 2:
            tps = F.call_targets(f, t)
            if tps and F.fns[tps[0]].j.get("name") == "from":
                return F.fns[tps[0]]
    raise AnchorLost("key expansion routine")


def expansion_shape(F, A):
    """In the key expansion: one push to the private-key vector before the level loop, one per iteration."""
    xf = _expansion_fn(F, A)
    pre, inl = 0, 0
    for b, t in xf.calls():
        if xf.blocks[b]["cleanup"]:
            continue
        if core.strip_generics(core.callee_path(t) or "") == "tinyvec::arrayvec::ArrayVec::push":
            o = flow.resolve_owner_path(xf, t["args"][0], want_mut=True)
            if o is not None and o[1] == ("private_key",):
                if xf.in_cycle(b):
                    inl += 1
                else:
                    pre += 1
    # the loop skips the root level
    ex = expr.Expr(F, xf)
    # (either `iter().skip(1)` or the index range `1..len`)
    def skips_root(x):
        if x[0] == "call" and x[1].endswith("::skip") and x[2][1] == ("const", 1):
            return True
        return (x[0] == "adt" and x[1] == "core::ops::range::Range" and x[3][0] == ("const", 1)
                and x[3][1][0] == "call" and x[3][1][1].endswith("::len"))
    skip1 = any(skips_root(x)
                for b, t in xf.calls() if (core.callee_path(t) or "").endswith("::next") for x in expr.walk(ex.of_operand(t["args"][0])))
    return (pre == 1 and inl == 1 and skip1, "root key pushed before the loop (%d), one key per iteration (%d), loop skips level 0 (%s)" % (pre, inl, skip1))


def leaf_digit_masked(F, A):
    xf = _expansion_fn(F, A)
    ex = expr.Expr(F, xf)
    for b, t in xf.calls():
        tps = F.call_targets(xf, t)
        if tps and F.fns[tps[0]].j.get("output", {}).get("k") == "array" and F.fns[tps[0]].j.get("output", {}).get("elem", {}).get("s") == "u32":
            dfn = F.fns[tps[0]]
            dx = expr.Expr(F, dfn)
            for bb, i, s in dfn.iter_stmts():
                if s["k"] == "assign" and s["place"]["proj"] and s["place"]["proj"][0]["k"] == "index" and not dfn.blocks[bb]["cleanup"]:
                    ve = dx.of_rvalue(s["rv"], 0)
                    def pow2(y):   # 2^h written as pow(2, h) or 1 << h
                        return expr.has_call(y, "pow") or any(z[0] == "bin" and z[1] == "Shl" and z[2] == ("const", 1) for z in expr.walk(y))
                    ok = any(x[0] == "bin" and x[1] == "BitAnd" and any(y[0] == "bin" and y[1] == "Sub" and y[3] == ("const", 1) and pow2(y[2]) for y in expr.walk(x))
                             for x in expr.walk(ve))
                    return (ok, "every per-level leaf index is the counter masked with 2^h - 1")
    return (False, "decomposition routine not found")


def seed_type(F, A, leaves):
    kg = F.fn(A.fn("keygen"))
    for t in kg.j.get("inputs", []):
        if t["k"] == "ref" and t["ty"].get("path") in leaves:
            return t["ty"]["path"]
    return None


def sinks_of_ref(f, l):
    """Stripped callee paths that a reference local (through reborrows) is passed to."""
    seen = set()
    work = [l]
    sinks = []
    while work:
        x = work.pop()
        if x in seen:
            continue
        seen.add(x)
        for b, i, kind, item in flow.uses_of_local(f, x):
            if f.blocks[b]["cleanup"]:
                continue
            if kind == "stmt":
                rv = item["rv"]
                if rv["k"] in ("ref", "use", "cast", "rawptr") and not item["place"]["proj"]:
                    work.append(item["place"]["local"])
                else:
                    sinks.append(None)
            elif kind == "call":
                p = core.callee_path(item)
                c = core.callee_of(item)
                sinks.append(core.strip_generics(p) if p else None)
            elif kind == "drop":
                pass
            else:
                sinks.append(None)
    return sinks


def places_in_rvalue(rv):
    out = []
    k = rv["k"]
    if k in ("use", "cast", "repeat"):
        p = core.op_place(rv["op"])
        if p:
            out.append(p)
    elif k in ("ref", "rawptr", "discr"):
        out.append(rv["place"])
    elif k == "binop":
        for o in (rv["a"], rv["b"]):
            p = core.op_place(o)
            if p:
                out.append(p)
    elif k == "aggregate":
        for o in rv["ops"]:
            p = core.op_place(o)
            if p:
                out.append(p)
    return out


def ref_target_place(f, operand):
    """Place that a (re)borrowed reference operand points to."""
    p = core.op_place(operand)
    for _ in range(12):
        if p is None or p["proj"]:
            return None
        ds = [d for d in f.defs_of(p["local"]) if not f.blocks[d[0]]["cleanup"]]
        if len(ds) != 1 or ds[0][1] == "term" or ds[0][2]["k"] != "assign":
            return None
        rv = ds[0][2]["rv"]
        if rv["k"] == "ref":
            pl = rv["place"]
            if len(pl["proj"]) == 1 and pl["proj"][0]["k"] == "deref":
                p = {"local": pl["local"], "proj": []}
                continue
            return pl
        if rv["k"] == "use":
            p = core.op_place(rv["op"])
            continue
        return None
    return None


def pf_short(e):
    from . import pf
    try:
        return pf.short(e, None)
    except Exception:
        return str(e)[:80]


def item_of(e):
    """The iterator `next()` call expression an index / parameter expression is a component of."""
    for x in expr.walk(e):
        if x[0] == "call" and x[1].endswith("::next"):
            return x
    return None


def strip_to_local(e):
    return e


def is_local(f, a, l):
    return False


def ots_key_binding(chk, F, tag):
    """G3: the one-time private key elements are H(I || q || i || 0xff || SEED) - every chain start is bound to the tree, the
    leaf and the chain (reference preimage OTSKEY of the HL engine); without I/q in the preimage all leaves of a tree, or equal
    leaves of sibling trees, share their one-time secrets."""
    from . import hlref
    S, sessions = hlref.analyse_sessions(F)
    hlref.presence(chk, sessions, {"OTSKEY": 1, "PRNG": 1}, tag, "G3")
    bad = [(f.path, r) for f, end, b, st, items, cls, r in sessions if not cls and ("keygen" in f.path or "seed_derive" in f.path)]
    chk.ob("G3.key-derivation-preimages-are-reference-preimages", "derivation" + tag, not bad,
           "a key-derivation hash input is not a reference preimage: %s" % bad[:1])


def run(chk, ctx):
    chk.explanation = (
        "Counter discipline is decided structurally: every write to the counter field in the crate is enumerated and classified "
        "(constructors, one +1 guarded by the exhaustion test, wipes, all inside the counter's own type); on a key value the counter member "
        "is replaced only by parser/generator/wipe and advanced by one call; in the signing core the order expansion < sign(success) < single "
        "increment < serialise < callback holds on one key local; level i's leaf is decomposition[i] taken with level i's parameter, child "
        "identity derives from level i-1's current leaf; the decomposition masks and shifts by the same level's height, bottom-up; the LMS "
        "key refuses leaves >= 2^h and advances its own index; the expanded key refuses to sign twice."
    )
    chk.not_decided = ("that the decomposition equals the mixed-radix digit rule for all counters (a numeric identity), and uniqueness over all "
                       "histories (a runtime statement); these clauses are the mechanism the property names and are necessary conditions")
    chk.trusted_base = ["rustc MIR construction", "C04's result (the callback protocol) for the persistence step"]
    configs = ["default"] if ctx.tier == "quick" else ["default", "std", "verbose", "fast_verify"]
    for name in configs:
        run_config(chk, ctx, name)
        ots_key_binding(chk, ctx.facts(name), "" if name == "default" else "[%s]" % name)
    chk.floor("counter_write_sites", 3)
    chk.floor("decomposition_uses", 2)
    chk.floor("key_counter_assignments", 2)
    chk.floor("child_components", 2)
