"""C16 - secret-bearing values are wiped when dropped or exhausted (type-structural).

  Z1  secret set: leaf holders = local types embedding the zeroizing wrapper by value (role
      cross-check: the type of keygen's seed parameter is one of them); closure S = everything
      that contains a leaf holder by value.
  Z2  every leaf holder has a `Drop::drop` whose MIR wipes each storage-owning field.
  Z3  every `Zeroize::zeroize` / `Drop::drop` impl of a type in S reaches a wipe of every
      storage-owning field; a field left out may only hold scalars / PhantomData.
  Z4  the wrapper is wiped through zeroize's volatile whole-value `DefaultIsZeroes` impl and its
      `Default` builds a full-capacity array of element defaults.
  Z5  no drop suppression (ManuallyDrop / MaybeUninit / mem::forget / leak) around a type in S,
      and no type in S is `Copy`.
  Z6  the explicit wipe used on exhaustion overwrites every storage-owning field of the key.
"""
import os

from . import core, flow, zz, extract
from .api import Api

LEVEL = "proof"
TECHNIQUE = "type-structural analysis of ADT containment plus MIR field-coverage of Zeroize/Drop impls"


def ty_mentions(ty_s, paths):
    return [p for p in paths if p in ty_s]


def suppression_rules(chk, F, S, tag, not_copy=None):
    """Z5 over an arbitrary secret set (also used on the canary)."""
    n = 0
    hits = 0
    for p, a in F.adts.items():
        for f in zz.fields_of(F, p):
            n += 1
            s = f["ty"]["s"]
            if any(x in s for x in zz.SUPPRESSORS) and ty_mentions(s, S):
                hits += 1
                chk.ob("Z5.no-suppressor-field", "%s.%s%s" % (p, f["name"], tag), False,
                       "field %s.%s: %s wraps a secret-bearing type in a drop suppressor" % (p, f["name"], s),
                       where="%s:%s" % (a["span"]["file"], a["span"]["line"]))
    for f in F.fns.values():
        for i, l in enumerate(f.locals):
            s = l["ty"]["s"]
            if any(x in s for x in zz.SUPPRESSORS) and ty_mentions(s, S):
                hits += 1
                chk.ob("Z5.no-suppressor-local", "%s%s" % (f.key, tag), False,
                       "%s holds a local of type %s (drop of a secret suppressed)" % (f.path, s), where=f.loc())
        for b, t in f.calls():
            c = core.callee_of(t)
            if c is None:
                continue
            decl = core.strip_generics((c.get("resolved") or c)["path"])
            n += 1
            if decl in zz.FORGETTERS:
                argtys = " ".join(a.get("s", "") for a in c.get("args", []) if isinstance(a, dict))
                if ty_mentions(argtys, S):
                    hits += 1
                    chk.ob("Z5.no-forget", "%s->%s%s" % (f.key, decl, tag), False,
                           "%s calls %s on %s: the value is never dropped, so never wiped" % (f.path, decl, argtys),
                           where=f.loc(b))
    for p in (S if not_copy is None else not_copy):
        a = F.adts.get(p)
        if a is not None and a["is_copy"]:
            hits += 1
            chk.ob("Z5.not-copy", p + tag, False, "secret-bearing type %s is Copy: copies are never wiped" % p)
    return n, hits


def run(chk, ctx):
    chk.explanation = (
        "Every type that embeds the zeroizing wrapper, and every type containing such a type, is enumerated from the ADT "
        "definitions; for each, the MIR of its Zeroize and Drop impls is checked to pass every storage-owning field to a "
        "zeroize call (or to delegate to an impl that does); drop suppression and Copy are excluded; the explicit wipe on "
        "exhaustion overwrites all fields."
    )
    chk.not_decided = ("Transient plain byte buffers (the serialised key handed to the callback, SigningKey::bytes, a Node copied "
                       "out of the one-time key while signing) are not 'values with secret fields' and are listed as observations only.")
    chk.trusted_base = ["rustc MIR construction", "zeroize crate: DefaultIsZeroes blanket impl performs a volatile whole-value overwrite",
                        "drop glue drops every by-value field (language guarantee)"]
    configs = ["default"] if ctx.tier == "quick" else ["default", "std", "fast_verify", "verbose"]
    for name in configs:
        F = ctx.facts(name)
        A = Api(F)
        chk.configs.append(name)
        tag = "" if name == "default" else "[%s]" % name
        wr, leaves, S = zz.secret_sets(F, A)
        chk.count("wrappers", len(wr))
        chk.count("leaf_holders", len(leaves))
        chk.count("secret_types", len(S))
        chk.note("%s: wrapper=%s leaves=%s S=%s" % (name, wr, sorted(leaves), sorted(S)))
        # Z1 role cross-check: keygen's seed parameter
        kg = F.fn(A.fn("keygen"))
        seed_tys = set()
        for t in kg.j.get("inputs", []):
            if t["k"] == "ref" and t["ty"]["k"] == "adt" and t["ty"]["crate"] == "hbs_lms":
                seed_tys.add(t["ty"]["path"])
        chk.ob("Z1.keygen-seed-is-leaf-holder", name, bool(seed_tys & leaves),
               "the type of keygen's seed parameter (%s) does not embed the zeroizing wrapper; leaf holders: %s" % (sorted(seed_tys), sorted(leaves)))
        # one-time private key: the ADT returned by the chain generator reachable from keygen holds the wrapper
        ots = [p for p in leaves if p not in seed_tys]
        chk.ob("Z1.one-time-key-is-leaf-holder", name, len(ots) >= 1,
               "no second leaf holder (one-time private chain values) found; leaf holders: %s" % sorted(leaves))

        # self-wiping fixpoint
        W = set()
        changed = True
        while changed:
            changed = False
            for p in sorted(S):
                if p in W:
                    continue
                d = zz.impl_fn(F, p, zz.DROP_TRAIT, "drop")
                if not d:
                    continue
                cov = zz.coverage(F, d, p)
                if all((f["name"] in cov) or not zz.type_owns_storage(F, f["ty"], W) for f in zz.fields_of(F, p)):
                    W.add(p)
                    changed = True
        chk.note("%s: self-wiping types W=%s" % (name, sorted(W)))
        for p in sorted(S):
            a = F.adts[p]
            where = "%s:%s" % (a["span"]["file"], a["span"]["line"])
            d = zz.impl_fn(F, p, zz.DROP_TRAIT, "drop")
            z = zz.impl_fn(F, p, zz.ZEROIZE_TRAIT, "zeroize")
            fs = zz.fields_of(F, p)
            chk.count("fields_examined", len(fs))
            if p in leaves:
                chk.ob("Z2.leaf-holder-has-wiping-drop", p + tag, d is not None,
                       "%s embeds the zeroizing wrapper but has no Drop impl: its secret bytes are not wiped when it goes out of scope" % p, where=where)
            if d:
                cov = zz.coverage(F, d, p)
                for f in fs:
                    ok = f["name"] in cov or not zz.type_owns_storage(F, f["ty"], W - {p})
                    chk.ob("Z3.drop-covers-field", "%s.%s%s" % (p, f["name"], tag), ok,
                           "Drop for %s does not wipe field `%s: %s` (attrs %s), which owns byte storage" % (p, f["name"], f["ty"]["s"], f["attrs"]), where=where)
            if z:
                cov = zz.coverage(F, z, p)
                for f in fs:
                    ok = f["name"] in cov or not zz.type_owns_storage(F, f["ty"], ())
                    chk.ob("Z3.zeroize-covers-field", "%s.%s%s" % (p, f["name"], tag), ok,
                           "Zeroize for %s skips field `%s: %s` (attrs %s), which owns byte storage" % (p, f["name"], f["ty"]["s"], f["attrs"]), where=where)
        # every type in S must end up wiped on drop: self-wiping, or a container (no Drop impl of its
        # own, not a leaf holder) all of whose secret-bearing constituents are wiped on drop by glue
        def wiped(q, depth=0):
            if q in W:
                return True
            if q in leaves or depth > 8 or zz.impl_fn(F, q, zz.DROP_TRAIT, "drop"):
                return False
            return all(wiped(r, depth + 1) for f in zz.fields_of(F, q) for r in (F.local_adts_in_type(f["ty"]) & S))

        for p in sorted(S):
            chk.ob("Z3.secret-type-wiped-on-drop", p + tag, wiped(p),
                   "%s is secret-bearing but neither wipes itself on drop nor consists only of self-wiping parts" % p,
                   where="%s:%s" % (F.adts[p]["span"]["file"], F.adts[p]["span"]["line"]))

        # Z4 wrapper soundness
        for w in wr:
            custom = zz.impl_fn(F, w, zz.ZEROIZE_TRAIT, "zeroize")
            chk.ob("Z4.wrapper-uses-volatile-blanket-impl", w + tag, custom is None,
                   "%s has its own Zeroize impl (%s); the reviewed argument relies on zeroize's volatile DefaultIsZeroes impl" % (w, custom))
            dflt = zz.impl_fn(F, w, "core::default::Default", "default")
            ok = False
            detail = "no Default impl"
            if dflt:
                f = F.fn(dflt)
                rep = [s for _, _, s in f.iter_stmts() if s["k"] == "assign" and s["rv"]["k"] == "repeat"]
                froms = [t for _, t in f.calls() if (core.callee_path(t) or "").endswith("::from") and "From" in (core.callee_of(t) or {}).get("s", "")]
                shrink = [core.callee_path(t) for _, t in f.calls() if core.strip_generics(core.callee_path(t) or "") in
                          ("tinyvec::arrayvec::ArrayVec::new", "tinyvec::arrayvec::ArrayVec::from_array_len",
                           "tinyvec::arrayvec::ArrayVec::from_array_empty", "tinyvec::arrayvec::ArrayVec::set_len",
                           "tinyvec::arrayvec::ArrayVec::truncate", "tinyvec::arrayvec::ArrayVec::clear")]
                full = False
                for s in rep:
                    # full capacity: repeat count is the wrapper's const generic (symbolic) and the array feeds From<[T;N]>
                    rl = s["place"]["local"]
                    for t in froms:
                        if t["args"] and core.op_local(t["args"][0]) == rl:
                            full = True
                ok = full and not shrink
                detail = "repeat=%d from=%d shrinking calls=%s" % (len(rep), len(froms), shrink)
            chk.ob("Z4.wrapper-default-is-full-capacity", w + tag, ok,
                   "Default for %s is not visibly `ArrayVec::from([T::default(); N])` (%s): a shorter default value would not overwrite the whole backing array" % (w, detail))
        # in leaf holders, the zeroize call on the wrapper field must resolve into the zeroize crate
        for p in sorted(leaves):
            for tr, m in ((zz.ZEROIZE_TRAIT, "zeroize"), (zz.DROP_TRAIT, "drop")):
                fp = zz.impl_fn(F, p, tr, m)
                if not fp:
                    continue
                f = F.fn(fp)
                for b, t in f.calls():
                    c = core.callee_of(t)
                    if c and any(w in c.get("s", "") for w in wr) and ("zeroize" in c["path"]):
                        r = c.get("resolved")
                        ok = bool(r) and r["crate"] == "zeroize"
                        chk.ob("Z4.wrapper-wipe-resolves-to-zeroize-crate", "%s::%s%s" % (p, m, tag), ok,
                               "wipe of the wrapper field in %s resolves to %s" % (fp, r and r["s"]), where=f.loc(b))

        # Z5
        n, hits = suppression_rules(chk, F, sorted(S | set(wr)), tag, not_copy=sorted(S))
        chk.count("suppression_sites_examined", n)
        chk.obligations.append(("Z5.no-drop-suppression", name, hits == 0))

        # Z7
        raw_copy_rules(chk, F, set(S) | set(wr), tag)

        # Z6 explicit wipe covers every storage-owning field of the key struct
        key_adt, wipe_fn = find_wipe(F, A, S)
        cov = zz.coverage(F, wipe_fn, key_adt)
        for f in zz.fields_of(F, key_adt):
            chk.ob("Z6.wipe-overwrites-field", "%s.%s%s" % (key_adt, f["name"], tag), f["name"] in cov,
                   "explicit wipe %s leaves field `%s` of the exhausted key untouched" % (wipe_fn, f["name"]), where=F.fn(wipe_fn).loc())

        chk.note("observations (not violations): transient serialised key bytes handed to the callback; SigningKey::bytes; Node copies during signing; Seed derives Debug")

    # canary
    fx = os.path.join(extract.VERIF, "fixtures", "canary")
    Fc = core.Facts(extract.load("canary", {"features": [], "env": {}}, repo=fx, crate="canary"), "canary")
    class Probe:
        def __init__(self):
            self.failed = []

        def ob(self, rule, inst, ok, detail="", where=None, key=None, sample=False):
            if not ok:
                self.failed.append(rule)

    pr = Probe()
    suppression_rules(pr, Fc, ["Secret"], "[canary]")
    chk.ob("canary.Z5", "fixtures/canary", {"Z5.no-suppressor-field", "Z5.no-forget"} <= set(pr.failed),
           "drop-suppression rules did not fire on the canary fixture: %s" % pr.failed)
    chk.floor("secret_types", 5)
    chk.floor("leaf_holders", 2)
    chk.floor("fields_examined", 14)


def raw_secret(F, f, operand, secret, depth=0, seen=None):
    """Do the *raw bytes* of this operand come from a value of a secret type - through moves, borrows, views, slicing and
    copies into byte buffers only (hashing or any other computation ends the chain)?  Returns a description or None."""
    seen = seen if seen is not None else set()
    p = core.op_place(operand)
    if p is None or depth > 14:
        return None
    l = p["local"]
    if (f.path, l, len(p["proj"])) in seen:
        return None
    seen.add((f.path, l, len(p["proj"])))

    def ty_secret(ty):
        t = ty
        while t.get("k") == "ref":
            t = t["ty"]
        return t.get("k") == "adt" and t.get("path") in secret

    def field_secret(base_ty, proj):
        """A field of a secret struct carries secret bytes iff the field's own type is secret (wrapper / seed ...); identifiers and
        parameters stored next to the secret (`#[zeroize(skip)]`) are public."""
        t = base_ty
        while t.get("k") == "ref":
            t = t["ty"]
        flds = [e for e in proj if e["k"] == "field"]
        if not flds:
            return True
        a = F.adts.get(t.get("path"))
        if not a:
            return True
        for fl in zz.fields_of(F, t["path"]):
            if fl["name"] == flds[0].get("name"):
                ft = fl["ty"]
                return ft.get("k") == "adt" and ft.get("path") in secret
        return True

    if ty_secret(f.locals[l]["ty"]):
        if field_secret(f.locals[l]["ty"], p["proj"]):
            return "%s: value of secret type %s" % (f.path, f.locals[l]["ty"]["s"])
        return None
    ds = [d for d in f.defs_of(l) if not f.blocks[d[0]]["cleanup"]]
    whole = [d for d in ds if (d[1] == "term" and not d[2]["dest"]["proj"]) or (d[1] != "term" and not d[2]["place"]["proj"])]
    # a byte buffer: anything copied into it
    s_ty = f.locals[l]["ty"]["s"]
    if s_ty.startswith("[u8;") or s_ty.startswith("tinyvec::arrayvec::ArrayVec<[u8;"):
        for b, t in f.calls():
            if f.blocks[b]["cleanup"]:
                continue
            last = core.strip_generics(core.callee_path(t) or "").rsplit("::", 1)[-1]
            if last in ("copy_from_slice", "clone_from_slice", "extend_from_slice", "push") and len(t["args"]) == 2 and flow.resolve_owner(f, t["args"][0], want_mut=True) == l:
                r = raw_secret(F, f, t["args"][1], secret, depth + 1, seen)
                if r:
                    return r
    for b, i, d in whole:
        if i == "term":
            last = core.strip_generics(core.callee_path(d) or "").rsplit("::", 1)[-1]
            tps = F.call_targets(f, d)
            dty = f.locals[l]["ty"]
            is_view = last in ("deref", "deref_mut", "as_slice", "as_mut_slice", "as_ref", "as_mut", "borrow", "clone", "index", "index_mut", "get", "get_mut", "iter", "into", "from", "to_owned", "try_into", "try_from", "unwrap", "expect")
            local_view = bool(tps) and tps[0] in F.fns and dty.get("k") == "ref" and len(d["args"]) >= 1
            if local_view and tps and tps[0] in F.fns:
                from . import expr as _expr
                gf_ = _expr.trivial_getter(F.fns[tps[0]])
                a0 = core.op_place(d["args"][0])
                if gf_ is not None and a0 is not None:
                    bt = f.locals[a0["local"]]["ty"]
                    if ty_secret(bt) and not field_secret(bt, [{"k": "field", "name": gf_}]):
                        continue  # getter of a public field of a secret struct
            if (is_view or local_view) and d["args"]:
                r = raw_secret(F, f, d["args"][0], secret, depth + 1, seen)
                if r:
                    return r
        elif d["k"] == "assign":
            rv = d["rv"]
            if rv["k"] in ("use", "cast"):
                r = raw_secret(F, f, rv["op"], secret, depth + 1, seen)
                if r:
                    return r
            elif rv["k"] in ("ref", "rawptr"):
                pl = rv["place"]
                base_ty = f.locals[pl["local"]]["ty"]
                if ty_secret(base_ty):
                    if field_secret(base_ty, pl["proj"]):
                        return "%s: field of secret type %s" % (f.path, base_ty["s"])
                    continue
                r = raw_secret(F, f, {"k": "copy", "place": {"local": pl["local"], "proj": [], "ty": ""}}, secret, depth + 1, seen)
                if r:
                    return r
            elif rv["k"] == "aggregate" and rv.get("agg") in ("array", "tuple"):
                for o in rv["ops"]:
                    r = raw_secret(F, f, o, secret, depth + 1, seen)
                    if r:
                        return r
    return None


def raw_copy_rules(chk, F, secret, tag):
    """Z7: the raw bytes of a secret value are never stored in a field of a struct that does not wipe itself (locals that
    hold such bytes transiently are observations; a struct field outlives the statement that filled it)."""
    def storage(ty):
        s = ty.get("s", "")
        return s.startswith("[u8;") or s.startswith("tinyvec::arrayvec::ArrayVec<[u8;")
    plain = {}
    for p, a in F.adts.items():
        if p in secret or a["span"].get("exp"):
            continue
        flds = [fl["name"] for fl in zz.fields_of(F, p) if storage(fl["ty"])]
        if flds:
            plain[p] = flds
    n = 0
    for fp, f in sorted(F.fns.items()):
        if f.span.get("exp"):
            continue
        for b, i, s in f.iter_stmts():
            if s["k"] != "assign" or f.blocks[b]["cleanup"]:
                continue
            rv = s["rv"]
            if rv["k"] == "aggregate" and rv.get("agg") == "adt" and rv.get("path") in plain:
                for fname, o in zip(rv["fields"], rv["ops"]):
                    if fname in plain[rv["path"]]:
                        n += 1
                        why = raw_secret(F, f, o, secret)
                        chk.ob("Z7.no-raw-secret-bytes-in-a-non-wiping-struct", "%s.%s<-%s%s" % (rv["path"], fname, f.key, tag), why is None,
                               "%s builds a %s whose field `%s` holds a raw copy of secret bytes (%s); %s does not wipe itself on drop, so the bytes outlive the value"
                               % (fp, rv["path"], fname, why, rv["path"]), where=f.loc(b))
        for b, t in f.calls():
            if f.blocks[b]["cleanup"]:
                continue
            last = core.strip_generics(core.callee_path(t) or "").rsplit("::", 1)[-1]
            if last not in ("copy_from_slice", "clone_from_slice", "extend_from_slice", "push") or len(t["args"]) != 2:
                continue
            op = flow.resolve_owner_path(f, t["args"][0], want_mut=True)
            if op is None or not op[1]:
                continue
            base_ty = f.locals[op[0]]["ty"]
            while base_ty.get("k") == "ref":
                base_ty = base_ty["ty"]
            if base_ty.get("k") == "adt" and base_ty.get("path") in plain and op[1][-1] in plain[base_ty["path"]]:
                n += 1
                why = raw_secret(F, f, t["args"][1], secret)
                chk.ob("Z7.no-raw-secret-bytes-in-a-non-wiping-struct", "%s.%s<-%s%s" % (base_ty["path"], op[1][-1], f.key, tag), why is None,
                       "%s copies raw secret bytes (%s) into field `%s` of %s, which does not wipe itself on drop" % (fp, why, op[1][-1], base_ty["path"]), where=f.loc(b))
    chk.count("plain_byte_struct_writes_examined", n)


def find_wipe(F, A, S):
    """Key struct = the S-type returned (in a Result) by the byte parser the signing core calls first
    on the private-key bytes; wipe = the `&mut self -> ()` inherent method of that type, reachable
    from the signing entry point, that overwrites the most fields by assignment."""
    sign = A.fn("sign")
    tree = F.reachable([sign])
    key_adt = None
    for p in tree:
        f = F.fns[p]
        out = f.j.get("output")
        ins = f.j.get("inputs", [])
        if out and out["k"] == "adt" and out["path"] == "core::result::Result" and len(ins) == 1 and core.is_u8_slice_ref(ins[0]):
            inner = out["args"][0]
            if inner["k"] == "adt" and inner["path"] in S:
                key_adt = inner["path"]
    if key_adt is None:
        raise core.AnchorLost("private-key byte parser (fn(&[u8]) -> Result<secret type, _>) not reachable from sign")
    best = None
    for p in tree:
        f = F.fns[p]
        im = f.j.get("impl")
        if not im or im.get("trait") or im["self_ty"].get("path") != key_adt:
            continue
        ins = f.j.get("inputs", [])
        if len(ins) != 1 or not ins[0]["s"].startswith("&mut "):
            continue
        if f.j["output"]["s"] != "()":
            continue
        # count direct assignments to self fields
        n = 0
        for b, i, s in f.iter_stmts():
            if s["k"] == "assign" and len(s["place"]["proj"]) == 2 and s["place"]["proj"][1]["k"] == "field" and s["place"]["local"] == 1 and not f.blocks[b]["cleanup"]:
                n += 1
        if n and (best is None or n > best[0]):
            best = (n, p)
    if best is None:
        raise core.AnchorLost("no wipe routine (&mut self -> () assigning fields) on %s reachable from sign" % key_adt)
    return key_adt, best[1]
