"""C11 - key generation, signing and lifetime queries reject malformed inputs instead of crashing.

Same PF engine as C06 from the entry points keygen / sign / SigningKey::{from_bytes, get_lifetime,
try_sign_with_aux} / SignerMut::try_sign with parameter-list length, private-key bytes and aux bytes unknown;
plus: the update callback is unreachable on error paths (C04-R4 re-checked here) and the one recursion
(tree element computation) is bounded by a guarded doubling of the node index."""
from . import c04, core, flow, pf
from .api import Api

LEVEL = "proof"
TECHNIQUE = "abstract interpretation (intervals + lengths + variant facts, partitioned by parameter row) over MIR; budget idioms; reviewed obligations with MIR-checked dependencies; CFG loop/recursion analysis; dominance for callback reachability"


def run(chk, ctx):
    chk.explanation = (
        "All panic-capable sites reachable from keygen / sign / get_lifetime / SigningKey constructors are enumerated from the MIR and each is "
        "discharged (interval analysis per parameter-row partition, capacity and accumulator budgets, reviewed obligations whose dependencies are "
        "re-checked on every run); loops have finite drivers; the tree recursion is bounded; failure edges of every fallible step cannot reach the callback.")
    chk.not_decided = "totality of callee crates' internals (by summary); HssParameter::new with the `Reserved` variants (constructing parameters is not part of the property)"
    chk.trusted_base = ["rustc MIR construction (overflow checks on)", "rules/summaries.py", "rules/obligations.py (reviewed entries tied to MIR-checked dependencies)", "64-bit usize"]
    chk.assumptions = ["hash compression functions are total", "usize = u64"]
    configs = ["default"] if ctx.tier == "quick" else ["default", "std", "verbose", "fast_verify"]
    for name in configs:
        F = ctx.facts(name)
        A = Api(F)
        chk.configs.append(name)
        tag = "" if name == "default" else "[%s]" % name
        # sign_mut (fast-verify builds) is C15's entry point; here the immutable-message entries in every build
        entries = A.entries_keygen() + A.entries_sign_plain() + A.entries_lifetime() + A.entries_key_constructors()
        pf.run(chk, F, A, entries, "sign:" + name, allow_recursion=("lms::helper::get_tree_element",), tag=tag)
        # callback unreachable on error paths: every Result-returning step before the callback has its failure edge cut off
        tree, sites = c04.find_core(F, A.entries_sign())
        chk.ob("R4.single-callback-site", name, len(sites) == 1, "callback call sites: %s" % sites)
        if len(sites) == 1:
            f = F.fns[sites[0][0]]
            cb = sites[0][1]
            n = 0
            for b, t in f.calls():
                if b == cb or f.blocks[b]["cleanup"] or t["dest"]["proj"]:
                    continue
                dty = f.locals[t["dest"]["local"]]["ty"]
                dp = flow.decl_path(t)
                if not c04.is_result_ty(dty) or dp in flow.RESULT_PRESERVING or dp is None or dp.startswith("core::ops::try_trait::"):
                    continue
                if cb in flow.reach_from(f, b):
                    n += 1
                    cs = flow.result_checks(f, t["dest"]["local"])
                    leaks = [1 for c in cs for et in c.err_targets if f.blocks[et]["term"]["k"] != "unreachable" and cb in flow.reach_from(f, et)]
                    chk.ob("R4.error-path-cannot-reach-callback", "%s<-%s%s" % (f.key, core.strip_generics(core.callee_path(t) or "?"), tag), bool(cs) and not leaks,
                           "a failure of %s can still reach the update callback" % core.callee_path(t), where=f.loc(b))
            chk.count("fallible_steps_before_callback", n)
    chk.floor("panic_sites", 170)
    chk.floor("functions_reachable", 150)
    chk.floor("fallible_steps_before_callback", 4)
