"""C04 - a signature is released only after the advanced key was handed over and accepted.

Path property over the MIR control-flow graph of the signing core (the unique function that
performs the virtual call on the caller's `FnMut` callback) and the call graph above it:
  R1  exactly one static callback call site; not in a loop; the callback is only passed
      downwards as a direct argument; the core is invoked at most once per entry call
  R2  every ok-capable definition of the return place is dominated by the success edge of a
      visible test of the callback's result; the failure edge reaches only error returns
  R3  the callback's argument is the serialisation of the key *after* its increment, and the
      serialiser reads every field of the key
  R4  every fallible step before the callback has its failure edge cut off from the callback;
      the only fallible step after it cannot fail (capacity argument, else variant analysis), and no panic-capable
      site in the code that runs after the accepted callback is left undischarged (panic-freedom engine)
  R5  the in-memory key's closure writes the new key and reports success
"""
from . import core, flow
from .api import Api
from .core import AnchorLost

LEVEL = "proof"
TECHNIQUE = "must-pass-through / dominance analysis on MIR CFG with result-flow idioms and call-graph multiplicity"

FN_TRAITS = ("core::ops::function::FnMut::call_mut", "core::ops::function::FnOnce::call_once", "core::ops::function::Fn::call")


def is_virtual_fn_call(t):
    c = core.callee_of(t)
    if not c:
        return False
    r = c.get("resolved")
    return bool(r) and r["kind"] == "virtual" and core.strip_generics(c["path"]) in FN_TRAITS


def find_core(F, entries):
    """(core fn, callback call block) - the unique virtual Fn* call reachable from the entries."""
    tree = F.reachable(entries)
    sites = []
    for p in tree:
        f = F.fns[p]
        for b, t in f.calls():
            if is_virtual_fn_call(t):
                sites.append((p, b))
    return tree, sites


def is_result_ty(ty):
    return ty.get("k") == "adt" and ty.get("path") == flow.RESULT


def run_config(chk, ctx, name):
    F = ctx.facts(name)
    A = Api(F)
    chk.configs.append(name)
    tag = "" if name == "default" else "[%s]" % name
    entries = A.entries_sign()
    tree, sites = find_core(F, entries)
    chk.count("entry_points", len(entries))
    chk.count("reachable_functions", len(tree))
    chk.ob("R1.exactly-one-callback-call-site", name, len(sites) == 1,
           "expected exactly one virtual call of the update callback below the signing entry points, found %d: %s"
           % (len(sites), [(p, F.fns[p].loc(b)) for p, b in sites]))
    if len(sites) != 1:
        return
    core_path, cb_bb = sites[0]
    f = F.fns[core_path]
    cbt = f.blocks[cb_bb]["term"]
    where = f.loc(cb_bb)
    chk.note("%s: signing core = %s, callback call at bb%d (%s)" % (name, core_path, cb_bb, where))
    chk.ob("R1.callback-not-in-loop", core.strip_generics(core_path) + tag, not f.in_cycle(cb_bb),
           "the callback call in %s lies on a CFG cycle: it can run more than once per call" % core_path, where=where)

    # the callback parameter of the core
    cb_src = flow.origin(f, cbt["args"][0])
    chk.ob("R1.callback-is-parameter", core.strip_generics(core_path) + tag, cb_src[0] == "arg",
           "the value called is not (a reborrow of) a parameter of the signing core: %s" % (cb_src[:2],), where=where)

    # R1: chain from each entry to the core: each call site on the way is not in a loop and a function has
    # at most one core-reaching call site per path; the callback is only forwarded as a direct argument.
    reaches_core = {core_path}
    changed = True
    while changed:
        changed = False
        for p in tree:
            if p in reaches_core:
                continue
            if any(tp in reaches_core for tp, _, k in F.cg[p] if k == "call"):
                reaches_core.add(p)
                changed = True
    for p in sorted(reaches_core):
        g = F.fns[p]
        blocks = sorted({b for tp, b, k in F.cg[p] if k == "call" and tp in reaches_core})
        if p == core_path:
            blocks = sorted(set(blocks))  # recursion into itself would show up here
        for b in blocks:
            chk.ob("R1.core-call-not-in-loop", "%s%s" % (core.strip_generics(p), tag), not g.in_cycle(b),
                   "%s calls towards the signing core inside a loop: the callback could run more than once" % p, where=g.loc(b))
        for i, b1 in enumerate(blocks):
            for b2 in blocks[i + 1:]:
                seq = b2 in flow.reach_from(g, b1) or b1 in flow.reach_from(g, b2)
                chk.ob("R1.single-core-call-per-path", "%s%s" % (core.strip_generics(p), tag), not seq,
                       "%s has two call sites towards the signing core on one path (bb%d, bb%d)" % (p, b1, b2), where=g.loc(b1))
        chk.count("chain_functions", 1)
    rec = F.recursive_fns(reaches_core)
    chk.ob("R1.no-recursion-above-core", name, not rec, "recursion among functions leading to the callback: %s" % rec)

    # callback forwarding discipline: in every function on the chain, the dyn-FnMut typed parameter is used
    # only by reborrow/coercion and as a direct argument of exactly one call.
    for p in sorted(reaches_core):
        g = F.fns[p]
        cb_params = [i for i in range(1, g.arg_count + 1) if "dyn" in g.locals[i]["ty"]["s"] and "FnMut" in g.locals[i]["ty"]["s"]]
        for cp in cb_params:
            ok, why = forwarded_once(g, cp)
            chk.ob("R1.callback-forwarded-by-direct-argument-once", "%s%s" % (core.strip_generics(p), tag), ok,
                   "in %s the callback parameter %s" % (p, why), where=g.loc())

    # R2: classify definitions of the return place
    cb_dest = cbt["dest"]
    res_local = cb_dest["local"]
    checks = flow.result_checks(f, res_local)
    chk.ob("R2.callback-result-visibly-checked", core.strip_generics(core_path) + tag, len(checks) >= 1,
           "the callback's result is not visibly tested (no `?`, match, if-let, is_ok/is_err reaches a branch): it is ignored", where=where)
    if not checks:
        return
    defs0 = ret_defs(f)
    ok_defs = [d for d in defs0 if not d[2]]
    err_defs = [d for d in defs0 if d[2]]
    chk.count("return_place_definitions", len(defs0))
    chk.note("%s: return-place definitions: %d ok-capable %s, %d error-only" % (name, len(ok_defs), [d[0] for d in ok_defs], len(err_defs)))
    chk.ob("R2.has-ok-exit", core.strip_generics(core_path) + tag, len(ok_defs) >= 1, "the signing core has no ok-capable return definition")
    for (b, desc, _e) in ok_defs:
        dominated = any(
            any(flow.edge_dominates(f, c.block, t, b) or (t == b and len(f.pred[b]) == 1) for t in c.ok_targets)
            for c in checks
        )
        chk.ob("R2.release-dominated-by-callback-success", "%s@%s%s" % (core.strip_generics(core_path), desc, tag), dominated,
               "a signature can be returned (return place defined by %s at bb%d) on a path that did not pass the success edge of the callback test"
               % (desc, b), where=f.loc(b))
        # also: the callback call itself dominates the release
        chk.ob("R2.release-dominated-by-callback-call", "%s@%s%s" % (core.strip_generics(core_path), desc, tag), f.dominates(cb_bb, b),
               "return place defined by %s at bb%d is reachable without calling the callback" % (desc, b), where=f.loc(b))
    for c in checks:
        for t in c.err_targets:
            if f.blocks[t]["term"]["k"] == "unreachable":
                continue
            r = flow.reach_from(f, t)
            leaked = [b for (b, desc, _e) in ok_defs if b in r]
            chk.ob("R2.failure-edge-reaches-only-error-returns", "%s@bb-err%s" % (core.strip_generics(core_path), tag), not leaked,
                   "after the callback reported failure (edge bb%d->bb%d) an ok-capable return definition is still reachable: %s" % (c.block, t, leaked),
                   where=f.loc(c.block))

    # R3: argument provenance
    arg = cbt["args"][1] if len(cbt["args"]) > 1 else None
    org = flow.origin(f, arg) if arg else ("none",)
    ser_ok = False
    detail = "callback argument originates from %s" % (org[:2],)
    if org[0] == "call":
        ser_b, ser_t = org[1], org[2]
        ser_path = core.callee_path(ser_t)
        targets = F.call_targets(f, ser_t)
        # receiver of the serialiser: the key local
        recv = flow.origin(f, ser_t["args"][0]) if ser_t["args"] else ("none",)
        key_local = recv[1] if recv[0] == "local" else None
        if key_local is None and ser_t["args"]:
            # `&_6` : origin() turns a ref of a multi-def local into ("local", l); single-def moves are followed
            pl = core.op_place(ser_t["args"][0])
            key_local = pl["local"] if pl else None
        key_local = resolve_owner(f, ser_t["args"][0]) if ser_t["args"] else None
        # the increment: a call taking `&mut key_local` whose block dominates the serialiser and is after signing
        incs = []
        for b, t in f.calls():
            if b == ser_b or not t["args"]:
                continue
            if resolve_owner(f, t["args"][0], want_mut=True) == key_local and f.dominates(b, ser_b):
                tp = F.call_targets(f, t)
                if tp:
                    incs.append((b, t, tp[0]))
        detail = "serialiser %s on key local _%s; advancing calls before it: %s" % (ser_path, key_local, [i[2] for i in incs])
        ser_ok = key_local is not None and len(incs) >= 1 and bool(targets)
        chk.ob("R3.callback-gets-serialised-advanced-key", core.strip_generics(core_path) + tag, ser_ok,
               "the callback must receive the serialisation of the private key after it was advanced; " + detail, where=where)
        if ser_ok:
            # no redefinition of the key local between the increment and the callback
            inc_b = max(i[0] for i in incs)
            chk.ob("R3.increment-dominates-callback", core.strip_generics(core_path) + tag, f.dominates(inc_b, cb_bb),
                   "the key-advancing call does not dominate the callback call", where=f.loc(inc_b))
            # serialiser reads every field of the key struct
            sf = F.fns[targets[0]]
            key_adt = self_adt(sf)
            if key_adt and key_adt in F.adts:
                read = set()
                for b, blk in enumerate(sf.blocks):
                    for s in blk["stmts"]:
                        if s["k"] == "assign":
                            collect_self_fields(s["rv"], read)
                names = [fl["name"] for v in F.adts[key_adt]["variants"] for fl in v["fields"]]
                for n in names:
                    chk.ob("R3.serialiser-reads-field", "%s.%s%s" % (key_adt, n, tag), n in read,
                           "the key serialiser %s never reads field `%s`: the callback would not receive the complete key" % (sf.path, n), where=sf.loc())
            chk.note("%s: key local _%s, increment %s, serialiser %s" % (name, key_local, incs[-1][2], targets[0]))
    else:
        chk.ob("R3.callback-gets-serialised-advanced-key", core.strip_generics(core_path) + tag, False,
               "the callback argument is not the result of a serialiser call on the advanced key: " + detail, where=where)

    # R4: fallible steps
    pre, post = [], []
    for b, t in f.calls():
        if b == cb_bb or f.blocks[b]["cleanup"]:
            continue
        if t["dest"]["proj"]:
            continue
        dty = f.locals[t["dest"]["local"]]["ty"]
        dp = flow.decl_path(t)
        if not is_result_ty(dty) or dp in flow.RESULT_PRESERVING or dp is None:
            continue
        if dp.startswith("core::ops::try_trait::"):
            continue
        if cb_bb in flow.reach_from(f, b):
            pre.append((b, t))
        elif b in flow.reach_from(f, cb_bb):
            post.append((b, t))
    chk.count("fallible_steps_before_callback", len(pre))
    chk.count("fallible_steps_after_callback", len(post))
    for b, t in pre:
        cs = flow.result_checks(f, t["dest"]["local"])
        name_ = core.strip_generics(core.callee_path(t) or "?")
        ok = bool(cs)
        leaks = []
        for c in cs:
            for et in c.err_targets:
                if f.blocks[et]["term"]["k"] == "unreachable":
                    continue
                if cb_bb in flow.reach_from(f, et):
                    leaks.append((c.block, et))
        chk.ob("R4.failure-cannot-reach-callback", "%s<-%s%s" % (core.strip_generics(core_path), name_, tag), ok and not leaks,
               "fallible step %s before the callback: %s" % (name_, "result is never tested" if not ok else "its failure edge %s still reaches the callback call" % leaks),
               where=f.loc(b))
    for b, t in post:
        name_ = core.strip_generics(core.callee_path(t) or "?")
        ok, why = infallible_capacity_copy(F, f, b, t)
        if not ok:
            # the structural capacity argument does not apply: fall back to the variant analysis of the callee in context
            ok2, why2 = ia_proves_ok(F, A, f, b)
            ok, why = ok2, "%s; %s" % (why, why2)
        chk.ob("R4.no-failure-after-callback", "%s->%s%s" % (core.strip_generics(core_path), name_, tag), ok,
               "fallible step %s runs after the callback accepted the new key; a failure there loses the signature of a consumed leaf: %s" % (name_, why),
               where=f.loc(b))

    # R4b: nothing after the accepted callback can panic either - every panic-capable site in the core's own tail and in the
    # functions called after the callback is discharged by the panic-freedom engine (entry points: the signing entries, so the
    # analysis context is the real one; reported sites: only the post-callback code)
    from . import pf
    after_blocks = flow.reach_from(f, cb_bb) - {cb_bb}
    post_callees = set()
    for b in after_blocks:
        t = f.blocks[b]["term"]
        if t["k"] == "call" and not f.blocks[b]["cleanup"]:
            for tp in F.call_targets(f, t):
                post_callees.add(tp)
    post_tree = set(F.reachable(sorted(post_callees))) if post_callees else set()
    chk.count("functions_after_callback", len(post_tree))
    sites, an_ = pf.run(chk, F, A, A.entries_sign(), "after-callback:" + name, allow_recursion=("lms::helper::get_tree_element",), tag=tag, only_fns=post_tree,
                        only_sites=lambda s: True)
    # the core's own tail (overflow checks etc. after the callback block)
    tail = pf.sites_in_blocks(F, an_, f, after_blocks)
    for s in tail:
        chk.ob("R4.no-panic-after-callback", "%s%s" % (s.key, tag), s.status is not None,
               "panic-capable site after the accepted callback in %s: %s (%s): a consumed leaf would be lost without a signature" % (f.path, s.desc, s.detail), where=s.where())

    in_memory_key_rules(chk, F, A, tag, "R5")


def in_memory_key_rules(chk, F, A, tag, prefix):
    """The in-memory signing key's update closure must copy its *whole* argument into the key bytes
    and report success (shared by C04-R5 and C09-E4: reloaded key == kept key)."""
    for m in A.method("SigningKey", "try_sign_with_aux"):
        g = F.fns[m]
        cls = [c for c in F._closures.get(m, [])]
        chk.ob(prefix + ".one-closure", core.strip_generics(m) + tag, len(cls) == 1, "expected exactly one closure (the key update) in %s, found %s" % (m, cls))
        for cp in cls:
            cf = F.fns[cp]
            rds = ret_defs(cf)
            all_ok = all((not e) and d.startswith("Ok") for _, d, e in rds) and rds
            writes = []
            for b, t in cf.calls():
                dp = flow.decl_path(t)
                if dp and dp.endswith("copy_from_slice") and len(t["args"]) == 2:
                    src = flow.origin(cf, t["args"][1])
                    dst = flow.origin(cf, t["args"][0])
                    if src[0] == "arg" and src[1] == 2 and dst[0] == "field":
                        writes.append((b, dst[2]))
                    elif src[0] == "arg" and src[1] == 2 and dst[0] == "call":
                        # the key's own `as_mut_slice()`-style accessor on the captured key: a local method of the key type
                        # returning `&mut [u8]` whose receiver is the captured value
                        tps = F.call_targets(cf, dst[2])
                        sk = A.type_path("SigningKey")
                        if len(tps) == 1 and tps[0] in F.fns:
                            acc = F.fns[tps[0]]
                            ins = acc.j.get("inputs", [])
                            recv_ok = len(ins) == 1 and ins[0].get("k") == "ref" and ins[0].get("mut") and ins[0]["ty"].get("path") == sk
                            out_ok = acc.j.get("output", {}).get("s", "").replace("'_ ", "") in ("&mut [u8]",) or core.is_mut_u8_slice(acc.j.get("output", {})) if hasattr(core, "is_mut_u8_slice") else acc.j.get("output", {}).get("s", "").endswith("mut [u8]")
                            rorg = flow.origin(cf, dst[2]["args"][0]) if dst[2]["args"] else ("?",)
                            if recv_ok and out_ok and rorg[0] == "field":
                                writes.append((b, "via " + acc.path))
            chk.ob(prefix + ".closure-writes-key-from-argument", core.strip_generics(cp) + tag, len(writes) >= 1,
                   "the in-memory key's update closure does not copy its argument into the key bytes", where=cf.loc())
            if writes:
                rb = cf.return_blocks()
                chk.ob(prefix + ".write-precedes-ok", core.strip_generics(cp) + tag, all(cf.dominates(writes[0][0], r) for r in rb),
                       "the closure can report success without having written the key", where=cf.loc())
            chk.ob(prefix + ".closure-reports-success", core.strip_generics(cp) + tag, bool(all_ok),
                   "the update closure has a non-Ok return: %s" % rds, where=cf.loc())


def forwarded_once(g, cp):
    """The callback parameter may be: reborrowed (&mut *p), unsize-cast, moved; and must end as an
    argument of exactly one call (or the receiver of the virtual call)."""
    work = [cp]
    seen = set()
    sinks = []
    while work:
        l = work.pop()
        if l in seen:
            continue
        seen.add(l)
        for b, i, kind, item in flow.uses_of_local(g, l):
            if g.blocks[b]["cleanup"]:
                continue
            if kind == "stmt":
                rv = item["rv"]
                if item["place"]["proj"]:
                    return False, "is stored into a place (%s)" % item["place"]["ty"]
                if rv["k"] in ("use", "cast", "ref", "rawptr"):
                    work.append(item["place"]["local"])
                elif rv["k"] == "aggregate":
                    return False, "is captured in an aggregate / closure (%s)" % rv.get("agg")
                else:
                    return False, "is used in an unexpected rvalue %s" % rv["k"]
            elif kind == "call":
                sinks.append((b, item))
            elif kind == "drop":
                pass
            else:
                return False, "is used by a %s terminator" % kind
    if len(sinks) != 1:
        return False, "is passed to %d calls (expected exactly one)" % len(sinks)
    return True, ""


def ret_defs(f):
    """Definitions of the return place: list of (bb, description, error_only)."""
    out = []
    for b, blk in enumerate(f.blocks):
        if blk["cleanup"]:
            continue
        for s in blk["stmts"]:
            if s["k"] == "assign" and s["place"]["local"] == 0:
                rv = s["rv"]
                if rv["k"] == "aggregate" and rv.get("agg") == "adt" and rv["path"] in (flow.RESULT, flow.OPTION):
                    err = rv["variant"] in ("Err", "None")
                    out.append((b, "%s{}" % rv["variant"], err))
                else:
                    out.append((b, "assign:%s" % rv["k"], False))
        t = blk["term"]
        if t["k"] == "call" and t["dest"]["local"] == 0:
            dp = flow.decl_path(t) or "?"
            err = dp == "core::ops::try_trait::FromResidual::from_residual"
            out.append((b, "call:%s" % core.strip_generics(core.callee_path(t) or "?"), err))
    return out


resolve_owner = flow.resolve_owner


def self_adt(f):
    im = f.j.get("impl")
    if im and im["self_ty"].get("k") == "adt":
        return im["self_ty"]["path"]
    return None


def collect_self_fields(rv, acc):
    def pl(p):
        if p["local"] == 1:
            for e in p["proj"]:
                if e["k"] == "field":
                    acc.add(e.get("name"))
                    break
    k = rv["k"]
    if k in ("use", "cast", "repeat"):
        p = core.op_place(rv["op"])
        if p:
            pl(p)
    elif k in ("ref", "rawptr", "discr"):
        pl(rv["place"])
    elif k == "aggregate":
        for o in rv["ops"]:
            p = core.op_place(o)
            if p:
                pl(p)


def arrayvec_capacity(ty):
    """Capacity N of `tinyvec::ArrayVec<[u8; N]>` from a type JSON."""
    if ty.get("k") == "adt" and ty.get("path") == "tinyvec::arrayvec::ArrayVec":
        a = ty["args"][0]
        if a.get("k") == "array":
            return a.get("len")
    return None


def ia_proves_ok(F, A, f, b):
    """Interval / variant analysis from the signing entry points: the Result produced by the local call in block b
    of f is Ok in every analysed context."""
    from . import ia
    an = getattr(F, "_c04_ia", None)
    if an is None:
        an = ia.Analyzer(F)
        for e in A.entries_sign():
            an.call_local(e, [None] * F.fns[e].arg_count)
        F._c04_ia = an
    okv = an.call_ok_obs.get((f.path, b), "none")
    return okv == (1, 1), "IA: Ok-ness of the result in all contexts = %s" % (okv,)


def infallible_capacity_copy(F, f, b, t):
    """The one accepted post-callback fallible step: a local function whose only error source is
    `ArrayVec::<[u8;N]>::try_from(&[u8])`, called with (a view of) an `ArrayVec<[u8;M]>`, M <= N."""
    tps = F.call_targets(f, t)
    if len(tps) != 1:
        return False, "callee is not a unique local function"
    g = F.fns[tps[0]]
    # error sources inside g: Result-typed call destinations other than adaptors
    srcs = []
    for gb, gt in g.calls():
        if g.blocks[gb]["cleanup"] or gt["dest"]["proj"]:
            continue
        dty = g.locals[gt["dest"]["local"]]["ty"]
        dp = flow.decl_path(gt)
        if is_result_ty(dty) and dp not in flow.RESULT_PRESERVING and not (dp or "").startswith("core::ops::try_trait::"):
            srcs.append((gb, gt, dp))
    errs = [d for d in ret_defs(g) if d[2] and not d[1].startswith("call:core::ops::try_trait")]
    explicit_err = [d for d in ret_defs(g) if d[1] == "Err{}"]
    if explicit_err:
        return False, "callee constructs Err explicitly"
    if len(srcs) != 1 or srcs[0][2] != "core::convert::TryFrom::try_from":
        return False, "callee's error sources are %s" % [s[2] for s in srcs]
    gb, gt, _ = srcs[0]
    cap = arrayvec_capacity(g.locals[gt["dest"]["local"]]["ty"]["args"][0])
    src = flow.origin(g, gt["args"][0])
    if src[0] != "arg":
        return False, "try_from source is not a parameter"
    argn = src[1]
    org = flow.origin(f, t["args"][argn - 1])
    if org[0] != "call":
        return False, "argument does not come from a call"
    m = arrayvec_capacity(f.locals[org[2]["dest"]["local"]]["ty"])
    if cap is None or m is None:
        return False, "capacities not evaluated (dest %s, source %s)" % (cap, m)
    return (m <= cap), "source capacity %d vs destination capacity %d" % (m, cap)


def run(chk, ctx):
    chk.explanation = (
        "All paths of the signing core are enumerated on the MIR CFG: every ok-capable definition of the return place must be "
        "dominated by the success edge of the test on the callback's result; the callback call site is unique, loop-free and reached "
        "at most once per entry call; its argument is the serialisation of the key after the increment; failures of earlier steps "
        "cannot reach it and the one later fallible step cannot fail."
    )
    chk.not_decided = "the user's callback body itself; whether the persisted bytes are durable"
    chk.trusted_base = ["rustc MIR construction (drop elaboration, ? desugaring)", "the enumerated result-flow idioms (an unrecognised idiom fails closed)"]
    configs = ["default", "fast_verify"] if ctx.tier == "quick" else ["default", "std", "verbose", "fast_verify", "fast_verify_verbose"]
    for name in configs:
        run_config(chk, ctx, name)
    chk.floor("entry_points", 3)
    chk.floor("fallible_steps_before_callback", 4)
    chk.floor("fallible_steps_after_callback", 1)
    chk.floor("return_place_definitions", 6)
