"""GF: guard facts - MIR-checked predicates of the form "a branch whose condition data-depends
on X (and Y) has a failing edge that reaches only error exits without touching the protected
blocks, and every path to a protected block takes its passing edge".  Guards are located by
data dependence (fields, parameters, callees), never by text or position."""
from . import core, flow
from .c04 import ret_defs


class Guard:
    def __init__(self, block, fail_targets, pass_targets, deps):
        self.block, self.fail_targets, self.pass_targets, self.deps = block, fail_targets, pass_targets, deps


def deps_of_switch(f, t):
    return core.operand_deps(f, t["discr"])


def dep_fields(deps):
    return deps["fields"]


def dep_callees(deps):
    out = set()
    for b, t in deps["calls"]:
        p = core.callee_path(t)
        if p:
            out.add(core.strip_generics(p))
        c = core.callee_of(t)
        if c:
            out.add(core.strip_generics(c["path"]))
    return out


def error_only_from(f, start, protected=()):
    """From block `start`, every return is reached with an error-only definition of the return place
    and no protected block is visited."""
    r = flow.reach_from(f, start)
    if set(protected) & r:
        return False
    defs = ret_defs(f)
    okb = {b for b, d, e in defs if not e}
    if okb & r:
        return False
    # at least one return reachable (or diverges into a panic, which is not an error *exit*)
    return any(f.blocks[b]["term"]["k"] == "return" for b in r)


def find_guards(f, dep_pred, protected, require_error_exit=True):
    """All switches satisfying dep_pred that guard every protected block."""
    res = []
    protected = set(protected)
    for b, t in f.iter_terms():
        if t["k"] != "switch" or f.blocks[b]["cleanup"]:
            continue
        deps = deps_of_switch(f, t)
        if not dep_pred(deps):
            continue
        succs = list(dict.fromkeys(f.succ[b]))
        fail, pas = [], []
        for s in succs:
            if f.blocks[s]["term"]["k"] == "unreachable":
                continue
            if error_only_from(f, s, protected) if require_error_exit else not (flow.reach_from(f, s) & protected):
                fail.append(s)
            else:
                pas.append(s)
        if not fail or not pas:
            continue
        # every path to a protected block must take one of the passing edges of this switch
        ok = True
        for p in protected:
            if not paths_need_edges(f, b, pas, p):
                ok = False
                break
        if ok:
            res.append(Guard(b, fail, pas, deps))
    return res


def paths_need_edges(f, src, dsts, target):
    """Is `target` unreachable from entry once all edges src->d (d in dsts) are removed?"""
    from collections import deque

    if target == 0:
        return False
    seen = {0}
    dq = deque([0])
    while dq:
        b = dq.popleft()
        for s in f.succ[b]:
            if b == src and s in dsts:
                continue
            if s not in seen:
                if s == target:
                    return False
                seen.add(s)
                dq.append(s)
    return True


def blocks_calling(F, f, pred):
    out = []
    for b, t in f.calls():
        if f.blocks[b]["cleanup"]:
            continue
        if pred(t):
            out.append(b)
    return out


def ok_def_blocks(f):
    return [b for b, d, e in ret_defs(f) if not e]
