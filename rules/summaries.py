"""Callee summaries for crates outside the analysed one (`core`, `tinyvec`, ...): integer return
intervals and, for partial (panic-capable) functions, the proof goal under which they do not
panic.  The table of partial functions is also the enumeration used by the PF engine."""
from . import core, flow
from .ia import INT_BITS, SLICE_LEN_MAX, clip, join, meet, ty_range

# partial callees: stripped path -> short class name.  Anything listed here is a panic site.
PARTIAL = {
    "core::option::Option::unwrap": "unwrap",
    "core::option::Option::expect": "unwrap",
    "core::result::Result::unwrap": "unwrap",
    "core::result::Result::expect": "unwrap",
    "core::result::Result::unwrap_err": "unwrap",
    "core::result::Result::expect_err": "unwrap",
    "core::option::Option::unwrap_unchecked": "unwrap",
    "core::slice::index::index": "slice-index",
    "core::slice::index::index_mut": "slice-index",
    "core::array::index": "array-index",
    "core::array::index_mut": "array-index",
    "core::ops::index::Index::index": "index",
    "core::ops::index::IndexMut::index_mut": "index",
    "core::slice::copy_from_slice": "copy-len",
    "core::slice::clone_from_slice": "copy-len",
    "core::slice::split_at": "split",
    "core::slice::split_at_mut": "split",
    "core::slice::swap": "slice-index",
    "core::slice::chunks": "nonzero-arg",
    "core::slice::chunks_exact": "nonzero-arg",
    "core::slice::windows": "nonzero-arg",
    "core::slice::rotate_left": "split",
    "core::slice::rotate_right": "split",
    "core::slice::first_chunk": None,
    "core::iter::traits::iterator::Iterator::step_by": "nonzero-arg",
    "core::iter::traits::iterator::Iterator::sum": "iter-arith",
    "core::iter::traits::iterator::Iterator::product": "iter-arith",
    "core::num::pow": "pow",
    "core::num::abs": "int-arith",
    "core::num::ilog2": "int-arith",
    "core::num::ilog": "int-arith",
    "core::num::ilog10": "int-arith",
    "core::num::next_power_of_two": "int-arith",
    "core::num::div_euclid": "int-arith",
    "core::num::rem_euclid": "int-arith",
    "core::num::div_ceil": "int-arith",
    "core::num::next_multiple_of": "int-arith",
    "core::ops::arith::AddAssign::add_assign": "int-arith",
    "core::ops::arith::SubAssign::sub_assign": "int-arith",
    "core::ops::arith::MulAssign::mul_assign": "int-arith",
    "core::ops::arith::DivAssign::div_assign": "int-arith",
    "core::ops::arith::RemAssign::rem_assign": "int-arith",
    "core::ops::arith::Add::add": "int-arith",
    "core::ops::arith::Sub::sub": "int-arith",
    "core::ops::arith::Mul::mul": "int-arith",
    "core::ops::arith::Div::div": "int-arith",
    "core::ops::arith::Rem::rem": "int-arith",
    "core::ops::bit::Shl::shl": "int-arith",
    "core::ops::bit::Shr::shr": "int-arith",
    "core::ops::bit::ShlAssign::shl_assign": "int-arith",
    "core::ops::bit::ShrAssign::shr_assign": "int-arith",
    "core::ops::arith::Neg::neg": "int-arith",
    "tinyvec::arrayvec::ArrayVec::push": "capacity",
    "tinyvec::arrayvec::ArrayVec::insert": "capacity",
    "tinyvec::arrayvec::ArrayVec::extend_from_slice": "capacity",
    "tinyvec::arrayvec::ArrayVec::from_array_len": "capacity",
    "tinyvec::arrayvec::ArrayVec::set_len": "capacity",
    "tinyvec::arrayvec::ArrayVec::remove": "index",
    "tinyvec::arrayvec::ArrayVec::swap_remove": "index",
    "tinyvec::arrayvec::ArrayVec::split_off": "index",
    "tinyvec::arrayvec::ArrayVec::drain": "index",
    "tinyvec::arrayvec::ArrayVec::splice": "index",
    "tinyvec::arrayvec::ArrayVec::resize": "capacity",
    "tinyvec::arrayvec::ArrayVec::resize_with": "capacity",
    "tinyvec::arrayvec::ArrayVec::fill": "capacity",
    "tinyvec::arrayvec::ArrayVec::append": "capacity",
    "core::iter::traits::collect::Extend::extend": "capacity",
    "core::iter::traits::collect::FromIterator::from_iter": "capacity",
    "core::iter::traits::iterator::Iterator::collect": "capacity",
    "core::panicking::panic": "explicit-panic",
    "core::panicking::panic_fmt": "explicit-panic",
    "core::panicking::panic_explicit": "explicit-panic",
    "core::panicking::assert_failed": "explicit-panic",
    "core::panicking::unreachable_display": "explicit-panic",
    "core::panicking::panic_display": "explicit-panic",
    "core::panicking::panic_nounwind": "explicit-panic",
    "core::panicking::panic_bounds_check": "explicit-panic",
    "std::panicking::begin_panic": "explicit-panic",
    "std::rt::begin_panic": "explicit-panic",
    "core::option::unwrap_failed": "explicit-panic",
    "core::option::expect_failed": "explicit-panic",
    "core::result::unwrap_failed": "explicit-panic",
    "core::cell::RefCell::borrow": "int-arith",
    "core::cell::RefCell::borrow_mut": "int-arith",
    "core::str::from_utf8_unchecked": None,
}


def resolved_decl(c):
    """(declared stripped path, resolved stripped path or None)"""
    decl = core.strip_generics(c["path"])
    r = c.get("resolved")
    res = core.strip_generics(r["path"]) if r and r["kind"] == "item" else None
    return decl, res


def partial_class(c):
    """Class of a partial callee or None if total (per this table)."""
    decl, res = resolved_decl(c)
    for p in (res, decl):
        if p is None:
            continue
        if p in PARTIAL and PARTIAL[p] is not None:
            cls = PARTIAL[p]
            # Index on types other than slices/arrays/ArrayVec is local code (analysed by itself)
            return cls
        # resolved paths of impls look like `<tinyvec::arrayvec::ArrayVec<A> as core::ops::index::Index<I>>::index`
        if p.startswith("<") and " as " in p:
            tr = p[p.index(" as ") + 4:]
            tr = tr.replace(">::", "::", 1) if ">::" in tr else tr
            # normalise `core::ops::index::Index<I>>::index` -> `core::ops::index::Index::index`
            base = tr.split("<")[0]
            meth = p.rsplit("::", 1)[1]
            cand = "%s::%s" % (base, meth)
            if cand in PARTIAL and PARTIAL[cand] is not None:
                return PARTIAL[cand]
    return None


def int_ty_of_arg(c, idx=0):
    a = c.get("args") or []
    if idx < len(a) and isinstance(a[idx], dict):
        return a[idx]
    return None


def arrayvec_cap_from_callee(c):
    """Capacity N when the callee is a method of `ArrayVec<[T; N]>`."""
    for a in (c.get("resolved") or c).get("args", []) or c.get("args", []):
        if isinstance(a, dict) and a.get("k") == "array" and a.get("len") is not None:
            return a["len"]
    return None


def extern_call(an, f, st, t, c, argiv):
    """Returns (ret dict {subpath: interval} or None, goal (proved, desc, detail) or None)."""
    decl, res = resolved_decl(c)
    name = res or decl
    an.extern_seen[name] = an.extern_seen.get(name, 0) + 1
    rng = ty_range({"s": t["dest"]["ty"]})
    ret = None
    goal = None
    last = name.rsplit("::", 1)[-1]
    a0 = argiv[0] if argiv else None
    a1 = argiv[1] if len(argiv) > 1 else None

    if name == "core::num::pow" or (name.startswith("core::num::") and last == "pow"):
        if a0 is not None and a1 is not None and a0[0] >= 0 and a1[1] <= 4096:
            m = (a0[0] ** a1[0], a0[1] ** a1[1])
            ok = rng is not None and m[1] <= rng[1]
            ret = {(): clip(m, rng)}
            goal = (ok, "pow", "base=%s exp=%s result<=%s" % (a0, a1, m[1] if m[1] < 2**130 else ">2^130"))
        else:
            goal = (False, "pow", "base=%s exp=%s" % (a0, a1))
    elif name.startswith("core::num::") and last in ("leading_zeros", "trailing_zeros", "count_ones", "count_zeros", "leading_ones", "trailing_ones"):
        ity = f.locals[core.op_place(t["args"][0])["local"]]["ty"]["s"] if core.op_place(t["args"][0]) else None
        bits = INT_BITS.get(ity, 128)
        ret = {(): (0, bits)}
    elif name.startswith("core::num::") and last in ("from_be_bytes", "from_le_bytes", "from_ne_bytes", "swap_bytes", "to_be", "to_le", "from_be", "from_le", "reverse_bits", "rotate_left", "rotate_right"):
        ret = {(): rng} if rng else {}
    elif name.startswith("core::num::") and last in ("checked_add", "checked_sub", "checked_mul", "checked_shl", "checked_shr", "checked_div", "checked_pow"):
        if a0 is not None and a1 is not None:
            op = {"checked_add": "Add", "checked_sub": "Sub", "checked_mul": "Mul", "checked_shl": "Shl", "checked_shr": "Shr", "checked_div": "Div"}.get(last)
            prng = ty_range(f.locals[core.op_place(t["args"][0])["local"]]["ty"]) if core.op_place(t["args"][0]) else None
            if op:
                m = an.arith(op, a0, a1, prng)
                if m is not None and prng is not None:
                    mm = meet(m, prng)
                    if mm is not None:
                        ret = {("@Some", "0"): mm}
        ret = ret or {}
    elif name.startswith("core::num::") and last in ("saturating_add", "saturating_sub", "saturating_mul", "saturating_pow"):
        if a0 is not None and a1 is not None and rng is not None:
            if last == "saturating_pow" and a1[1] <= 4096 and a0[0] >= 0:
                m = (a0[0] ** a1[0], a0[1] ** a1[1])
            else:
                m = an.arith({"saturating_add": "Add", "saturating_sub": "Sub", "saturating_mul": "Mul"}.get(last, "Add"), a0, a1, rng)
            if m is not None:
                ret = {(): (max(rng[0], min(m[0], rng[1])), max(rng[0], min(m[1], rng[1])))}
        ret = ret or ({(): rng} if rng else {})
    elif name.startswith("core::num::") and last in ("wrapping_add", "wrapping_sub", "wrapping_mul", "wrapping_shl", "wrapping_shr", "wrapping_neg", "wrapping_pow"):
        ret = {(): rng} if rng else {}
    elif name.startswith("core::num::") and last in ("min", "max"):
        if a0 is not None and a1 is not None:
            ret = {(): (min(a0[0], a1[0]), min(a0[1], a1[1])) if last == "min" else (max(a0[0], a1[0]), max(a0[1], a1[1]))}
    elif name in ("core::cmp::min", "core::cmp::Ord::min", "core::cmp::max", "core::cmp::Ord::max") or (last in ("min", "max") and "cmp" in name):
        if a0 is not None and a1 is not None and rng is not None:
            ret = {(): (min(a0[0], a1[0]), min(a0[1], a1[1])) if last == "min" else (max(a0[0], a1[0]), max(a0[1], a1[1]))}
    elif name == "tinyvec::arrayvec::ArrayVec::len":
        n = arrayvec_cap_from_callee(c)
        ret = {(): (0, n if n is not None else SLICE_LEN_MAX)}
    elif name == "tinyvec::arrayvec::ArrayVec::from_array_len":
        n = arrayvec_cap_from_callee(c)
        ok = n is not None and a1 is not None and a1[1] <= n
        goal = (ok, "capacity", "len=%s capacity=%s" % (a1, n))
        ret = {}
    elif name == "tinyvec::arrayvec::ArrayVec::capacity":
        n = arrayvec_cap_from_callee(c)
        ret = {(): (n, n)} if n is not None else {(): (0, SLICE_LEN_MAX)}
    elif name in ("core::slice::len", "core::str::len"):
        ret = {(): (0, SLICE_LEN_MAX)}
    elif name == "core::mem::size_of":
        ta = int_ty_of_arg(c)
        n = size_of(ta)
        ret = {(): (n, n)} if n is not None else {(): (0, SLICE_LEN_MAX)}
    elif last in ("into", "from") and rng is not None and a0 is not None and ("convert" in name):
        ret = {(): clip(a0, rng)}
    elif "iter::range" in name and last == "next" or (last == "next" and ("Rev<" in c.get("s", "") or "StepBy<" in c.get("s", "") or "Skip<" in c.get("s", "")) and "Range" in c.get("s", "")):
        owner = iter_owner(f, t["args"][0])
        item = st.v.get((owner, ("#item",))) if owner is not None else None
        if item is not None:
            ret = {("@Some", "0"): item}
        else:
            ret = {}
    elif last in ("into_iter", "rev", "skip", "step_by", "by_ref", "take", "clone") and t["args"]:
        k = an.op_key(st, t["args"][0])
        item = st.v.get((k[0], k[1] + ("#item",))) if k is not None else None
        if last == "take" and item is not None:
            pass
        ret = {("#item",): item} if item is not None else {}
        if last == "step_by":
            goal = (a1 is not None and a1[0] >= 1, "nonzero-arg", "step=%s" % (a1,))
    elif name == "core::ops::range::RangeInclusive::new":
        if a0 is not None and a1 is not None:
            ret = {("#item",): (a0[0], a1[1])}
    cls = partial_class(c)
    if cls is not None and goal is None:
        goal = (False, cls, "args=%s" % ([a for a in argiv],))
    return ret, goal


def iter_owner(f, operand):
    """Local that `&mut it` (possibly re-borrowed) points to."""
    return flow.resolve_owner(f, operand)


def size_of(ta):
    if ta is None:
        return None
    k = ta.get("k")
    if k == "int":
        return INT_BITS.get(ta["s"], 0) // 8 or None
    if k == "bool":
        return 1
    if k == "array" and ta.get("len") is not None:
        e = size_of(ta["elem"])
        return e * ta["len"] if e is not None else None
    if k == "tuple":
        return None
    return None
