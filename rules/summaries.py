"""Callee summaries for crates outside the analysed one (`core`, `tinyvec`, ...): integer return
intervals and, for partial (panic-capable) functions, the proof goal under which they do not
panic.  The table of partial functions is also the enumeration used by the PF engine."""
import re

from . import core, flow
from .ia import AV_MAX_LEN, INT_BITS, SLICE_LEN_MAX, bits_of, clip, join, meet, ty_range, type_len, type_cap

# partial callees: stripped path -> short class name.  Anything listed here is a panic site.
PARTIAL = {
    "core::option::Option::unwrap": "unwrap",
    "core::option::Option::expect": "unwrap",
    "core::result::Result::unwrap": "unwrap",
    "core::result::Result::expect": "unwrap",
    "core::result::Result::unwrap_err": "unwrap",
    "core::result::Result::expect_err": "unwrap",
    "core::option::Option::unwrap_unchecked": "unwrap",
    "core::slice::index::index": "slice-index",
    "core::slice::index::index_mut": "slice-index",
    "core::array::index": "array-index",
    "core::array::index_mut": "array-index",
    "core::ops::index::Index::index": "index",
    "core::ops::index::IndexMut::index_mut": "index",
    "core::slice::copy_from_slice": "copy-len",
    "core::slice::clone_from_slice": "copy-len",
    "core::slice::split_at": "split",
    "core::slice::split_at_mut": "split",
    "core::slice::swap": "slice-index",
    "core::slice::chunks": "nonzero-arg",
    "core::slice::chunks_exact": "nonzero-arg",
    "core::slice::windows": "nonzero-arg",
    "core::slice::rotate_left": "split",
    "core::slice::rotate_right": "split",
    "core::slice::first_chunk": None,
    "core::iter::traits::iterator::Iterator::step_by": "nonzero-arg",
    "core::iter::traits::iterator::Iterator::sum": "iter-arith",
    "core::iter::traits::iterator::Iterator::product": "iter-arith",
    "core::num::pow": "pow",
    "core::num::abs": "int-arith",
    "core::num::ilog2": "int-arith",
    "core::num::ilog": "int-arith",
    "core::num::ilog10": "int-arith",
    "core::num::next_power_of_two": "int-arith",
    "core::num::div_euclid": "int-arith",
    "core::num::rem_euclid": "int-arith",
    "core::num::div_ceil": "int-arith",
    "core::num::next_multiple_of": "int-arith",
    "core::ops::arith::AddAssign::add_assign": "int-arith",
    "core::ops::arith::SubAssign::sub_assign": "int-arith",
    "core::ops::arith::MulAssign::mul_assign": "int-arith",
    "core::ops::arith::DivAssign::div_assign": "int-arith",
    "core::ops::arith::RemAssign::rem_assign": "int-arith",
    "core::ops::arith::Add::add": "int-arith",
    "core::ops::arith::Sub::sub": "int-arith",
    "core::ops::arith::Mul::mul": "int-arith",
    "core::ops::arith::Div::div": "int-arith",
    "core::ops::arith::Rem::rem": "int-arith",
    "core::ops::bit::Shl::shl": "int-arith",
    "core::ops::bit::Shr::shr": "int-arith",
    "core::ops::bit::ShlAssign::shl_assign": "int-arith",
    "core::ops::bit::ShrAssign::shr_assign": "int-arith",
    "core::ops::arith::Neg::neg": "int-arith",
    "tinyvec::arrayvec::ArrayVec::push": "capacity",
    "tinyvec::arrayvec::ArrayVec::insert": "capacity",
    "tinyvec::arrayvec::ArrayVec::extend_from_slice": "capacity",
    "tinyvec::arrayvec::ArrayVec::from_array_len": "capacity",
    "tinyvec::arrayvec::ArrayVec::set_len": "capacity",
    "tinyvec::arrayvec::ArrayVec::remove": "index",
    "tinyvec::arrayvec::ArrayVec::swap_remove": "index",
    "tinyvec::arrayvec::ArrayVec::split_off": "index",
    "tinyvec::arrayvec::ArrayVec::drain": "index",
    "tinyvec::arrayvec::ArrayVec::splice": "index",
    "tinyvec::arrayvec::ArrayVec::resize": "capacity",
    "tinyvec::arrayvec::ArrayVec::resize_with": "capacity",
    "tinyvec::arrayvec::ArrayVec::fill": "capacity",
    "tinyvec::arrayvec::ArrayVec::append": "capacity",
    "core::iter::traits::collect::Extend::extend": "capacity",
    "core::iter::traits::collect::FromIterator::from_iter": "capacity",
    "core::iter::traits::iterator::Iterator::collect": "capacity",
    "core::panicking::panic": "explicit-panic",
    "core::panicking::panic_fmt": "explicit-panic",
    "core::panicking::panic_explicit": "explicit-panic",
    "core::panicking::assert_failed": "explicit-panic",
    "core::panicking::unreachable_display": "explicit-panic",
    "core::panicking::panic_display": "explicit-panic",
    "core::panicking::panic_nounwind": "explicit-panic",
    "core::panicking::panic_bounds_check": "explicit-panic",
    "std::panicking::begin_panic": "explicit-panic",
    "std::rt::begin_panic": "explicit-panic",
    "core::option::unwrap_failed": "explicit-panic",
    "core::option::expect_failed": "explicit-panic",
    "core::result::unwrap_failed": "explicit-panic",
    "core::cell::RefCell::borrow": "int-arith",
    "core::cell::RefCell::borrow_mut": "int-arith",
    "core::str::from_utf8_unchecked": None,
}


def resolved_decl(c):
    """(declared stripped path, resolved stripped path or None)"""
    decl = core.strip_generics(c["path"])
    r = c.get("resolved")
    res = core.strip_generics(r["path"]) if r and r["kind"] == "item" else None
    return decl, res


def partial_class(c):
    """Class of a partial callee or None if total (per this table)."""
    decl, res = resolved_decl(c)
    if oversized_arrayvec_conversion(c):
        return "capacity"
    for p in (res, decl):
        if p is None:
            continue
        if p in PARTIAL and PARTIAL[p] is not None:
            cls = PARTIAL[p]
            # Index on types other than slices/arrays/ArrayVec is local code (analysed by itself)
            return cls
        # resolved paths of impls look like `<tinyvec::arrayvec::ArrayVec<A> as core::ops::index::Index<I>>::index`
        if p.startswith("<") and " as " in p:
            tr = p[p.index(" as ") + 4:]
            tr = tr.replace(">::", "::", 1) if ">::" in tr else tr
            # normalise `core::ops::index::Index<I>>::index` -> `core::ops::index::Index::index`
            base = tr.split("<")[0]
            meth = p.rsplit("::", 1)[1]
            cand = "%s::%s" % (base, meth)
            if cand in PARTIAL and PARTIAL[cand] is not None:
                return PARTIAL[cand]
    return None


def int_ty_of_arg(c, idx=0):
    a = c.get("args") or []
    if idx < len(a) and isinstance(a[idx], dict):
        return a[idx]
    return None


def arrayvec_cap_from_callee(c, real=False):
    """Usable capacity min(N, 65535) when the callee is a method of `ArrayVec<[T; N]>` (real=True: N itself)."""
    for a in (c.get("resolved") or c).get("args", []) or c.get("args", []):
        if isinstance(a, dict) and a.get("k") == "array" and a.get("len") is not None:
            return a["len"] if real else min(a["len"], AV_MAX_LEN)
    return None


_AV_ANY = re.compile(r"tinyvec::arrayvec::ArrayVec<\[.*?; (\d+)\]>")


def oversized_arrayvec_conversion(c):
    """`ArrayVec<[T; N]>::from([T; N])` / `::try_from(&[T])` with N > 65535: the conversion panics for
    lengths in 65536..=N (tinyvec keeps the length in a u16)."""
    decl, res = resolved_decl(c)
    name = res or decl
    last = name.rsplit("::", 1)[-1]
    if last not in ("from", "try_from", "from_iter", "collect"):
        return False
    txt = " ".join(str(x) for x in (c.get("s", ""), (c.get("resolved") or {}).get("s", ""), (c.get("resolved") or {}).get("impl_self", ""), c.get("self_ty", "")))
    if "tinyvec::arrayvec::ArrayVec" not in txt:
        return False
    return any(int(n) > AV_MAX_LEN for n in _AV_ANY.findall(txt))


def extern_call(an, f, st, t, c, argiv):
    """Returns (ret dict {subpath: interval} or None, goal (proved, desc, detail) or None,
    effects [(owner local, new #len)] or None = havoc every &mut argument)."""
    ret, goal = _extern_call(an, f, st, t, c, argiv)
    r2, g2, eff = _len_model(an, f, st, t, c, argiv)
    if r2 is not None:
        ret = dict(ret or {})
        ret.update(r2)
    if g2 is not None:
        goal = g2
    return ret, goal, eff


def _owner_len(an, st, owner, ty_s):
    v = st.v.get((owner[0], owner[1] + ("#len",)))
    d = type_len(ty_s)
    if v is not None:
        return (meet(v, d) or v) if d is not None else v
    return d


def _bb_of(f, t):
    for b, blk in enumerate(f.blocks):
        if blk["term"] is t:
            return b
    return -1


def _copy_root(f, operand, depth=0):
    """Follow single-definition copies/moves/lossless casts of a scalar temp to its root local."""
    p = core.op_place(operand)
    if p is None or p["proj"] and not (len(p["proj"]) == 1 and p["proj"][0]["k"] == "deref"):
        # `copy (*_3)` : the pointee of parameter/ref _3 - identify by (local, "*")
        return None
    if p["proj"]:
        return ("deref", p["local"])
    l = p["local"]
    if depth > 12:
        return ("local", l)
    ds = [d for d in f.defs_of(l) if not f.blocks[d[0]]["cleanup"]]
    if len(ds) == 1 and ds[0][1] != "term" and ds[0][2]["k"] == "assign":
        rv = ds[0][2]["rv"]
        if rv["k"] == "use":
            r = _copy_root(f, rv["op"], depth + 1)
            if r is not None:
                return r
    return ("local", l)


def _ptr_root(f, op, depth=0):
    """The pointer local a slice operand is a (re)borrow of: `&(*p)` / `&mut (*p)` / copies of it -> p."""
    pl = core.op_place(op)
    if pl is None or depth > 8:
        return None
    if pl["proj"]:
        return pl["local"] if [e["k"] for e in pl["proj"]] == ["deref"] else None
    dd = [d for d in f.defs_of(pl["local"]) if not f.blocks[d[0]]["cleanup"]]
    if len(dd) != 1 or dd[0][1] == "term" or dd[0][2]["k"] != "assign":
        return pl["local"]
    rv = dd[0][2]["rv"]
    if rv["k"] in ("ref", "rawptr") and [e["k"] for e in rv["place"]["proj"]] == ["deref"]:
        return _ptr_root(f, {"k": "copy", "place": {"local": rv["place"]["local"], "proj": []}}, depth + 1)
    if rv["k"] == "use" and core.op_place(rv["op"]) is not None and not core.op_place(rv["op"])["proj"]:
        return _ptr_root(f, rv["op"], depth + 1)
    return pl["local"]


def _suffix_span(an, f, st, slice_op, mid_op):
    """`split_at(x, x.len() - K)`: if the split point is defined (through copies and the `.0` of a checked /
    overflow-asserted subtraction) as the length of the very slice being split minus K, return the interval of K."""
    xo = _ptr_root(f, slice_op)
    if xo is None:
        return None
    cur = mid_op
    for _ in range(8):
        pl = core.op_place(cur)
        if pl is None:
            return None
        dd = [d for d in f.defs_of(pl["local"]) if not f.blocks[d[0]]["cleanup"]]
        if len(dd) != 1 or dd[0][1] == "term" or dd[0][2]["k"] != "assign":
            return None
        r2 = dd[0][2]["rv"]
        if r2["k"] == "use":
            cur = r2["op"]
            continue
        if r2["k"] == "binop" and r2["op"] in ("SubWithOverflow", "Sub"):
            a, b_ = r2["a"], r2["b"]
            # a must be `len(&*x)` of the same owner
            ca = a
            for _ in range(4):
                pa = core.op_place(ca)
                if pa is None:
                    return None
                da = [d for d in f.defs_of(pa["local"]) if not f.blocks[d[0]]["cleanup"]]
                if len(da) != 1:
                    return None
                if da[0][1] == "term":
                    t = da[0][2]
                    if core.strip_generics(core.callee_path(t) or "") in ("core::slice::len",) and _ptr_root(f, t["args"][0]) == xo:
                        return an.op_iv(f, st, b_)
                    return None
                if da[0][2]["k"] == "assign" and da[0][2]["rv"]["k"] == "use":
                    ca = da[0][2]["rv"]["op"]
                    continue
                if da[0][2]["k"] == "assign" and da[0][2]["rv"]["k"] == "unop" and da[0][2]["rv"]["op"] == "PtrMetadata":
                    if _ptr_root(f, da[0][2]["rv"]["a"]) == xo:
                        return an.op_iv(f, st, b_)
                    return None
                return None
            return None
        return None
    return None


def _range_span(an, f, st, o):
    """If the range operand is `X .. X + L` (also `X .. X.checked_add(L)?`) return (True, interval of L or
    None): the range is ordered by construction (the addition is checked) and its span is exactly L,
    whatever X is - a local relational fact read off the MIR definitions."""
    p = core.op_place(o)
    if p is None or p["proj"]:
        return None
    ds = [d for d in f.defs_of(p["local"]) if not f.blocks[d[0]]["cleanup"]]
    if len(ds) != 1 or ds[0][1] == "term" or ds[0][2]["k"] != "assign":
        return None
    rv = ds[0][2]["rv"]
    if not (rv["k"] == "aggregate" and rv.get("path") == "core::ops::range::Range" and len(rv["ops"]) == 2):
        return None
    sroot = _copy_root(f, rv["ops"][0])
    if sroot is None:
        return None
    # definition of the end operand: through copies, `.0` of a checked add, or the Continue payload of `?`
    cur = rv["ops"][1]
    for _ in range(12):
        pl = core.op_place(cur)
        if pl is None:
            return None
        l = pl["local"]
        dd = [d for d in f.defs_of(l) if not f.blocks[d[0]]["cleanup"]]
        if len(dd) != 1:
            return None
        b, i, d = dd[0]
        if i == "term":
            dp = flow.decl_path(d) or ""
            if dp.endswith("Try::branch") or dp.endswith("try_trait::Try::branch"):
                cur = d["args"][0]
                continue
            if dp.endswith("checked_add") and len(d["args"]) == 2:
                for x, y in ((d["args"][0], d["args"][1]), (d["args"][1], d["args"][0])):
                    if _copy_root(f, x) == sroot:
                        return (True, an.op_iv(f, st, y))
            return None
        if d["k"] != "assign":
            return None
        r2 = d["rv"]
        if r2["k"] == "use":
            cur = r2["op"]
            continue
        if r2["k"] == "binop" and r2["op"] in ("AddWithOverflow", "Add"):
            for x, y in ((r2["a"], r2["b"]), (r2["b"], r2["a"])):
                if _copy_root(f, x) == sroot:
                    return (True, an.op_iv(f, st, y))
            return None
        return None
    return None


def _expr_iv(an, f, st, e):
    if e[0] == "const" and isinstance(e[1], int):
        return (e[1], e[1])
    if e[0] == "arg":
        return st.v.get((e[1], ()))
    if e[0] == "var":
        return st.v.get((e[1], ()))
    if e[0] == "cast":
        return _expr_iv(an, f, st, e[1])
    return None


def _rng_bounds(an, f, st, o):
    """(start interval, end interval or None, kind) of a range operand."""
    p = core.op_place(o)
    if p is None:
        return None
    ty = strip_generic_ws(p["ty"])
    key = an.op_key(st, o)

    def sub(name):
        return st.v.get((key[0], key[1] + (name,))) if key is not None else None
    if ty.startswith("core::ops::range::RangeFull"):
        return ("full", None, None)
    if ty.startswith("core::ops::range::RangeInclusive"):
        return None
    if ty.startswith("core::ops::range::RangeToInclusive"):
        e = sub("end")
        return ("to", (0, 0), (e[0] + 1, e[1] + 1)) if e else None
    if ty.startswith("core::ops::range::RangeTo"):
        e = sub("end")
        return ("to", (0, 0), e) if e else None
    if ty.startswith("core::ops::range::RangeFrom"):
        s_ = sub("start")
        return ("from", s_, None) if s_ else None
    if ty.startswith("core::ops::range::Range"):
        s_, e = sub("start"), sub("end")
        return ("range", s_, e) if (s_ and e) else None
    return None


def strip_generic_ws(s):
    return s.lstrip("&").strip()


def _len_model(an, f, st, t, c, argiv):
    """Lengths of fixed-capacity vectors / arrays / slices and Ok-ness of conversions."""
    decl, res = resolved_decl(c)
    name = res or decl
    last = name.rsplit("::", 1)[-1]
    args = t["args"]
    if last == "next" and args:
        own = iter_owner(f, args[0])
        trip = None
        if own is not None:
            it = st.v.get((own, ("#item",)))
            ln = st.v.get((own, ("#len",)))
            ei = st.v.get((own, ("#eidx",)))
            rm = st.v.get((own, ("#rem",)))
            if rm is not None and f.blocks[_bb_of(f, t)] and (f.path, _bb_of(f, t)) not in an.trip_seen:
                # first visit of this `next` in this analysis: the iterator is still untouched
                trip = rm[1]
            elif (f.path, _bb_of(f, t)) in an.trip_seen:
                trip = an.trip.get((f.path, _bb_of(f, t)))
            elif it is not None:
                trip = max(it[1] - it[0] + 1, 0)
            elif ln is not None:
                trip = ln[1]
            elif ei is not None:
                trip = ei[1] + 1
        key = (f.path, _bb_of(f, t))
        an.trip_seen.add(key)
        if trip is None:
            an.trip[key] = None
        elif key not in an.trip or an.trip[key] is not None:
            an.trip[key] = max(an.trip.get(key) or 0, trip)
        # advancing an iterator never widens its item / index / length summary; the remaining count drops
        rem = st.v.get((own, ("#rem",))) if own is not None else None
        if rem is not None:
            okv = (0, 0) if rem[1] == 0 else ((1, 1) if rem[0] >= 1 else (0, 1))
            return {("#ok",): okv}, None, [((own, ("#rem",)), (max(rem[0] - 1, 0), max(rem[1] - 1, 0)))]
        return None, None, []
    dty = t["dest"]["ty"]
    L0 = an.len_of_operand(f, st, args[0]) if args else None
    owner0 = None
    if args:
        p0 = core.op_place(args[0])
        if p0 is not None and p0["ty"].startswith("&mut "):
            owner0 = flow.resolve_owner_path(f, args[0], want_mut=True)
    cap0 = None
    if args and core.op_place(args[0]) is not None:
        cap0 = type_cap(core.op_place(args[0])["ty"])
    is_av = "tinyvec::arrayvec::ArrayVec" in name or "tinyvec::arrayvec::ArrayVec" in c.get("s", "")
    ret = goal = None
    eff = None

    if name in ("tinyvec::arrayvec::ArrayVec::new",) or (last == "default" and type_cap(dty) is not None and "ArrayVec<" in dty):
        return {("#len",): (0, 0)}, None, []
    if name == "tinyvec::arrayvec::ArrayVec::from_array_len":
        n = type_cap(dty)
        a1 = argiv[1] if len(argiv) > 1 else None
        if a1 is not None and n is not None:
            return {("#len",): (min(a1[0], n), min(a1[1], n))}, None, []
        return {}, None, []
    if last == "from" and "ArrayVec<" in dty and "From<" in c.get("s", "") and "ArrayVec" in name:
        n = type_cap(dty)
        goal = (False, "capacity", "ArrayVec::from of an array longer than 65535 elements always panics (u16 length)") if oversized_arrayvec_conversion(c) else None
        return ({("#len",): (n, n)} if n is not None else {}), goal, []
    if last == "try_from" and "TryFrom" in name and "ArrayVec" in name:
        # ArrayVec::<[T;N]>::try_from(&[T]) : Ok iff len <= N
        inner = None
        m = None
        import re
        m = re.search(r"ArrayVec<\[.*?; (\d+)\]>", dty)
        n = int(m.group(1)) if m else None
        goal = None
        if n is not None and n > AV_MAX_LEN:
            # lengths in 65536..=N pass the capacity test and then panic in set_len (u16 length field)
            proved = L0 is not None and (L0[1] <= AV_MAX_LEN or L0[0] > n)
            goal = (proved, "capacity", "slice len=%s; ArrayVec<[_; %d]> holds at most %d elements (u16 length): lengths %d..=%d panic" % (L0, n, AV_MAX_LEN, AV_MAX_LEN + 1, n))
        if L0 is not None and n is not None:
            ok = (1, 1) if L0[1] <= n else ((0, 0) if L0[0] > n else (0, 1))
            return {("#ok",): ok, ("@Ok", "0", "#len"): (L0[0], min(L0[1], n, AV_MAX_LEN))}, goal, []
        return {}, goal, []
    if last == "try_into" and "TryInto" in name:
        # &[T] -> [T; K] / &[T; K]: Ok iff len == K
        import re
        m = re.search(r"core::result::Result<&?\[.*?; (\d+)\]", dty)
        if m and L0 is not None:
            k = int(m.group(1))
            ok = (1, 1) if L0 == (k, k) else ((0, 0) if (L0[1] < k or L0[0] > k) else (0, 1))
            return {("#ok",): ok}, None, []
        return None, None, None
    if name in ("core::option::Option::unwrap", "core::option::Option::expect", "core::result::Result::unwrap", "core::result::Result::expect"):
        okv = an.sub_of_operand(st, args[0], ("#ok",))
        proved = okv == (1, 1)
        variant = "@Some" if "Option" in name else "@Ok"
        r = {}
        key = an.op_key(st, args[0])
        if key is not None:
            pre = key[1] + (variant, "0")
            for kk, vv in st.v.items():
                if kk[0] == key[0] and kk[1][: len(pre)] == pre:
                    r[kk[1][len(pre):]] = vv
        return r, (proved, "unwrap", "Ok-ness of the operand: %s" % (okv,)), []
    if name in ("core::result::Result::ok", "core::result::Result::map_err", "core::option::Option::ok_or", "core::option::Option::ok_or_else",
                "core::ops::try_trait::Try::branch") or (last == "branch" and "Try" in name):
        okv = an.sub_of_operand(st, args[0], ("#ok",))
        r = {}
        key = an.op_key(st, args[0])
        src_v = "@Some" if "Option" in (core.op_place(args[0]) or {}).get("ty", "") and "core::option::Option" in core.op_place(args[0])["ty"][:24] else "@Ok"
        if last == "branch":
            dst_v = "@Continue"
        elif last in ("ok",):
            dst_v = "@Some"
        elif last in ("ok_or", "ok_or_else", "map_err"):
            dst_v = "@Ok"
        else:
            dst_v = src_v
        if okv is not None:
            r[("#ok",)] = okv
        if key is not None:
            pre = key[1] + (src_v, "0")
            for kk, vv in st.v.items():
                if kk[0] == key[0] and kk[1][: len(pre)] == pre:
                    r[(dst_v, "0") + kk[1][len(pre):]] = vv
        return r, None, []
    if name in ("core::option::Option::is_some", "core::option::Option::is_none", "core::result::Result::is_ok", "core::result::Result::is_err") and args:
        okv = an.sub_of_operand(st, args[0], ("#ok",))
        if okv is None:
            return {(): (0, 1)}, None, []
        if last in ("is_none", "is_err"):
            okv = (1 - okv[1], 1 - okv[0])
        return {(): okv}, None, []
    if name in ("core::option::Option::map_or", "core::result::Result::map_or") and len(args) == 3:
        okv = an.sub_of_operand(st, args[0], ("#ok",)) or (0, 1)
        variant = "@Some" if "Option" in name else "@Ok"
        payload = an.sub_of_operand(st, args[0], (variant, "0"))
        dflt = argiv[1]
        res = None
        ca = core.op_place(args[2])
        cty = f.locals[ca["local"]]["ty"] if ca is not None and not ca["proj"] else {}
        cres = None
        if cty.get("k") == "closure" and cty.get("path") in an.F.fns and okv != (0, 0):
            g = an.F.fns[cty["path"]]
            cargs = [None] * g.arg_count
            if g.arg_count >= 2:
                cargs[-1] = payload
            cres = an.call_local(g.path, cargs).get(())
        parts = []
        if okv != (1, 1):
            parts.append(dflt)
        if okv != (0, 0):
            parts.append(cres)
        if parts and all(p is not None for p in parts):
            res = parts[0]
            for p in parts[1:]:
                res = join(res, p)
        return ({(): res} if res is not None else {}), None, []
    if name in ("core::option::Option::unwrap_or", "core::result::Result::unwrap_or") and len(args) == 2:
        okv = an.sub_of_operand(st, args[0], ("#ok",)) or (0, 1)
        variant = "@Some" if "Option" in name else "@Ok"
        payload = an.sub_of_operand(st, args[0], (variant, "0"))
        parts = ([argiv[1]] if okv != (1, 1) else []) + ([payload] if okv != (0, 0) else [])
        if parts and all(p is not None for p in parts):
            res = parts[0]
            for p in parts[1:]:
                res = join(res, p)
            return {(): res}, None, []
        return {}, None, []
    if last == "from_residual":
        return {("#ok",): (0, 0)}, None, []
    if last == "collect" and "Iterator" in name and "ArrayVec<" in dty and args:
        # FromIterator for ArrayVec pushes every item: it panics when the iterator yields more than the capacity
        n = type_cap(dty)
        rem = an.sub_of_operand(st, args[0], ("#rem",))
        if rem is None:
            it = an.sub_of_operand(st, args[0], ("#item",))
            if it is not None:
                rem = (0, max(it[1] - it[0] + 1, 0))
        if n is not None and rem is not None:
            return {("#len",): (min(rem[0], n), min(rem[1], n))}, (rem[1] <= n, "capacity", "collect of at most %s items into capacity %d" % (rem, n)), []
        return {}, (False, "capacity", "collect: number of items unknown"), []
    if name == "tinyvec::arrayvec::ArrayVec::push":
        cur = _owner_len(an, st, owner0, core.op_place(args[0])["ty"]) if owner0 is not None else L0
        n = cap0
        an.incr[(f.path, _bb_of(f, t))] = max(an.incr.get((f.path, _bb_of(f, t)), 0), 1)
        if an._recording:
            an.note_obs("grow", f, t, (cur, (1, 1)))
        if cur is not None and n is not None:
            proved = cur[1] < n
            return {}, (proved, "capacity", "len=%s capacity=%d" % (cur, n)), [((owner0[0], owner0[1]), (min(cur[0] + 1, n), min(cur[1] + 1, n)))] if owner0 is not None else None
        return {}, (False, "capacity", "length unknown"), None
    if name == "tinyvec::arrayvec::ArrayVec::extend_from_slice":
        cur = _owner_len(an, st, owner0, core.op_place(args[0])["ty"]) if owner0 is not None else L0
        add = an.len_of_operand(f, st, args[1]) if len(args) > 1 else None
        n = cap0
        if add is not None:
            an.incr[(f.path, _bb_of(f, t))] = max(an.incr.get((f.path, _bb_of(f, t)), 0), add[1])
        else:
            an.incr[(f.path, _bb_of(f, t))] = SLICE_LEN_MAX
        if an._recording:
            an.note_obs("grow", f, t, (cur, add))
        if cur is not None and add is not None and n is not None:
            proved = cur[1] + add[1] <= n
            return {}, (proved, "capacity", "len=%s + %s capacity=%d" % (cur, add, n)), [((owner0[0], owner0[1]), (min(cur[0] + add[0], n), min(cur[1] + add[1], n)))] if owner0 is not None else None
        return {}, (False, "capacity", "lengths unknown: %s + %s" % (cur, add)), None
    if last in ("as_slice", "as_mut_slice", "deref", "deref_mut", "as_ref", "as_mut", "borrow", "borrow_mut") and L0 is not None and len(args) == 1:
        return {("#len",): L0}, None, []
    if last == "len" and L0 is not None and (is_av or name in ("core::slice::len",)):
        r = {(): L0}
        p0 = core.op_place(args[0])
        own = flow.resolve_owner(f, args[0]) if p0 is not None else None
        if own is not None and (own not in an._mut_borrowed or own in an._len_safe):
            # the result is a copy of the tracked length: guards on it refine the length itself
            r[("#copyof",)] = ((own, ("#len",)), L0)
        return r, None, []
    if last == "is_empty" and L0 is not None and (is_av or name in ("core::slice::is_empty",)):
        lk = None
        p0 = core.op_place(args[0])
        own = flow.resolve_owner(f, args[0]) if p0 is not None else None
        if own is not None:
            lk = (own, ("#len",))
        res = (1, 1) if L0 == (0, 0) else ((0, 0) if L0[0] >= 1 else (0, 1))
        r = {(): res}
        if lk is not None:
            r[("#cmp",)] = ("Eq", lk, L0, None, (0, 0))
        return r, None, []
    if last == "enumerate" and args:
        rr = {}
        key = an.op_key(st, args[0])
        rem = st.v.get((key[0], key[1] + ("#rem",))) if key is not None else None
        if L0 is not None:
            rr = {("#len",): L0, ("#eidx",): (0, max(L0[1] - 1, 0))}
            rem = rem if rem is not None else L0
        if rem is not None:
            rr[("#rem",)] = rem
        return rr, None, []
    if last in ("map", "inspect", "filter", "filter_map", "take_while", "map_while") and args and "iter" in name:
        # the adaptor yields at most as many items as its source (map / inspect: exactly as many); the item values change
        # (for a closure the analyser adds the closure's result as the new item, see Analyzer.call)
        key = an.op_key(st, args[0])
        rem = st.v.get((key[0], key[1] + ("#rem",))) if key is not None else None
        out = {}
        if rem is not None:
            out[("#rem",)] = rem if last in ("map", "inspect") else (0, rem[1])
        it = st.v.get((key[0], key[1] + ("#item",))) if key is not None else None
        if it is not None and (last in ("inspect", "filter", "take_while") or
                               (last == "map" and len(args) > 1 and args[1].get("k") == "const" and "convert::From<" in str(args[1].get("ty", {}).get("s", "")))):
            out[("#item",)] = it   # value-preserving: a filter, or map(<T as From<U>>::from) between integer types
        return out, None, []
    if name == "core::iter::sources::once::once" and args:
        out = {("#rem",): (1, 1)}
        if argiv and argiv[0] is not None:
            out[("#item",)] = argiv[0]
        return out, None, []
    if last == "chain" and "iter" in name and len(args) == 2:
        ka, kb = an.op_key(st, args[0]), an.op_key(st, args[1])
        ra = st.v.get((ka[0], ka[1] + ("#rem",))) if ka is not None else None
        rb = st.v.get((kb[0], kb[1] + ("#rem",))) if kb is not None else None
        ia_, ib_ = (st.v.get((ka[0], ka[1] + ("#item",))) if ka is not None else None), (st.v.get((kb[0], kb[1] + ("#item",))) if kb is not None else None)
        out = {}
        if ra is not None and rb is not None:
            out[("#rem",)] = (ra[0] + rb[0], ra[1] + rb[1])
        if ia_ is not None and ib_ is not None:
            out[("#item",)] = join(ia_, ib_)
        return out, None, []
    if last in ("sum",) and "Iterator" in name and args:
        key = an.op_key(st, args[0])
        rem = st.v.get((key[0], key[1] + ("#rem",))) if key is not None else None
        it = st.v.get((key[0], key[1] + ("#item",))) if key is not None else None
        rng = ty_range({"s": dty})
        if rem is not None and it is not None and rng is not None and it[0] >= 0:
            tot = (rem[0] * it[0], rem[1] * it[1])
            return {(): (tot[0], min(tot[1], rng[1]))}, (tot[1] <= rng[1], "iter-arith", "sum of at most %d items each <= %d" % (rem[1], it[1])), []
        return {}, (False, "iter-arith", "sum: item count %s or item range %s unknown" % (rem, it)), []
    if last in ("skip", "rev", "into_iter", "by_ref", "take", "iter", "iter_mut", "peekable", "copied", "cloned") and args:
        r = {}
        key = an.op_key(st, args[0])
        if key is not None:
            for sub in (("#len",), ("#eidx",), ("#item",), ("#rem",)):
                v = st.v.get((key[0], key[1] + sub))
                if v is not None:
                    r[sub] = v
        if L0 is not None and ("#len",) not in r and last in ("iter", "iter_mut", "into_iter"):
            r[("#len",)] = L0
        if ("#rem",) not in r and ("#len",) in r and last in ("iter", "iter_mut", "into_iter"):
            r[("#rem",)] = r[("#len",)]
        if last == "skip" and ("#rem",) in r and len(argiv) > 1 and argiv[1] is not None:
            lo, hi = r[("#rem",)]
            r[("#rem",)] = (max(lo - argiv[1][1], 0), max(hi - argiv[1][0], 0))
        if last == "take" and ("#rem",) in r and len(argiv) > 1 and argiv[1] is not None:
            lo, hi = r[("#rem",)]
            r[("#rem",)] = (min(lo, argiv[1][0]), min(hi, argiv[1][1]))
        if last == "skip" and ("#eidx",) in r and len(argiv) > 1 and argiv[1] is not None:
            lo, hi = r[("#eidx",)]
            r[("#eidx",)] = (min(lo + argiv[1][0], max(hi, lo + argiv[1][0])), max(hi, lo + argiv[1][0]))
        if r:
            return r, None, []
    if last in ("index", "index_mut") and args and len(args) == 2 and ("Index" in c.get("s", "") or name.startswith("core::slice::index") or name.startswith("core::array")):
        base = L0
        rb = _rng_bounds(an, f, st, args[1])
        idx_iv = argiv[1]
        if base is None:
            return None, None, []
        if idx_iv is not None and ty_range({"s": core.op_place(args[1])["ty"]} if core.op_place(args[1]) else args[1]["ty"]) is not None:
            proved = idx_iv[1] < base[0]
            return {}, (proved, "index", "index=%s len=%s" % (idx_iv, base)), []
        if rb is None:
            return None, None, []
        kind, s_, e = rb
        if an._recording:
            an.note_obs("range", f, t, (kind, s_, e, base))
        if kind == "full":
            return {("#len",): base}, (True, "index", "full range"), []
        if kind == "to":
            proved = e[1] <= base[0]
            return {("#len",): e}, (proved, "slice-index", "..%s of len %s" % (e, base)), []
        if kind == "from":
            # `x[x.len() - K ..]` with a checked subtraction: in bounds by construction, exactly K elements
            rl = core.op_local(args[1])
            rd = [d for d in f.defs_of(rl) if not f.blocks[d[0]]["cleanup"]] if rl is not None else []
            if len(rd) == 1 and rd[0][1] != "term" and rd[0][2]["k"] == "assign" and rd[0][2]["rv"]["k"] == "aggregate" and rd[0][2]["rv"]["ops"]:
                suf = _suffix_span(an, f, st, args[0], rd[0][2]["rv"]["ops"][0])
                if suf is not None:
                    return {("#len",): suf}, (True, "slice-index", "len - %s .. (checked subtraction)" % (suf,)), []
            proved = s_[1] <= base[0]
            return {("#len",): (max(base[0] - s_[1], 0), max(base[1] - s_[0], 0))}, (proved, "slice-index", "%s.. of len %s" % (s_, base)), []
        if kind == "range":
            span = _range_span(an, f, st, args[1])
            ordered = s_[1] <= e[0] or span is not None  # `X .. X + L` is ordered by construction (the addition is checked)
            proved = ordered and e[1] <= base[0]
            ln = span[1] if (span is not None and span[1] is not None) else (max(e[0] - s_[1], 0), max(e[1] - s_[0], 0))
            span = span[1] if span is not None else None
            return {("#len",): ln}, (proved, "slice-index", "%s..%s of len %s%s" % (s_, e, base, " (span %s)" % (span,) if span else "")), []
    if name in ("core::slice::copy_from_slice", "core::slice::clone_from_slice") and len(args) == 2:
        a, b_ = L0, an.len_of_operand(f, st, args[1])
        proved = a is not None and b_ is not None and a[0] == a[1] == b_[0] == b_[1]
        return {}, (proved, "copy-len", "dst=%s src=%s" % (a, b_)), []
    if name in ("core::slice::split_at", "core::slice::split_at_mut") and len(args) == 2:
        mid = argiv[1]
        suf = _suffix_span(an, f, st, args[0], args[1])
        if suf is not None:
            # mid = len(x) - K with a checked subtraction: mid <= len(x) by construction and the suffix holds exactly K elements
            pre = (max(L0[0] - suf[1], 0), max(L0[1] - suf[0], 0)) if L0 is not None else (0, SLICE_LEN_MAX)
            return {("0", "#len"): pre, ("1", "#len"): suf}, (True, "split", "mid = len - %s (checked subtraction)" % (suf,)), []
        if L0 is not None and mid is not None:
            proved = mid[1] <= L0[0]
            return {("0", "#len"): mid, ("1", "#len"): (max(L0[0] - mid[1], 0), max(L0[1] - mid[0], 0))}, (proved, "split", "mid=%s len=%s" % (mid, L0)), []
    if name in ("core::slice::get", "core::slice::get_mut") and len(args) == 2:
        span = _range_span(an, f, st, args[1])
        if span is not None and span[1] is not None:
            return {("@Some", "0", "#len"): span[1]}, None, []
        rb = _rng_bounds(an, f, st, args[1])
        if rb and L0 is not None:
            kind, s_, e = rb
            if kind == "range":
                return {("@Some", "0", "#len"): (max(e[0] - s_[1], 0), max(e[1] - s_[0], 0))}, None, []
            if kind == "to":
                return {("@Some", "0", "#len"): e}, None, []
            if kind == "from":
                return {("@Some", "0", "#len"): (max(L0[0] - s_[1], 0), max(L0[1] - s_[0], 0))}, None, []
        return {}, None, []
    if name in ("core::slice::fill", "core::slice::iter", "core::slice::iter_mut", "core::slice::is_empty", "core::slice::first", "core::slice::last"):
        return None, None, []
    return None, None, None


def _extern_call(an, f, st, t, c, argiv):
    decl, res = resolved_decl(c)
    name = res or decl
    an.extern_seen[name] = an.extern_seen.get(name, 0) + 1
    rng = ty_range({"s": t["dest"]["ty"]})
    ret = None
    goal = None
    last = name.rsplit("::", 1)[-1]
    a0 = argiv[0] if argiv else None
    a1 = argiv[1] if len(argiv) > 1 else None

    if name == "core::num::pow" or (name.startswith("core::num::") and last == "pow"):
        if a0 is not None and a1 is not None and a0[0] >= 0 and a1[1] <= 4096:
            m = (a0[0] ** a1[0], a0[1] ** a1[1])
            ok = rng is not None and m[1] <= rng[1]
            ret = {(): clip(m, rng)}
            goal = (ok, "pow", "base=%s exp=%s result<=%s" % (a0, a1, m[1] if m[1] < 2**130 else ">2^130"))
        else:
            goal = (False, "pow", "base=%s exp=%s" % (a0, a1))
    elif name.startswith("core::num::") and last in ("leading_zeros", "trailing_zeros", "count_ones", "count_zeros", "leading_ones", "trailing_ones"):
        ity = f.locals[core.op_place(t["args"][0])["local"]]["ty"]["s"] if core.op_place(t["args"][0]) else None
        bits = INT_BITS.get(ity, 128)
        ret = {(): (0, bits)}
    elif name.startswith("core::num::") and last in ("from_be_bytes", "from_le_bytes", "from_ne_bytes", "swap_bytes", "to_be", "to_le", "from_be", "from_le", "reverse_bits", "rotate_left", "rotate_right"):
        ret = {(): rng} if rng else {}
    elif name.startswith("core::num::") and last in ("checked_shl", "checked_shr") and a0 is not None and a1 is not None:
        ity = f.locals[core.op_place(t["args"][0])["local"]]["ty"]["s"] if core.op_place(t["args"][0]) else None
        if ity is None and t["args"][0]["k"] == "const":
            ity = t["args"][0]["ty"]["s"]
        bits = INT_BITS.get(ity, 64)
        prng = ty_range({"s": ity}) if ity else None
        if a1[1] < bits:
            okv = (1, 1)
        elif a1[0] >= bits:
            okv = (0, 0)
        else:
            okv = (0, 1)
        ret = {("#ok",): okv}
        if okv != (0, 0) and a0[0] >= 0:
            hi_s = min(a1[1], bits - 1)
            lo_s = min(a1[0], bits - 1)
            m = (a0[0] << lo_s, a0[1] << hi_s) if last == "checked_shl" else (a0[0] >> hi_s, a0[1] >> lo_s)
            ret[("@Some", "0")] = clip(m, prng)
    elif name.startswith("core::num::") and last in ("checked_add", "checked_sub", "checked_mul", "checked_shl", "checked_shr", "checked_div", "checked_pow"):
        if a0 is not None and a1 is not None:
            op = {"checked_add": "Add", "checked_sub": "Sub", "checked_mul": "Mul", "checked_shl": "Shl", "checked_shr": "Shr", "checked_div": "Div"}.get(last)
            prng = ty_range(f.locals[core.op_place(t["args"][0])["local"]]["ty"]) if core.op_place(t["args"][0]) else None
            if op:
                m = an.arith(op, a0, a1, prng)
                if m is not None and prng is not None:
                    mm = meet(m, prng)
                    if mm is not None:
                        ret = {("@Some", "0"): mm}
        ret = ret or {}
    elif name.startswith("core::num::") and last in ("saturating_add", "saturating_sub", "saturating_mul", "saturating_pow"):
        if a0 is not None and a1 is not None and rng is not None:
            if last == "saturating_pow" and a1[1] <= 4096 and a0[0] >= 0:
                m = (a0[0] ** a1[0], a0[1] ** a1[1])
            else:
                m = an.arith({"saturating_add": "Add", "saturating_sub": "Sub", "saturating_mul": "Mul"}.get(last, "Add"), a0, a1, rng)
            if m is not None:
                ret = {(): (max(rng[0], min(m[0], rng[1])), max(rng[0], min(m[1], rng[1])))}
                if an._recording and (m[0] < rng[0] or m[1] > rng[1]):
                    an.note_lossy(f, last, t["dest"]["ty"], m, rng)
        ret = ret or ({(): rng} if rng else {})
    elif name.startswith("core::num::") and last in ("wrapping_add", "wrapping_sub", "wrapping_mul", "wrapping_shl", "wrapping_shr", "wrapping_neg", "wrapping_pow"):
        ret = {(): rng} if rng else {}
        op = {"wrapping_add": "Add", "wrapping_sub": "Sub", "wrapping_mul": "Mul", "wrapping_shl": "Shl"}.get(last)
        m = None
        if op and a0 is not None and a1 is not None and rng is not None:
            bits = bits_of(rng[1])
            if op == "Shl" and a1[1] >= bits:
                m = None  # the shift amount is reduced modulo the width: nothing sound to say but the type range
            else:
                m = an.arith(op, a0, a1, rng)
            if m is not None and rng[0] <= m[0] and m[1] <= rng[1]:
                ret = {(): m}
        if an._recording and rng is not None and (m is None or m[0] < rng[0] or m[1] > rng[1]):
            an.note_lossy(f, last, t["dest"]["ty"], m if m is not None else (rng[0] - 1, rng[1] + 1), rng)
    elif name.startswith("core::num::") and last in ("min", "max"):
        if a0 is not None and a1 is not None:
            ret = {(): (min(a0[0], a1[0]), min(a0[1], a1[1])) if last == "min" else (max(a0[0], a1[0]), max(a0[1], a1[1]))}
    elif name in ("core::cmp::min", "core::cmp::Ord::min", "core::cmp::max", "core::cmp::Ord::max") or (last in ("min", "max") and "cmp" in name):
        if a0 is not None and a1 is not None and rng is not None:
            ret = {(): (min(a0[0], a1[0]), min(a0[1], a1[1])) if last == "min" else (max(a0[0], a1[0]), max(a0[1], a1[1]))}
    elif name == "tinyvec::arrayvec::ArrayVec::len":
        n = arrayvec_cap_from_callee(c)
        ret = {(): (0, n if n is not None else SLICE_LEN_MAX)}
    elif name == "tinyvec::arrayvec::ArrayVec::from_array_len":
        n = arrayvec_cap_from_callee(c)
        ok = n is not None and a1 is not None and a1[1] <= n
        goal = (ok, "capacity", "len=%s capacity=%s" % (a1, n))
        ret = {}
    elif name == "tinyvec::arrayvec::ArrayVec::capacity":
        n = arrayvec_cap_from_callee(c)
        ret = {(): (n, n)} if n is not None else {(): (0, SLICE_LEN_MAX)}
    elif name in ("core::slice::len", "core::str::len"):
        ret = {(): (0, SLICE_LEN_MAX)}
    elif name == "core::mem::size_of":
        ta = int_ty_of_arg(c)
        n = size_of(ta)
        ret = {(): (n, n)} if n is not None else {(): (0, SLICE_LEN_MAX)}
    elif last in ("into", "from") and rng is not None and a0 is not None and ("convert" in name):
        ret = {(): clip(a0, rng)}
    elif last == "next" and iter_owner(f, t["args"][0]) is not None and st.v.get((iter_owner(f, t["args"][0]), ("#eidx",))) is not None:
        ret = {("@Some", "0", "0"): st.v[(iter_owner(f, t["args"][0]), ("#eidx",))]}
    elif "iter::range" in name and last == "next" or (last == "next" and ("Rev<" in c.get("s", "") or "StepBy<" in c.get("s", "") or "Skip<" in c.get("s", "")) and "Range" in c.get("s", "")):
        owner = iter_owner(f, t["args"][0])
        item = st.v.get((owner, ("#item",))) if owner is not None else None
        if item is not None:
            ret = {("@Some", "0"): item}
        else:
            ret = {}
    elif last in ("into_iter", "rev", "skip", "step_by", "by_ref", "take", "clone") and t["args"]:
        k = an.op_key(st, t["args"][0])
        item = st.v.get((k[0], k[1] + ("#item",))) if k is not None else None
        if last == "take" and item is not None:
            pass
        ret = {("#item",): item} if item is not None else {}
        if last == "step_by":
            goal = (a1 is not None and a1[0] >= 1, "nonzero-arg", "step=%s" % (a1,))
    elif name == "core::ops::range::RangeInclusive::new":
        if a0 is not None and a1 is not None:
            ret = {("#item",): (a0[0], a1[1])}
    cls = partial_class(c)
    if cls is not None and goal is None:
        goal = (False, cls, "args=%s" % ([a for a in argiv],))
    return ret, goal


def iter_owner(f, operand):
    """Local that `&mut it` (possibly re-borrowed) points to."""
    return flow.resolve_owner(f, operand)


def size_of(ta):
    if ta is None:
        return None
    k = ta.get("k")
    if k == "int":
        return INT_BITS.get(ta["s"], 0) // 8 or None
    if k == "bool":
        return 1
    if k == "array" and ta.get("len") is not None:
        e = size_of(ta["elem"])
        return e * ta["len"] if e is not None else None
    if k == "tuple":
        return None
    return None
