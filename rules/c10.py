"""C10 - auxiliary data is a transparent, authenticated cache (clause level).

Decided (all on the type-checked MIR):
  X1  trust gate: cache slots (the `[Option<&mut [u8]>; N]` member of the expanded-aux type) are populated in exactly
      one function, the expander; inside it every path to a slot write either takes the `seed = None` edge or the
      success edge of a comparison between the *whole* value returned by the MAC routine (which depends on the seed
      and on the buffer prefix) and the remainder of the buffer; the failing edge reaches only `None` returns; the
      MAC'd prefix and the carving loop use the same layer-size table and the same header offset
  X2  every call of the expander without a seed (unauthenticated) is dominated by a whole-buffer zero fill of the very
      slice it receives, with nothing but header-confined writes (the marker store) in between; every other call passes
      the seed member of the private key being used
  X3  shrink and marker: on the fresh path the caller's slice is replaced by its own prefix of the length returned by
      the length routine for (old length, top-level parameter) before the fill, the marker store and the expansion;
      the level word stored is the optimal level for that same length
  X4  the MAC is written (finalize) only after the tree generation that fills the cache, with the key's own seed
  X5  cache scope: the cache describes the top-level tree only.  Every call that hands a possibly attached cache to a
      tree routine is classified by the tree identity it passes: pass-through of the caller's own identity parameter,
      top by construction (root seed / key vector element 0), or level-indexed.  A level-indexed use inside the level
      loop must use index 0 in the first iteration and the cache must be detached on every path back to the use; the
      builder of the key vector detaches the cache before any second level is pushed (so: more than one level =>
      detached), and a use indexed by `len - 1` is accepted only when its key comes from that builder, called with
      the same cache variable
  X7  the MAC writer absorbs every cache slot (sibling agreement with the checker, which MACs every stored level)
  X8  the MAC key and the keyed-hash computation are the reference preimages (hash-sigs: key = H(0^20 || D_DAUX || whole seed),
      HMAC-style inner / outer hash over level word and cached levels): closed world over the hash sessions of the aux routines
  X6  totality on arbitrary aux bytes / lengths: the panic-freedom engine (as C11) restricted to the functions that
      touch the aux buffer or the expanded cache
Not decided: that cached nodes equal recomputed nodes (output equality over runtime values).
"""
from collections import deque

from . import c03, core, expr, flow, gf, pf, zz
from .api import Api
from .core import AnchorLost

LEVEL = "other"
TECHNIQUE = ("who-may-construct enumeration, guard facts with edge removal on the MIR CFG, whole-value provenance of the MAC comparison, "
             "dominance (zero fill before unauthenticated use), typestate (attached/detached) dataflow with first-iteration evaluation, "
             "hash-session extraction matched against the reference MAC preimages, panic-freedom engine restricted to the aux routines")

OPTION = flow.OPTION
CMP_CALLS = ("subtle::ConstantTimeEq::ct_eq", "core::cmp::PartialEq::eq", "core::cmp::PartialEq::ne")
ITER_VIEW = ("iter", "deref", "as_slice", "into_iter", "copied", "cloned", "as_ref")
ITER_SHAPE = ITER_VIEW + ("enumerate", "filter")


def is_opt_of(ty, inner_pred):
    return ty.get("k") == "adt" and ty.get("path") == OPTION and ty.get("args") and inner_pred(ty["args"][0])


def is_mut_u8_slice(ty):
    return ty.get("k") == "ref" and ty.get("mut") and ty["ty"].get("k") == "slice" and ty["ty"]["elem"].get("s") == "u8"


class Anchors:
    def __init__(self, F, A):
        self.F = F
        cands = []
        for p, a in F.adts.items():
            for fl in zz.fields_of(F, p):
                t = fl["ty"]
                if t.get("k") == "array" and is_opt_of(t["elem"], is_mut_u8_slice):
                    cands.append((p, fl["name"]))
        if len(cands) != 1:
            raise AnchorLost("expanded-aux type (struct with an array of Option<&mut [u8]>) not unique: %s" % cands)
        self.T, self.slot = cands[0]
        self.macf = [fl["name"] for fl in zz.fields_of(F, self.T) if is_mut_u8_slice(fl["ty"])]

        def is_T(ty):
            return ty.get("k") == "adt" and ty.get("path") == self.T

        def is_optT(ty):
            return is_opt_of(ty, is_T)
        self.is_T, self.is_optT = is_T, is_optT
        self.is_mut_optT = lambda ty: ty.get("k") == "ref" and ty.get("mut") and is_optT(ty["ty"])
        # expander: returns Option<T> and writes slots
        writers = {}
        builders = {}
        for p, f in F.fns.items():
            for b, i, s in f.iter_stmts():
                if s["k"] != "assign" or f.blocks[b]["cleanup"]:
                    continue
                pr = s["place"]["proj"]
                if any(e["k"] == "field" and e.get("adt") == self.T and e.get("name") == self.slot for e in pr) and any(e["k"] in ("index", "constindex") for e in pr):
                    writers.setdefault(p, []).append(b)
                rv = s["rv"]
                if rv["k"] == "aggregate" and rv.get("path") == self.T:
                    builders.setdefault(p, []).append(b)
        self.writers, self.builders = writers, builders
        ex = [p for p in writers if is_optT(F.fns[p].j.get("output", {}))]
        if len(ex) != 1:
            raise AnchorLost("expander (fn -> Option<%s> that populates the cache slots) not unique: %s" % (self.T, ex))
        self.E = F.fns[ex[0]]
        self.consumers = {p: [i + 1 for i, t in enumerate(f.j.get("inputs", [])) if self.is_mut_optT(t)] for p, f in F.fns.items()}
        self.consumers = {p: v for p, v in self.consumers.items() if v}
        # accessors of &T / &mut T
        self.accessors = [p for p, f in F.fns.items() if any(t.get("k") == "ref" and is_T(t["ty"]) for t in f.j.get("inputs", []))]
        fin = [p for p in self.accessors if F.fns[p].j["output"].get("s") == "()" and len(F.fns[p].j["inputs"]) == 2 and core.is_u8_slice_ref(F.fns[p].j["inputs"][1])]
        if len(fin) != 1:
            raise AnchorLost("MAC writer (fn(&mut %s, &[u8])) not unique: %s" % (self.T, fin))
        self.finalize = F.fns[fin[0]]
        self.gates = sorted({c[0] for c in F.callers_of(self.E.path)})


def slot_protected_blocks(an):
    E = an.E
    prot = set(an.writers[E.path])
    for b, i, s in E.iter_stmts():
        if s["k"] == "assign" and s["place"]["local"] == 0 and s["rv"]["k"] == "aggregate" and s["rv"].get("variant") == "Some" and not E.blocks[b]["cleanup"]:
            prot.add(b)
    return prot


def reachable_without(f, removed):
    seen = {0}
    dq = deque([0])
    while dq:
        b = dq.popleft()
        for s in f.succ[b]:
            if (b, s) in removed or s in seen:
                continue
            seen.add(s)
            dq.append(s)
    return seen


def x1_gate(chk, F, an, tag):
    E = an.E
    T = an.T
    # who-may-construct
    for p in sorted(set(an.writers) | set(an.builders)):
        f = F.fns[p]
        ok = p == E.path or bool(f.span.get("exp"))
        chk.ob("X1.only-the-expander-populates-the-cache", f.key + tag, ok,
               "%s constructs a %s value or writes its cache slots outside the expander %s: such a cache bypasses the MAC check" % (p, T, E.path), where=f.loc())
        chk.count("cache_constructors", 1)
    # the seed parameter and the aux parameter of the expander
    ins = E.j["inputs"]
    seedp = [i + 1 for i, t in enumerate(ins) if is_opt_of(t, core.is_u8_slice_ref)]
    auxp = [i + 1 for i, t in enumerate(ins) if is_opt_of(t, is_mut_u8_slice)]
    chk.ob("X1.expander-signature", E.key + tag, len(seedp) == 1 and len(auxp) == 1,
           "expander %s does not take (Option<&mut [u8]>, Option<&[u8]>): %s" % (E.path, [t["s"] for t in ins]), where=E.loc())
    if len(seedp) != 1 or len(auxp) != 1:
        return None
    seedp, auxp = seedp[0], auxp[0]
    prot = slot_protected_blocks(an)
    # (a) the `seed is None` edges: switches on the discriminant of the seed parameter
    removed = set()
    none_edges = 0
    for b, t in E.iter_terms():
        if t["k"] != "switch" or E.blocks[b]["cleanup"]:
            continue
        l = core.op_local(t["discr"])
        ds = E.defs_of(l) if l is not None else []
        if len(ds) == 1 and ds[0][1] != "term" and ds[0][2]["k"] == "assign" and ds[0][2]["rv"]["k"] == "discr":
            pl = ds[0][2]["rv"]["place"]
            if pl["local"] == seedp and not pl["proj"]:
                for val, tgt in t["targets"]:
                    if val != 1:
                        removed.add((b, tgt))
                        none_edges += 1
                if t.get("otherwise") is not None and not any(v == 0 for v, _ in t["targets"]):
                    removed.add((b, t["otherwise"]))
                    none_edges += 1
    # (b) the MAC comparison
    macs = []
    for b, t in E.iter_terms():
        if t["k"] != "switch" or E.blocks[b]["cleanup"]:
            continue
        d = gf.deps_of_switch(E, t)
        cmp_calls = [(cb, ct) for cb, ct in d["calls"] if (flow.decl_path(ct) or "") in CMP_CALLS]
        if not cmp_calls or not ({seedp, auxp} <= d["args"]):
            continue
        macs.append((b, t, d, cmp_calls))
    chk.ob("X1.mac-comparison-found", E.key + tag, len(macs) == 1,
           "expected exactly one branch in %s deciding on a comparison that depends on both the seed and the buffer, found %d" % (E.path, len(macs)), where=E.loc())
    if len(macs) != 1:
        return None
    b, t, d, cmp_calls = macs[0]
    fail, pas = [], []
    for s in dict.fromkeys(E.succ[b]):
        if E.blocks[s]["term"]["k"] == "unreachable":
            continue
        if gf.error_only_from(E, s, prot):
            fail.append(s)
        else:
            pas.append(s)
    chk.ob("X1.mac-failure-returns-none", E.key + tag, len(fail) >= 1 and len(pas) >= 1,
           "the MAC comparison in %s has no edge that reaches only `None` returns without touching the cache (fail=%s pass=%s)" % (E.path, fail, pas), where=E.loc(b))
    for s in pas:
        removed.add((b, s))
    reach = reachable_without(E, removed)
    leak = sorted(prot & reach)
    chk.ob("X1.cache-populated-only-after-mac-or-without-seed", E.key + tag, not leak and none_edges >= 1,
           "in %s a cache slot can be populated (blocks %s) on a path that neither took the `seed = None` edge nor the success edge of the MAC comparison: "
           "unauthenticated buffer contents would be used as tree nodes" % (E.path, leak), where=E.loc(leak[0] if leak else None))
    # whole-value comparison
    cb, ct = cmp_calls[0]
    sides = [flow.origin(E, a) for a in ct["args"][:2]]
    mac_side = None
    for i, o in enumerate(sides):
        if o[0] == "call" and F.call_targets(E, o[2]) and all(F.fns[p].j.get("crate", core.LOCAL_CRATE) == core.LOCAL_CRATE for p in F.call_targets(E, o[2])):
            dd = core.Slice(E).deps([o[2]["dest"]["local"]])
            if {seedp, auxp} <= dd["args"]:
                mac_side = i
    chk.ob("X1.whole-mac-compared", E.key + tag, mac_side is not None,
           "the value compared in %s is not the whole result of the MAC routine (one side must be the complete return value of a local function of seed and buffer, "
           "viewed only through deref/as_slice; found origins %s): a truncated comparison accepts forged buffers" % (E.path, [(o[0], core.callee_path(o[2]) if o[0] == "call" else o[1:]) for o in sides]),
           where=E.loc(cb))
    if mac_side is not None:
        other = sides[1 - mac_side]
        odeps = core.operand_deps(E, ct["args"][1 - mac_side])
        chk.ob("X1.mac-compared-with-buffer-remainder", E.key + tag, auxp in odeps["args"] and seedp not in odeps["args"],
               "the computed MAC is not compared with bytes of the aux buffer (depends on parameters %s)" % sorted(odeps["args"]), where=E.loc(cb))
    # MAC'd prefix vs carving: same table, same header offset
    ex = expr.Expr(F, E)
    splits = [(sb, st) for sb, st in E.calls() if core.strip_generics(core.callee_path(st) or "") == "core::slice::split_at" and not E.blocks[sb]["cleanup"]]
    carve = [(sb, st) for sb, st in E.calls() if core.strip_generics(core.callee_path(st) or "") == "core::slice::split_at_mut" and not E.blocks[sb]["cleanup"] and E.in_cycle(sb)]
    ok_tbl = False
    detail = ""
    if len(splits) == 1 and len(carve) == 1:
        stab = table_of(E, splits[0][1], want_sum=True)
        ctab = table_of(E, carve[0][1], want_sum=False)
        tty = E.locals[stab]["ty"]["s"] if stab is not None else ""
        ok_tbl = stab is not None and stab == ctab and ("ArrayVec" in tty or tty.startswith("["))
        # the header offset added to the sum and the start of the carving are the same variable
        hdr_ok = same_header_offset(E, splits[0], carve[0])
        ok_tbl = ok_tbl and hdr_ok
        detail = "prefix table _%s ; carved table _%s ; same header offset: %s" % (stab, ctab, hdr_ok)
    chk.ob("X1.mac-covers-every-carved-layer", E.key + tag, ok_tbl,
           "the MAC'd prefix length and the carving loop of %s do not range over the same complete layer-size table (%s): cache bytes outside the authenticated prefix could be read"
           % (E.path, detail or "split_at=%d split_at_mut-in-loop=%d" % (len(splits), len(carve))), where=E.loc())
    return seedp, auxp


def same_header_offset(E, split, carve):
    """`split_at(buf, hdr + sum)` and the carving of `buf[hdr..]`: both `hdr` operands read the same local."""
    d = core.operand_deps(E, split[1]["args"][1])
    adds = [r for r in d["binops"] if r["op"] in ("Add", "AddWithOverflow")]
    if len(adds) != 1:
        return False
    cands = set()
    for o in (adds[0]["a"], adds[0]["b"]):
        r = flow.origin(E, o)
        if r[0] == "local" and r[1] is not None:
            cands.add(r[1])
        l = core.op_local(o)
        if l is not None:
            ds = E.defs_of(l)
            if len(ds) == 1 and ds[0][1] != "term" and ds[0][2]["rv"]["k"] == "use" and core.op_local(ds[0][2]["rv"]["op"]) is not None:
                cands.add(core.op_local(ds[0][2]["rv"]["op"]))
    # the slicing `buf[hdr..]` that precedes the carving loop
    for b, t in E.calls():
        if E.blocks[b]["cleanup"] or not core.strip_generics(core.callee_path(t) or "").endswith("index_mut") or len(t["args"]) != 2:
            continue
        if not E.dominates(b, carve[0]):
            continue
        rl = core.op_local(t["args"][1])
        ds = E.defs_of(rl) if rl is not None else []
        if len(ds) == 1 and ds[0][1] != "term" and ds[0][2]["rv"]["k"] == "aggregate" and "RangeFrom" in ds[0][2]["rv"].get("path", ""):
            o = ds[0][2]["rv"]["ops"][0]
            l = core.op_local(o)
            dd = E.defs_of(l) if l is not None else []
            src = core.op_local(dd[0][2]["rv"]["op"]) if len(dd) == 1 and dd[0][1] != "term" and dd[0][2]["rv"]["k"] == "use" else l
            if src in cands:
                return True
    return False


def chain_root(f, operand, allowed, depth=0):
    """Local at the bottom of an iterator / view chain: follows single definitions through moves, (re)borrows,
    field projections of iterator items and calls whose last path segment is in `allowed` (first argument)."""
    p = core.op_place(operand)
    if p is None or depth > 40:
        return None
    l = p["local"]
    ds = [d for d in f.defs_of(l) if not f.blocks[d[0]]["cleanup"]]
    if len(ds) != 1:
        return l
    b, i, d = ds[0]
    if i == "term":
        last = core.strip_generics(core.callee_path(d) or "?").rsplit("::", 1)[-1]
        if last in allowed and d["args"]:
            return chain_root(f, d["args"][0], allowed, depth + 1)
        return l
    if d["k"] != "assign":
        return l
    rv = d["rv"]
    if rv["k"] in ("use", "cast"):
        if core.op_place(rv["op"]) is None:
            return l
        return chain_root(f, rv["op"], allowed, depth + 1)
    if rv["k"] in ("ref", "rawptr"):
        return chain_root(f, {"k": "copy", "place": {"local": rv["place"]["local"], "proj": []}}, allowed, depth + 1)
    return l


def table_of(E, call_term, want_sum):
    """Local holding the layer-size table behind the length argument of split_at (want_sum: `hdr + sum(view(table))`)
    or split_at_mut in the carving loop (`*next(shape(table)).1`); None when the chain contains anything but
    view / shape adaptors (take, skip, slicing ... would make prefix and carving disagree)."""
    arg = call_term["args"][1]
    if not want_sum:
        return chain_root(E, arg, ITER_SHAPE + ("next",))
    # hdr + sum(...): find the sum call among the definitions feeding the argument
    d = core.operand_deps(E, arg)
    sums = [(b, t) for b, t in d["calls"] if core.strip_generics(core.callee_path(t) or "").endswith("::sum")]
    if len(sums) != 1:
        return None
    adds = [r for r in d["binops"] if r["op"] in ("Add", "AddWithOverflow")]
    if len(adds) != 1:
        return None
    return chain_root(E, sums[0][1]["args"][0], ITER_VIEW)


def x2_fresh(chk, F, an, sig, tag):
    E = an.E
    seedp, auxp = sig
    K = c03.key_anchors(F, Api(F))["K"]
    n_unauth = n_auth = 0
    for gp in an.gates:
        g = F.fns[gp]
        for b, t in g.calls():
            if g.blocks[b]["cleanup"] or F.call_targets(g, t) != [E.path]:
                continue
            seed_arg = t["args"][seedp - 1]
            # one call whose seed argument is chosen on different paths (`let seed = if used { Some(..) } else { None }`) is
            # treated as one case per choice, located where the choice is made
            cases = seed_cases(g, seed_arg)
            for so, via, src in cases:
                if so == "none":
                    n_unauth += 1
                    check_zero_fill(chk, F, an, g, b, t["args"][auxp - 1], tag, via=via)
                else:
                    n_auth += 1
                    d = core.operand_deps(g, src) if src is not None else {"fields": set()}
                    ok = any(adt == K and name == "seed" for adt, name in d["fields"]) or any(name == "seed" for adt, name in d["fields"])
                    chk.ob("X2.authenticated-with-the-keys-own-seed", "%s%s" % (g.key, tag), so == "some" and ok,
                           "the expander is called in %s with a seed that is not the seed member of the private key in use (%s; fields %s): buffers of other keys would authenticate"
                           % (g.path, so, sorted(d["fields"])), where=g.loc(b))
    chk.count("unauthenticated_expansions", n_unauth)
    chk.count("authenticated_expansions", n_auth)


def seed_cases(f, operand, depth=0):
    """[(kind, block where the choice is made or None, operand inside Some)] for an Option operand: one entry if it has a single
    definition (kind none / some / ?), one per definition when every definition is an Option literal."""
    l = core.op_local(operand)
    if l is None or depth > 6:
        return [("?", None, operand)]
    ds = [d for d in f.defs_of(l) if not f.blocks[d[0]]["cleanup"] and not (d[1] != "term" and d[2].get("place", {}).get("proj"))]
    if len(ds) == 1:
        b, i, d = ds[0]
        if i != "term" and d["k"] == "assign" and d["rv"]["k"] == "use":
            return seed_cases(f, d["rv"]["op"], depth + 1)
        so = none_or_some(f, operand)
        return [(so, None, operand)]
    out = []
    for b, i, d in ds:
        if i != "term" and d["k"] == "assign" and d["rv"]["k"] == "aggregate" and d["rv"].get("path") == OPTION:
            kind = d["rv"]["variant"].lower()
            out.append((kind, b, d["rv"]["ops"][0] if kind == "some" and d["rv"]["ops"] else None))
        else:
            return [("?", None, operand)]
    return out or [("?", None, operand)]


def none_or_some(f, operand):
    l = core.op_local(operand)
    if l is None:
        return "?"
    ds = [d for d in f.defs_of(l) if not f.blocks[d[0]]["cleanup"]]
    if len(ds) == 1 and ds[0][1] != "term" and ds[0][2]["k"] == "assign" and ds[0][2]["rv"]["k"] == "aggregate" and ds[0][2]["rv"].get("path") == OPTION:
        return ds[0][2]["rv"]["variant"].lower()
    if len(ds) == 1 and ds[0][1] != "term" and ds[0][2]["k"] == "assign" and ds[0][2]["rv"]["k"] == "use":
        return none_or_some(f, ds[0][2]["rv"]["op"])
    return "?"


def slice_var_of(f, operand, depth=0):
    """For an operand that is `&mut **p` / Some(&mut **p) return the place (local, proj-string) holding the slice
    reference, e.g. `(*_5)` for a `&mut &mut [u8]` parameter; None when the operand is a sub-slice."""
    p = core.op_place(operand)
    if p is None or depth > 12:
        return None
    l = p["local"]
    ds = [d for d in f.defs_of(l) if not f.blocks[d[0]]["cleanup"]]
    if len(ds) != 1 or ds[0][1] == "term":
        return None
    s = ds[0][2]
    if s["k"] != "assign":
        return None
    rv = s["rv"]
    if rv["k"] == "aggregate" and rv.get("path") == OPTION and rv.get("variant") == "Some":
        return slice_var_of(f, rv["ops"][0], depth + 1)
    if rv["k"] == "ref":
        pl = rv["place"]
        if len(pl["proj"]) == 1 and pl["proj"][0]["k"] == "deref":
            return slice_var_of(f, {"k": "copy", "place": {"local": pl["local"], "proj": []}}, depth + 1)
        return None
    if rv["k"] == "use":
        o = rv["op"]
        op = core.op_place(o)
        if op is not None and op["proj"]:
            # copy (*_5): the slice reference stored behind the caller's `&mut &mut [u8]`
            if len(op["proj"]) == 1 and op["proj"][0]["k"] == "deref":
                return (op["local"], "deref")
            return None
        return slice_var_of(f, o, depth + 1)
    return None


def stores_to(f, var):
    """Blocks assigning the slice variable (e.g. `(*_5) = ...`)."""
    out = []
    for b, i, s in f.iter_stmts():
        if s["k"] == "assign" and not f.blocks[b]["cleanup"] and s["place"]["local"] == var[0] and len(s["place"]["proj"]) == 1 and s["place"]["proj"][0]["k"] == "deref":
            out.append((b, i, s))
    return out


def writes_confined_to_header(F, g, param, limit):
    """Every write through `param` (a &mut [u8]) of local function g lands at constant offsets < limit."""
    for b, i, s in g.iter_stmts():
        if s["k"] != "assign" or g.blocks[b]["cleanup"]:
            continue
        pl = s["place"]
        if pl["local"] == param and pl["proj"] and pl["proj"][0]["k"] == "deref":
            idx = [e for e in pl["proj"] if e["k"] == "index"]
            cidx = [e for e in pl["proj"] if e["k"] == "constindex"]
            okc = all(e.get("offset", 1 << 30) < limit for e in cidx)
            oki = True
            for e in idx:
                ds = g.defs_of(e["local"])
                v = core.op_const_val(ds[0][2]["rv"]["op"]) if len(ds) == 1 and ds[0][1] != "term" and ds[0][2]["rv"]["k"] == "use" else None
                oki = oki and v is not None and v < limit
            if not (okc and oki) or (not idx and not cidx):
                return False, "write at a non-constant or out-of-header offset in %s" % g.loc(b)
    for b, t in g.calls():
        if g.blocks[b]["cleanup"]:
            continue
        for a in t["args"]:
            p = core.op_place(a)
            if p is None or not p["ty"].startswith("&mut "):
                continue
            if flow.resolve_owner(g, a, want_mut=True) != param:
                continue
            cp = core.strip_generics(core.callee_path(t) or "")
            if cp.endswith("index_mut") and len(t["args"]) == 2:
                rl = core.op_local(t["args"][1])
                ds = g.defs_of(rl) if rl is not None else []
                rv = ds[0][2]["rv"] if len(ds) == 1 and ds[0][1] != "term" else None
                if rv and rv["k"] == "aggregate" and "Range" in rv.get("path", ""):
                    vals = [core.op_const_val(o) for o in rv["ops"]]
                    if all(v is not None and v <= limit for v in vals) and vals:
                        continue
                return False, "slicing with a non-constant or out-of-header range in %s" % g.loc(b)
            if cp in ("core::slice::copy_from_slice", "core::slice::len", "core::slice::is_empty"):
                continue
            return False, "passes the buffer mutably to %s" % cp
    return True, ""


def check_zero_fill(chk, F, an, g, call_bb, aux_arg, tag, via=None):
    """`via`: the block in which the seedless case is chosen when the call is shared with the authenticated case; the zero
    fill must then lie on every path to that block, and the region examined is fill .. via .. call."""
    var = slice_var_of(g, aux_arg)
    key = "%s%s" % (g.key, tag)
    chk.ob("X2.unauthenticated-expansion-takes-the-whole-slice", key, var is not None,
           "the buffer handed to the expander without a seed in %s is not the caller's slice variable itself" % g.path, where=g.loc(call_bb))
    if var is None:
        return
    fills = []
    for b, t in g.calls():
        if g.blocks[b]["cleanup"]:
            continue
        cp = core.strip_generics(core.callee_path(t) or "")
        if cp == "core::slice::fill" and len(t["args"]) == 2 and core.op_const_val(t["args"][1]) == 0 and slice_var_of(g, t["args"][0]) == var:
            fills.append(b)
    anchor_bb = via if via is not None else call_bb
    dom = [b for b in fills if g.dominates(b, anchor_bb)]
    chk.ob("X2.zero-fill-before-unauthenticated-expansion", key, len(dom) >= 1,
           "in %s the expander is called without a seed on a buffer that was not zero-filled as a whole on every path before "
           "(fill(0) calls on the same slice: %d, dominating: %d): residue of the caller's buffer would be used as cached tree nodes without any authentication"
           % (g.path, len(fills), len(dom)), where=g.loc(call_bb))
    if not dom:
        return
    fb = dom[-1]
    # between the fill and the call: no re-assignment of the slice variable, only header-confined writers
    between = {b for b in flow.reach_from(g, fb) if call_bb in flow.reach_from(g, b)} - {fb}
    if via is not None:
        between = ({b for b in flow.reach_from(g, fb) if via in flow.reach_from(g, b) or b == via} |
                   {b for b in flow.reach_from(g, via) if call_bb in flow.reach_from(g, b)}) - {fb}
    bad = []
    for b, i, s in stores_to(g, var):
        if b in between or (b == fb and False):
            bad.append("slice variable re-assigned at %s" % g.loc(b))
    hdr = header_len(an)
    for b in sorted(between):
        t = g.blocks[b]["term"]
        if t["k"] != "call" or b == call_bb:
            continue
        for ai, a in enumerate(t["args"]):
            p = core.op_place(a)
            if p is None or not p["ty"].startswith("&mut ") or slice_var_of(g, a) != var:
                continue
            tps = F.call_targets(g, t)
            if not tps or any(tp not in F.fns for tp in tps):
                bad.append("buffer passed mutably to %s" % core.callee_path(t))
                continue
            for tp in tps:
                ok, why = writes_confined_to_header(F, F.fns[tp], ai + 1, hdr)
                if not ok:
                    bad.append("%s: %s" % (tp, why))
    chk.ob("X2.only-header-writes-between-fill-and-expansion", key, not bad,
           "between the zero fill and the unauthenticated expansion in %s the buffer is modified beyond its %d-byte header: %s" % (g.path, hdr, bad), where=g.loc(fb))
    # X3 shrink
    st = stores_to(g, var)
    shr = [(b, i, s) for b, i, s in st if g.dominates(b, fb) or b == fb]
    ex = expr.Expr(F, g)
    ok_shrink = False
    det = "no assignment of the caller's slice before the fill"
    for b, i, s in shr:
        e = ex.of_rvalue(s["rv"], 0)
        calls = [x for x in expr.walk(e) if x[0] == "call"]
        idx = [x for x in calls if x[1].endswith("index_mut") or x[1].endswith("split_at_mut")]
        take = [x for x in calls if x[1].endswith("mem::take") or x[1].endswith("mem::replace")]
        rng = [x for x in expr.walk(e) if x[0] == "adt" and "RangeTo" in str(x[1])]
        lens = [x for x in calls if x[1] in F.fns and any(y[0] == "call" and y[1].endswith("slice::len") for y in expr.walk(x))]
        det = "assigned %s" % (str(e)[:160],)
        if idx and take and lens:
            ok_shrink = True
            chk.note("%s: shrink = %s" % (g.path, lens[0][1]))
    chk.ob("X3.fresh-buffer-shrunk-to-used-length", key, ok_shrink,
           "in %s the caller's slice is not replaced by its own prefix of the length computed by the length routine from the old length before it is filled and marked (%s)" % (g.path, det),
           where=g.loc(fb))


def header_len(an):
    """Constant header length: the byte count the expander reads for the level word."""
    E = an.E
    for b, t in E.calls():
        tps = an.F.call_targets(E, t)
        if tps and tps[0] in an.F.fns and len(t["args"]) == 3:
            v = core.op_const_val(t["args"][1])
            if v is not None and an.F.fns[tps[0]].j["output"]["s"].startswith("core::option::Option<&"):
                return v
    raise AnchorLost("header length (constant byte count read for the level word) not found in %s" % E.path)


def x4_finalize(chk, F, an, tag):
    fin = an.finalize
    n = 0
    for cp, b, k in F.callers_of(fin.path):
        g = F.fns[cp]
        t = g.blocks[b]["term"]
        n += 1
        # the cache filled before: a consumer call on the same Option<T> variable dominates
        owner = aux_var_of(g, an, t["args"][0])
        fills = []
        for cb, ct in g.calls():
            if g.blocks[cb]["cleanup"]:
                continue
            for tp in F.call_targets(g, ct):
                if tp in an.consumers:
                    for pi in an.consumers[tp]:
                        if pi - 1 < len(ct["args"]) and aux_var_of(g, an, ct["args"][pi - 1]) == owner and owner is not None:
                            fills.append(cb)
        ok = any(g.dominates(cb, b) for cb in fills)
        chk.ob("X4.mac-written-after-the-cache-is-filled", g.key + tag, ok,
               "%s writes the MAC (%s) without a preceding tree generation on the same cache variable: the MAC would not cover the cached nodes" % (g.path, fin.path), where=g.loc(b))
        d = core.operand_deps(g, t["args"][1])
        chk.ob("X4.mac-keyed-with-the-keys-own-seed", g.key + tag, any(nm == "seed" for _, nm in d["fields"]),
               "the MAC written in %s is not keyed with the seed member of the private key (fields %s)" % (g.path, sorted(d["fields"])), where=g.loc(b))
    chk.count("mac_writer_call_sites", n)


def x7_mac_covers_all_slots(chk, F, an, tag):
    """The MAC writer absorbs every cache slot (the checker MACs every stored level): the loop that reads the slot
    array runs over all of its indices (a range 0..len / 0..=len-1, or an iterator over the array itself)."""
    fin = an.finalize
    slot_len = None
    for fl in zz.fields_of(F, an.T):
        if fl["name"] == an.slot:
            slot_len = fl["ty"].get("len")
    reads = []
    for b, i, s in fin.iter_stmts():
        if s["k"] != "assign" or fin.blocks[b]["cleanup"]:
            continue
        for pl in [s["rv"].get("place")] if s["rv"]["k"] in ("ref", "rawptr") else []:
            pr = pl["proj"]
            if any(e["k"] == "field" and e.get("name") == an.slot for e in pr):
                idx = [e["local"] for e in pr if e["k"] == "index"]
                reads.append((b, idx[0] if idx else None))
    covered = None
    detail = "no indexed read of the slot array found"
    for b, il in reads:
        if il is None:
            # borrowed as a whole (iter / iter_mut over the array)
            covered = (0, slot_len - 1) if slot_len else None
            detail = "whole array iterated"
            continue
        o = flow.origin(fin, {"k": "copy", "place": {"local": il, "proj": []}})
        # il = copy ((next(..) as Some).0): find the `next` call and its range
        nxt = None
        cur = il
        for _ in range(6):
            ds = [d for d in fin.defs_of(cur) if not fin.blocks[d[0]]["cleanup"]]
            if len(ds) != 1 or ds[0][1] == "term":
                break
            rv = ds[0][2]["rv"]
            if rv["k"] != "use":
                break
            p = core.op_place(rv["op"])
            if p is None:
                break
            if p["proj"]:
                dd = [d for d in fin.defs_of(p["local"]) if not fin.blocks[d[0]]["cleanup"]]
                if len(dd) == 1 and dd[0][1] == "term":
                    nxt = dd[0][2]
                break
            cur = p["local"]
        if nxt is None:
            detail = "loop index of the slot read is not an iterator item"
            continue
        root = chain_root(fin, nxt["args"][0], ("into_iter", "iter", "by_ref"))
        ds = [d for d in fin.defs_of(root) if not fin.blocks[d[0]]["cleanup"]] if root is not None else []
        if len(ds) == 1:
            b0, i0, d0 = ds[0]
            if i0 == "term" and core.strip_generics(core.callee_path(d0) or "").endswith("RangeInclusive::new"):
                a, e = core.op_const_val(d0["args"][0]), core.op_const_val(d0["args"][1])
                covered = (a, e) if a is not None and e is not None else None
                detail = "range %s..=%s" % (a, e)
            elif i0 != "term" and d0["k"] == "assign" and d0["rv"]["k"] == "aggregate" and "ops::range::Range" in d0["rv"].get("path", ""):
                a, e = core.op_const_val(d0["rv"]["ops"][0]), core.op_const_val(d0["rv"]["ops"][1])
                covered = (a, e - 1) if a is not None and e is not None else None
                detail = "range %s..%s" % (a, e)
    ok = covered is not None and slot_len is not None and covered[0] == 0 and covered[1] == slot_len - 1
    chk.ob("X7.mac-writer-covers-every-cache-slot", fin.key + tag, ok,
           "%s absorbs cache slots %s of the %s slots into the MAC (%s) while the checker MACs every stored level: a cache level kept in an uncovered slot "
           "makes the written MAC invalid and the aux data is silently ignored afterwards" % (fin.path, covered, slot_len, detail), where=fin.loc())


# ---------------------------------------------------------------------------------------------- X5 scope
def aux_var_of(g, an, operand, depth=0):
    """The aux variable (local) an operand refers to: a parameter of type &mut Option<T>, or an owned local of
    type Option<T>, followed through reborrows, as_mut() and Some-pattern moves."""
    p = core.op_place(operand)
    if p is None or depth > 16:
        return None
    l = p["local"]
    ty = g.locals[l]["ty"]
    if an.is_optT(ty):
        return l
    if an.is_mut_optT(ty) and 1 <= l <= g.arg_count:
        return l
    ds = [d for d in g.defs_of(l) if not g.blocks[d[0]]["cleanup"]]
    if len(ds) != 1:
        return None
    b, i, d = ds[0]
    if i == "term":
        if (flow.decl_path(d) or "") in flow.VIEW_CALLS and d["args"]:
            return aux_var_of(g, an, d["args"][0], depth + 1)
        return None
    if d["k"] != "assign":
        return None
    rv = d["rv"]
    if rv["k"] in ("ref", "rawptr"):
        return aux_var_of(g, an, {"k": "copy", "place": {"local": rv["place"]["local"], "proj": []}}, depth + 1)
    if rv["k"] in ("use", "cast"):
        o = rv["op"]
        op = core.op_place(o)
        if op is None:
            return None
        return aux_var_of(g, an, {"k": "copy", "place": {"local": op["local"], "proj": []}}, depth + 1)
    return None


def is_none_temp(g, an, operand):
    """`&mut None`: a reference to a temporary that is assigned the None aggregate only."""
    v = aux_var_of(g, an, operand)
    if v is None or 1 <= v <= g.arg_count:
        return False
    ds = [d for d in g.defs_of(v) if not g.blocks[d[0]]["cleanup"]]
    return bool(ds) and all(i != "term" and d["k"] == "assign" and d["rv"]["k"] == "aggregate" and d["rv"].get("variant") == "None" for b, i, d in ds)


def clears_of(g, an, var):
    out = []
    for b, i, s in g.iter_stmts():
        if s["k"] != "assign" or g.blocks[b]["cleanup"]:
            continue
        pl = s["place"]
        if pl["local"] != var:
            continue
        whole = (not pl["proj"]) or (len(pl["proj"]) == 1 and pl["proj"][0]["k"] == "deref")
        if not whole:
            continue
        if none_or_some(g, s["rv"]["op"]) == "none" if s["rv"]["k"] == "use" else (s["rv"]["k"] == "aggregate" and s["rv"].get("variant") == "None"):
            out.append(b)
    return out


def attached_state(g, an, var):
    """Forward may-analysis: set of blocks at whose END the aux variable may still be attached (M).
    Entry: attached (parameters) / attached from its defining call (owned locals).  A clear detaches for good
    (re-attachment = any other whole assignment)."""
    clears = set(clears_of(g, an, var))
    reatt = set()
    for b, i, d in g.defs_of(var):
        if g.blocks[b]["cleanup"]:
            continue
        if b not in clears:
            reatt.add(b)
    n = len(g.blocks)
    IN = [False] * n
    OUT = [False] * n
    start_attached = 1 <= var <= g.arg_count
    work = deque(range(n))
    IN[0] = start_attached
    while work:
        b = work.popleft()
        if g.blocks[b]["cleanup"]:
            continue
        i = IN[b] or (b == 0 and start_attached)
        o = i
        if b in clears:
            o = False
        if b in reatt:
            o = True
        if o != OUT[b] or True:
            OUT[b] = o
            for s in g.succ[b]:
                # a clear inside a block happens before the terminator: the state at the call terminator of the
                # same block is already detached
                if o and not IN[s]:
                    IN[s] = True
                    work.append(s)
    return IN, OUT, clears


def first_value(e):
    """Value of an index expression in the first iteration of the loop that drives it, for the iterator
    shapes enumerate() / enumerate().skip(k) / a range starting at a constant; None when unknown."""
    if e[0] == "const":
        return e[1]
    if e[0] == "bin" and e[1] in ("Sub", "Add"):
        a, b = first_value(e[2]), first_value(e[3])
        if a is None or b is None:
            return None
        return a - b if e[1] == "Sub" else a + b
    if e[0] == "field" and e[2] == "0":
        it = e[1]
        # (next(ITER) as Some).0 . 0
        for x in expr.walk(it):
            if x[0] == "call" and x[1].endswith("::next"):
                chain = x[2][0] if x[2] else None
                skip = 0
                seen_enum = False
                for _ in range(10):
                    if chain is None:
                        break
                    if chain[0] in ("ref", "deref"):
                        chain = chain[1]
                        continue
                    if chain[0] == "var":
                        return None
                    if chain[0] == "adt" and chain[1] in ("core::ops::range::Range", "core::ops::range::RangeInclusive", "core::ops::range::RangeFrom"):
                        # a plain integer range: the item itself is the index
                        st = chain[3][0] if chain[3] else None
                        return st[1] + skip if st is not None and st[0] == "const" and isinstance(st[1], int) else None
                    if chain[0] != "call":
                        break
                    last = chain[1].rsplit("::", 1)[-1]
                    if last == "skip" and len(chain[2]) == 2 and chain[2][1][0] == "const" and not seen_enum:
                        skip += chain[2][1][1]
                    elif last == "enumerate":
                        return skip  # numbering starts at 0 whatever lies below; `skip` items were dropped above it
                    elif last in ("into_iter", "by_ref"):
                        pass  # identity on iterators
                    else:
                        return None
                    chain = chain[2][0] if chain[2] else None
                return None
    return None


def x5_scope(chk, F, an, tag):
    A = Api(F)
    ka = c03.key_anchors(F, A)
    K = ka["K"]
    seed_ty = None
    for fl in zz.fields_of(F, K):
        if fl["name"] == "seed":
            seed_ty = fl["ty"].get("path")
    if seed_ty is None:
        raise AnchorLost("seed member of %s not found" % K)
    id_types = {p for p, a in F.adts.items() if p != K and any(fl["ty"].get("path") == seed_ty for fl in zz.fields_of(F, p))}
    chk.note("tree identity types: %s" % sorted(id_types))

    def id_params(f):
        return [i + 1 for i, t in enumerate(f.j.get("inputs", [])) if t.get("k") == "ref" and t["ty"].get("path") in id_types]

    # root-seed routine: method of K returning an identity type
    roots = [p for p, f in F.fns.items() if f.j.get("output", {}).get("path") in id_types and len(f.j.get("inputs", [])) == 1
             and f.j["inputs"][0].get("k") == "ref" and f.j["inputs"][0]["ty"].get("path") == K]
    sites = []
    for gp, g in sorted(F.fns.items()):
        for b, t in g.calls():
            if g.blocks[b]["cleanup"]:
                continue
            tps = [tp for tp in F.call_targets(g, t) if tp in an.consumers]
            if not tps:
                continue
            h = F.fns[tps[0]]
            for pi in an.consumers[h.path]:
                if pi - 1 >= len(t["args"]):
                    continue
                a = t["args"][pi - 1]
                if is_none_temp(g, an, a):
                    chk.count("cache_uses_detached_by_construction", 1)
                    continue
                var = aux_var_of(g, an, a)
                sites.append((g, b, t, h, var))
    chk.count("cache_use_sites", len(sites))
    builders_ok = {}
    for g, b, t, h, var in sites:
        key = "%s->%s%s" % (g.key, h.key, tag)
        if var is None:
            chk.ob("X5.cache-variable-resolved", key, False, "cannot resolve the cache variable handed to %s in %s" % (h.path, g.path), where=g.loc(b))
            continue
        IN, OUT, clears = attached_state(g, an, var)
        if not IN[b] and not (b == 0 and 1 <= var <= g.arg_count):
            chk.count("cache_uses_after_detach", 1)
            continue
        hid = id_params(h)
        if not hid and whole_key_param(F, h, K, id_types):
            # orchestrators receive the whole key: their own cache uses are classified inside them
            chk.ob("X5.cache-used-for-the-top-tree-only", key, True, "", where=g.loc(b))
            chk.note("%s: cache use -> %s : whole key (classified inside)" % (g.path, h.path))
            continue
        if not hid:
            # leaf readers take the identity implicitly from their own key parameter: h must have one
            chk.ob("X5.tree-routine-has-an-identity-parameter", key, False,
                   "%s receives the cache but no tree identity (private key / seed+identifier) parameter" % h.path, where=g.loc(b))
            continue
        cls, info = classify_identity(F, an, g, t["args"][hid[0] - 1], id_params(g), roots, id_types)
        chk.note("%s: cache use -> %s : identity %s %s" % (g.path, h.path, cls, (brief(info[1]) if cls == "level" else info) if cls != "pass" else ""))
        if cls == "pass" or cls == "top":
            chk.ob("X5.cache-used-for-the-top-tree-only", key, True, "", where=g.loc(b))
            continue
        if cls != "level":
            chk.ob("X5.cache-used-for-the-top-tree-only", key, False,
                   "in %s the cache is handed to %s together with a tree identity that is neither the caller's own identity parameter, the root tree, nor an element of the key vector (%s)"
                   % (g.path, h.path, info), where=g.loc(b))
            continue
        vec_field, idx_e = info
        loops = [(hd, body) for hd, body in g.natural_loops() if b in body]
        if loops:
            hd, body = max(loops, key=lambda x: len(x[1]))
            fv = first_value(idx_e)
            # detached on every path from the use back to itself
            back = reaches_without_clear(g, b, b, clears, body)
            chk.ob("X5.level-loop-uses-cache-for-index-0-only", key, fv == 0 and not back,
                   "in the level loop of %s the cache is used with key-vector element %s: first-iteration index %s (must be 0), and the cache %s detached on every path back to this use "
                   "- the top tree's cached nodes would be used for a lower tree" % (g.path, brief(idx_e), fv, "is not" if back else "is"), where=g.loc(b))
        else:
            # index len-1 (or other): accepted only if every caller obtained the key from a builder called with the same cache
            ok, why = callers_use_builder(F, an, g, vec_field, builders_ok, chk, tag)
            chk.ob("X5.bottom-level-use-relies-on-builder-detach", key, ok,
                   "in %s the cache is used with key-vector element %s, which is the top tree only for single-level keys; %s" % (g.path, brief(idx_e), why), where=g.loc(b))


def brief(e, depth=0):
    if not isinstance(e, tuple) or depth > 6:
        return "…"
    k = e[0]
    if k == "const":
        return str(e[1])
    if k == "bin":
        return "(%s %s %s)" % (brief(e[2], depth + 1), e[1], brief(e[3], depth + 1))
    if k == "call":
        return "%s(%s)" % (e[1].rsplit("::", 1)[-1], ", ".join(brief(a, depth + 1) for a in e[2]))
    if k == "field":
        return "%s.%s" % (brief(e[1], depth + 1), e[2])
    if k == "variant":
        return brief(e[1], depth + 1)
    if k == "arg":
        return "arg%d" % e[1]
    if k == "var":
        return "_%d" % e[1]
    return k


def whole_key_param(F, h, K, id_types):
    for t in h.j.get("inputs", []):
        if t.get("k") != "ref":
            continue
        p = t["ty"].get("path")
        if p == K:
            return True
        if p in F.adts and any(any(x in id_types for x in F.contained_adts(fl["ty"])) for fl in zz.fields_of(F, p)):
            return True
    return False


def reaches_without_clear(g, src, dst, clears, body):
    """Is there a path src -> ... -> dst (at least one edge, inside `body`) on which no block clears the cache?
    A clear in the source block itself happens before its terminator and does not count."""
    seen = set()
    dq = deque()
    for s in g.succ[src]:
        if s in body:
            dq.append(s)
    while dq:
        b = dq.popleft()
        if b in seen:
            continue
        seen.add(b)
        if b == dst:
            return True
        if b in clears or g.blocks[b]["cleanup"]:
            continue
        for s in g.succ[b]:
            if s in body:
                dq.append(s)
    return False


def classify_identity(F, an, g, operand, gid, roots, id_types):
    o = flow.origin(g, operand)
    if o[0] == "arg" and o[1] in gid:
        return "pass", o[1]
    if o[0] == "call":
        t = o[2]
        tps = F.call_targets(g, t)
        cp = core.strip_generics(core.callee_path(t) or "")
        if tps and tps[0] in roots:
            return "top", tps[0]
        if cp.endswith("::index_mut") or cp.endswith("::index") or cp.endswith("::get_mut") or cp.endswith("::get"):
            base = flow.resolve_owner_path(g, t["args"][0])
            ex = expr.Expr(F, g)
            ie = ex.of_operand(t["args"][1])
            if ie == ("const", 0):
                return "top", "element 0"
            return "level", (base, ie)
    # built locally from the caller's identity parameters only
    p = core.op_place(operand)
    if p is not None:
        own = flow.resolve_owner(g, operand)
        if own is not None:
            d = core.Slice(g).deps([own])
            idx_calls = [1 for b, t in d["calls"] if core.strip_generics(core.callee_path(t) or "").rsplit("::", 1)[-1] in ("index", "index_mut", "get", "get_mut")]
            if gid and (set(gid) & d["args"]) and not idx_calls and g.locals[own]["ty"].get("path") in id_types:
                return "pass", "built from parameters %s" % sorted(set(gid) & d["args"])
            if g.locals[own]["ty"].get("path") in id_types:
                # single definition by a root call stored in a local
                ds = [x for x in g.defs_of(own) if not g.blocks[x[0]]["cleanup"]]
                if len(ds) == 1 and ds[0][1] == "term" and F.call_targets(g, ds[0][2]) and F.call_targets(g, ds[0][2])[0] in roots:
                    return "top", F.call_targets(g, ds[0][2])[0]
    return "unknown", str(o[:2])


def callers_use_builder(F, an, g, vec_field, memo, chk, tag):
    """Every caller of g passes (a) a key value produced by a builder b that received the same cache variable and
    (b) b detaches the cache before it pushes a second level."""
    callers = [c for c in F.callers_of(g.path) if c[2] == "call"]
    if not callers:
        return False, "no caller found"
    if vec_field is None or not vec_field[1]:
        return False, "key vector is not a member of a parameter"
    kparam = vec_field[0]
    fieldname = vec_field[1][-1]
    for cp, cb, _ in callers:
        c = F.fns[cp]
        t = c.blocks[cb]["term"]
        auxps = an.consumers.get(g.path, [])
        cvar = aux_var_of(c, an, t["args"][auxps[0] - 1]) if auxps else None
        korg = key_origin(c, t["args"][kparam - 1])
        if korg is None:
            return False, "caller %s does not obtain the key from a single call" % cp
        bt = korg
        btp = F.call_targets(c, bt)
        if not btp or btp[0] not in an.consumers:
            return False, "caller %s: the key comes from %s, which does not receive the cache" % (cp, core.callee_path(bt))
        bfn = F.fns[btp[0]]
        bvar = aux_var_of(c, an, bt["args"][an.consumers[bfn.path][0] - 1])
        if bvar is None or bvar != cvar:
            return False, "caller %s: builder and signer receive different cache variables" % cp
        if bfn.path not in memo:
            memo[bfn.path] = builder_detaches(F, an, bfn, fieldname)
        ok, why = memo[bfn.path]
        chk.ob("X5.builder-detaches-before-second-level", bfn.key + tag, ok,
               "%s: %s - a multi-level key would reach the bottom-level signer with the top tree's cache still attached" % (bfn.path, why), where=bfn.loc())
        if not ok:
            return False, "builder %s: %s" % (bfn.path, why)
    return True, ""


def key_origin(c, operand, depth=0):
    """Call term producing the key value behind `&mut key`, through `?`, map_err and moves."""
    own = flow.resolve_owner(c, operand)
    if own is None:
        return None
    cur = own
    for _ in range(12):
        ds = [d for d in c.defs_of(cur) if not c.blocks[d[0]]["cleanup"]]
        if len(ds) != 1:
            return None
        b, i, d = ds[0]
        if i == "term":
            dp = flow.decl_path(d) or ""
            if dp in flow.RESULT_PRESERVING or dp == "core::ops::try_trait::Try::branch" or dp in flow.VIEW_CALLS:
                p = core.op_place(d["args"][0])
                if p is None:
                    return None
                cur = p["local"]
                continue
            return d
        if d["k"] != "assign" or d["rv"]["k"] not in ("use",):
            return None
        p = core.op_place(d["rv"]["op"])
        if p is None:
            return None
        cur = p["local"]
    return None


def builder_detaches(F, an, bfn, fieldname):
    var = an.consumers[bfn.path][0]
    IN, OUT, clears = attached_state(bfn, an, var)
    pushes = []
    for b, t in bfn.calls():
        if bfn.blocks[b]["cleanup"]:
            continue
        cp = core.strip_generics(core.callee_path(t) or "")
        if cp.rsplit("::", 1)[-1] in ("push", "extend_from_slice", "insert", "extend") and t["args"]:
            op = flow.resolve_owner_path(bfn, t["args"][0], want_mut=True)
            if op is not None and op[1] and op[1][-1] == fieldname:
                pushes.append(b)
    inloop = [b for b in pushes if bfn.in_cycle(b)]
    outloop = [b for b in pushes if not bfn.in_cycle(b)]
    if len(outloop) > 1:
        return False, "more than one level is pushed outside the level loop (%d pushes)" % len(outloop)
    bad = [b for b in inloop if attached_at_call(bfn, b, IN, clears)]
    if bad:
        return False, "a further level is pushed (%s) while the cache may still be attached" % bfn.loc(bad[0])
    return True, "in-loop pushes: %d, all after a detach" % len(inloop)


def attached_at_call(g, b, IN, clears):
    if b in clears:
        return False
    return IN[b]


# ---------------------------------------------------------------------------------------------- driver
def run_config(chk, ctx, name):
    F = ctx.facts(name)
    A = Api(F)
    chk.configs.append(name)
    tag = "" if name == "default" else "[%s]" % name
    an = Anchors(F, A)
    chk.note("%s: cache type %s (slots `%s`), expander %s, gates %s, MAC writer %s, %d cache-receiving functions"
             % (name, an.T, an.slot, an.E.path, an.gates, an.finalize.path, len(an.consumers)))
    sig = x1_gate(chk, F, an, tag)
    if sig is not None:
        x2_fresh(chk, F, an, sig, tag)
    x4_finalize(chk, F, an, tag)
    x7_mac_covers_all_slots(chk, F, an, tag)
    x5_scope(chk, F, an, tag)
    auxfns = set(F.reachable(an.gates + [an.finalize.path] + an.accessors + [an.E.path]))
    # X8: the MAC key is the hash of the prefix and the *whole* seed, the MAC is the keyed-hash construction over the level
    # word and the cached levels (reference preimages DAUX / HMAC-* / AUX-MAC of the HL engine, closed world over the aux
    # routines): a key that ignores part of the seed would authenticate another key's buffer
    from . import hlref
    S_, sessions = hlref.analyse_sessions(F)
    mine = [x for x in sessions if x[0].path in auxfns]
    hlref.closed_world(chk, F, mine, tag, "X8")
    hlref.presence(chk, mine, {"DAUX": 1, "HMAC-IPAD": 1, "HMAC-OPAD": 1, "AUX-MAC": 1}, tag, "X8")
    # X6
    entries = A.entries_keygen() + A.entries_sign()
    pf.run(chk, F, A, entries, "aux:" + name, allow_recursion=("lms::helper::get_tree_element",), tag=tag, only_fns=auxfns)


def run(chk, ctx):
    chk.explanation = __doc__.split("Decided", 1)[1].split("Not decided")[0].strip()
    chk.not_decided = "that a cached node equals the recomputed node (equality of outputs with and without aux data over runtime values); timing of the MAC comparison"
    chk.trusted_base = ["rustc MIR construction", "subtle::ConstantTimeEq / slice equality compare whole slices of equal length", "core::slice::fill writes every element",
                        "reference preimages of the MAC key and the keyed hash as transcribed in rules/hlref.py"]
    configs = ["default"] if ctx.tier == "quick" else ["default", "std", "fast_verify"]
    for name in configs:
        run_config(chk, ctx, name)
    chk.floor("cache_constructors", 2)
    chk.floor("unauthenticated_expansions", 1)
    chk.floor("authenticated_expansions", 1)
    chk.floor("cache_use_sites", 5)
    chk.floor("mac_writer_call_sites", 1)
