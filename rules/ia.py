"""IA: forward interval analysis (abstract interpretation) over the MIR facts.

Domain: integer / boolean places -> [lo, hi] (Python ints); places are locals with field /
variant paths; everything else is unknown.  Features: checked-arithmetic pairs, comparison
tracking with branch refinement (through copies), threshold widening on loops, `Range`
iteration summaries, field value sets for constructor-only integer fields, symbolic
associated constants bound to the hull over all impls, on-demand context-sensitive
summaries for crate-local callees, a table of summaries for `core` / `tinyvec` callees.

It never executes library code: it propagates intervals through MIR statements.  Whatever it
cannot prove is *not* assumed.
"""
from collections import deque

from . import core, flow

INT_RANGES = {
    "u8": (0, 2**8 - 1), "u16": (0, 2**16 - 1), "u32": (0, 2**32 - 1), "u64": (0, 2**64 - 1),
    "u128": (0, 2**128 - 1), "usize": (0, 2**64 - 1),
    "i8": (-2**7, 2**7 - 1), "i16": (-2**15, 2**15 - 1), "i32": (-2**31, 2**31 - 1), "i64": (-2**63, 2**63 - 1),
    "i128": (-2**127, 2**127 - 1), "isize": (-2**63, 2**63 - 1), "bool": (0, 1),
}
INT_BITS = {"u8": 8, "u16": 16, "u32": 32, "u64": 64, "u128": 128, "usize": 64, "i8": 8, "i16": 16, "i32": 32, "i64": 64, "i128": 128, "isize": 64}
SLICE_LEN_MAX = 2**63 - 1


def ty_range(ty):
    if ty is None:
        return None
    s = ty["s"] if isinstance(ty, dict) else ty
    return INT_RANGES.get(s)


def join(a, b):
    if a is None or b is None:
        return None
    return (min(a[0], b[0]), max(a[1], b[1]))


def meet(a, b):
    if a is None:
        return b
    if b is None:
        return a
    lo, hi = max(a[0], b[0]), min(a[1], b[1])
    if lo > hi:
        return None  # infeasible; callers treat as "no refinement possible"
    return (lo, hi)


def clip(iv, rng):
    """Interval of a machine value of range rng computed mathematically as iv (wraps if outside)."""
    if iv is None or rng is None:
        return rng
    if iv[0] >= rng[0] and iv[1] <= rng[1]:
        return iv
    return rng


def bits_of(v):
    return v.bit_length()


class State:
    __slots__ = ("v", "cmp", "copy", "arr", "copy_after", "ge")

    def __init__(self):
        self.copy_after = None
        self.ge = set()  # (ka, kb): value at ka >= value at kb
        self.arr = {}  # local -> tuple of ints (constant integer arrays)
        self.v = {}  # key -> (lo, hi)
        self.cmp = {}  # bool key -> (op, akey/None, aval, bkey/None, bval)
        self.copy = {}  # key -> source key

    def clone(self):
        s = State()
        s.v = dict(self.v)
        s.cmp = dict(self.cmp)
        s.copy = dict(self.copy)
        s.arr = dict(self.arr)
        s.ge = set(self.ge)
        return s

    def join(self, o):
        s = State()
        s.ge = self.ge & o.ge
        for k, a in self.arr.items():
            if o.arr.get(k) == a:
                s.arr[k] = a
        for k, a in self.v.items():
            b = o.v.get(k)
            if b is not None:
                s.v[k] = (min(a[0], b[0]), max(a[1], b[1]))
            elif payload_vacuous(k, o.v):
                s.v[k] = a
        for k, b in o.v.items():
            if k not in self.v and payload_vacuous(k, self.v):
                s.v[k] = b
        for k, a in self.cmp.items():
            b = o.cmp.get(k)
            if b is not None and (b[0], b[1], b[3]) == (a[0], a[1], a[3]):
                s.cmp[k] = (a[0], a[1], join(a[2], b[2]), a[3], join(a[4], b[4]))
        for k, a in self.copy.items():
            if o.copy.get(k) == a:
                s.copy[k] = a
        return s

    def leq(self, o):
        """self ⊑ o (o is at least as imprecise)"""
        for k, b in o.v.items():
            a = self.v.get(k)
            if a is None:
                if payload_vacuous(k, self.v):
                    continue
                return False
            if a[0] < b[0] or a[1] > b[1]:
                return False
        for k, b in o.cmp.items():
            a = self.cmp.get(k)
            if a is None or (b[0], b[1], b[3]) != (a[0], a[1], a[3]):
                return False
            for x, y in ((a[2], b[2]), (a[4], b[4])):
                if y is not None and (x is None or x[0] < y[0] or x[1] > y[1]):
                    return False
        for k, b in o.copy.items():
            if self.copy.get(k) != b:
                return False
        for k, b in o.arr.items():
            if self.arr.get(k) != b:
                return False
        if not (o.ge <= self.ge):
            return False
        return True

    def kill(self, key):
        """A place (and everything below it) was overwritten."""
        l, path = key
        if not path:
            self.arr.pop(l, None)
        if self.ge:
            self.ge = {(a, b) for (a, b) in self.ge
                       if not (a[0] == l and a[1][: len(path)] == path) and not (b[0] == l and b[1][: len(path)] == path)}
        for k in [k for k in self.v if k[0] == l and k[1][: len(path)] == path]:
            del self.v[k]
        for k in [k for k in self.cmp if k[0] == l and k[1][: len(path)] == path]:
            del self.cmp[k]
        dead = []
        for k, c in self.cmp.items():
            if (c[1] is not None and c[1][0] == l and c[1][1][: len(path)] == path) or (
                c[3] is not None and c[3][0] == l and c[3][1][: len(path)] == path
            ):
                dead.append(k)
        for k in dead:
            del self.cmp[k]
        for k in [k for k, s in self.copy.items() if (k[0] == l and k[1][: len(path)] == path) or (s[0] == l and s[1][: len(path)] == path)]:
            del self.copy[k]


import re as _re

AV_MAX_LEN = 65535  # tinyvec::ArrayVec { len: u16, .. }
_AV_RE = _re.compile(r"^tinyvec::arrayvec::ArrayVec<\[.*; (\d+)\]>$")
_ARR_RE = _re.compile(r"^\[.*; (\d+)\]$")


def strip_refs(ty_s):
    while True:
        if ty_s.startswith("&mut "):
            ty_s = ty_s[5:]
        elif ty_s.startswith("&"):
            ty_s = ty_s[1:].lstrip()
            if ty_s.startswith("'"):
                ty_s = ty_s.split(" ", 1)[1] if " " in ty_s else ty_s
            if ty_s.startswith("mut "):
                ty_s = ty_s[4:]
        else:
            return ty_s


def type_len(ty_s):
    """Length interval implied by a type alone: arrays exact, ArrayVec 0..capacity, slices unknown."""
    t = strip_refs(ty_s)
    m = _ARR_RE.match(t)
    if m:
        n = int(m.group(1))
        return (n, n)
    m = _AV_RE.match(t)
    if m:
        return (0, min(int(m.group(1)), AV_MAX_LEN))
    if t.startswith("generic_array::GenericArray<"):
        bits = _re.findall(r"\bB([01])\b", t)
        if bits and "UTerm" in t:
            n = int("".join(bits), 2)
            return (n, n)
    if t.startswith("util::ArrayVecZeroize<"):
        mm = _re.search(r", (\d+)>$", t)
        if mm:
            return (0, min(int(mm.group(1)), AV_MAX_LEN))
    if t.startswith("[") and t.endswith("]") and ";" not in t.rsplit("]", 1)[0].rsplit("[", 1)[-1]:
        return (0, SLICE_LEN_MAX)
    return None


def type_cap(ty_s):
    """Usable capacity: tinyvec's ArrayVec stores its length in a u16, so no more than 65535 elements can
    ever be held whatever the backing array's size (set_len / push panic beyond that)."""
    t = strip_refs(ty_s)
    m = _AV_RE.match(t)
    if m:
        return min(int(m.group(1)), AV_MAX_LEN)
    m = _ARR_RE.match(t)
    if m:
        return int(m.group(1))
    return None


OK_VARIANTS = ("@Some", "@Ok", "@Continue")
ERR_VARIANTS = ("@None", "@Err", "@Break")


def join_returns(rets):
    """Join of the return summaries of several analyses of one function (same rule as for several return blocks)."""
    ret = None
    for cur in rets:
        if ret is None:
            ret = dict(cur)
            continue
        a_, b_ = {(0, k): v for k, v in ret.items()}, {(0, k): v for k, v in cur.items()}
        new = {}
        for k, v in ret.items():
            if k in cur:
                new[k] = join(v, cur[k]) if (v is not None and cur[k] is not None) else None
            elif payload_vacuous((0, k), b_):
                new[k] = v
        for k, v in cur.items():
            if k not in ret and payload_vacuous((0, k), a_):
                new[k] = v
        ret = new
    return ret or {}


def payload_vacuous(k, other):
    """Facts about the payload of variant V of a value are vacuously true in a state where that value
    is known to be the other variant."""
    path = k[1]
    for j, comp in enumerate(path):
        if isinstance(comp, str) and comp in OK_VARIANTS:
            okv = other.get((k[0], path[:j] + ("#ok",)))
            return okv == (0, 0)
        if isinstance(comp, str) and comp in ERR_VARIANTS:
            okv = other.get((k[0], path[:j] + ("#ok",)))
            return okv == (1, 1)
    return False


def place_key(p, locals_=None):
    """Trackable key of a place: local + path of fields / downcasts; None if it goes through a
    mutable pointer or an index.  A leading deref of a *shared* reference local is allowed: the
    referent cannot change while the reference is live (no interior mutability in this crate, C09-E1)."""
    path = []
    for n, e in enumerate(p["proj"]):
        k = e["k"]
        if k == "deref" and n == 0 and locals_ is not None:
            lt = locals_[p["local"]]["ty"]
            if lt.get("k") == "ref":
                # references are transparent: facts about the referent are kept on the reference local.
                # For `&mut` this is sound because the reference is exclusive; facts are dropped when a
                # reborrow of it is handed to a call (see Analyzer.call) or it is itself mutably borrowed.
                continue
            return None
        if k == "field":
            path.append(e.get("name", str(e["i"])) if "adt" in e else str(e["i"]))
        elif k == "downcast":
            path.append("@" + str(e.get("variant", e["idx"])))
        else:
            return None
    return (p["local"], tuple(path))


class Site:
    """A proof goal found during analysis."""

    __slots__ = ("fn", "bb", "kind", "desc", "proved", "detail", "ctx")

    def __init__(self, fn, bb, kind, desc, proved, detail, ctx):
        self.fn, self.bb, self.kind, self.desc, self.proved, self.detail, self.ctx = fn, bb, kind, desc, proved, detail, ctx


class Analyzer:
    def __init__(self, F, max_ctx=24):
        self.F = F
        self.max_ctx = max_ctx
        self.memo = {}  # (fn path, ctx) -> ret dict
        self.in_progress = set()
        self.sites = {}  # (fn path, bb) -> list[Site]
        self.ctx_count = {}
        self.extern_seen = {}
        self.trip = {}  # (fn, bb of `next` call) -> max trip count of the driven loop
        self.trip_seen = set()
        self.overrides = {}  # (fn path, local) -> interval assumed for a call result (used for partitioned queries)
        self.cmp_obs = {}  # (fn, bb of switch) -> operand intervals of the deciding comparison
        self.add_obs = {}  # (fn, bb of an Overflow:Add assert) -> (interval of a, interval of b)
        self.def_obs = {}  # (fn, local, bb) -> interval of an integer local on leaving a block that defines it (joined over contexts)
        self.incr = {}  # (fn, bb of push/extend) -> max length increment
        self.obs = {}
        self.ctx_log = {}  # fn path -> set of analysed contexts (kept across partitions; read by obligations' requirements)
        self.call_ok_obs = {}  # (fn, bb of a call to a local fn) -> join over contexts of the `#ok` fact of its result (None = unknown)
        self.lossy_obs = {}  # (fn, kind, target type) -> (exact interval, target range): narrowing casts / saturating / wrapping ops that may lose value
        self.agg_obs = {}
        self.callarg_obs = {}  # (caller, block) -> [interval of each integer argument] (joined over contexts; None = unknown)
        self.len_obs = {}  # (adt, field) -> join of observed lengths at every struct literal (None = unknown somewhere)
        self.field_lens = {}  # established field length sets (see establish_field_lens)
        self._recording = False
        self._cur_locals = None
        self._len_safe = set()
        self._mut_borrowed = set()
        self.assoc = self._assoc_consts()
        self.field_sets = {}
        self.field_sets = self._field_sets()
        # summaries computed while the field sets were still empty are stale
        self.memo = {}
        self.sites = {}
        self.ctx_count = {}

    # ------------------------------------------------------------------ global tables
    def _assoc_consts(self):
        """Hull of every trait associated const over the local impls: `H::OUTPUT_SIZE` etc."""
        out = {}
        for p, c in self.F.consts.items():
            if c.get("impl") and c["impl"].get("trait") and "val" in c:
                key = "%s::%s" % (c["impl"]["trait"], c["name"])
                v = c["val"]
                out[key] = join(out[key], (v, v)) if key in out else (v, v)
        return out

    def _field_sets(self):
        """(adt, field) -> interval for integer fields that are only ever written by struct literals
        whose operands are constants or parameters bound to constants at all call sites."""
        F = self.F
        writes = {}  # (adt, field) -> list of interval or None(unknown)
        # call-site argument intervals per function (constants only)
        def const_args(path):
            res = None
            for caller, b, k in F.callers_of(path):
                if k != "call":
                    continue
                t = F.fns[caller].blocks[b]["term"]
                vals = []
                for a in t["args"]:
                    cv = core.op_const_val(a)
                    if cv is not None:
                        vals.append((cv, cv))
                    else:
                        # value produced by a call to a local const-evaluable fn with const args
                        v = self._try_const_operand(F.fns[caller], a)
                        if v is None and ty_range({"s": (core.op_place(a) or {}).get("ty", "")}) is not None:
                            # an integer chosen on several paths (e.g. by a match): observed when the caller is analysed
                            v = ("observe-sites", None, [(caller, b, len(vals))])
                        vals.append(v)
                if res is None:
                    res = vals
                else:
                    res = [jn(x, y) for x, y in zip(res, vals)]
            return res

        def jn(x, y):
            if x is None or y is None:
                return None
            if x[0] == "observe-sites" or y[0] == "observe-sites":
                xi, xs = (x[1], x[2]) if x[0] == "observe-sites" else (x, [])
                yi, ys = (y[1], y[2]) if y[0] == "observe-sites" else (y, [])
                iv = xi if yi is None else (yi if xi is None else join(xi, yi))
                return ("observe-sites", iv, xs + ys)
            return join(x, y)

        for f in F.fns.values():
            for b, i, s in f.iter_stmts():
                if s["k"] != "assign":
                    continue
                rv = s["rv"]
                if rv["k"] == "aggregate" and rv.get("agg") == "adt" and rv.get("crate") == core.LOCAL_CRATE:
                    ca = None
                    for idx, (fname, op) in enumerate(zip(rv["fields"], rv["ops"])):
                        key = (rv["path"], fname)
                        cv = core.op_const_val(op)
                        if cv is not None:
                            writes.setdefault(key, []).append((cv, cv))
                            continue
                        org = flow.origin(f, op)
                        if org[0] == "arg":
                            l = org[1]
                            if ca is None:
                                ca = const_args(f.path) or []
                            iv = ca[l - 1] if l - 1 < len(ca) else None
                            writes.setdefault(key, []).append(iv)
                        elif org[0] == "const" and core.op_const_val(org[1]) is not None:
                            cv = core.op_const_val(org[1])
                            writes.setdefault(key, []).append((cv, cv))
                        elif org[0] == "field" and org[2] == fname and rv["path"] in f.locals[org[1]]["ty"]["s"]:
                            # copy / clone of the same field of another value of this type: adds no new value
                            pass
                        else:
                            writes.setdefault(key, []).append(("observe", f.path))
                # direct field writes
                pr = s["place"]["proj"]
                fl = [e for e in pr if e["k"] == "field" and "adt" in e]
                if fl:
                    e = fl[-1]
                    if pr[-1] is e:
                        cv = core.op_const_val(rv["op"]) if rv["k"] == "use" else None
                        writes.setdefault((e["adt"], e["name"]), []).append((cv, cv) if cv is not None else None)
            for b, t in f.calls():
                # a call whose destination is a field place
                pr = t["dest"]["proj"]
                fl = [e for e in pr if e["k"] == "field" and "adt" in e]
                if fl and pr[-1] is fl[-1]:
                    writes.setdefault((fl[-1]["adt"], fl[-1]["name"]), []).append(None)
        # a &mut borrow of the field lets anyone write it
        for f in F.fns.values():
            for b, i, s in f.iter_stmts():
                if s["k"] == "assign" and s["rv"]["k"] in ("ref", "rawptr") and s["rv"].get("bk") == "mut":
                    pr = s["rv"]["place"]["proj"]
                    for e in pr:
                        if e["k"] == "field" and "adt" in e:
                            writes.setdefault((e["adt"], e["name"]), []).append(None)
        out = {}
        pending = {}
        for key, ws in writes.items():
            if ws and all(w is not None for w in ws):
                if any(w[0] in ("observe", "observe-sites") for w in ws):
                    pending[key] = ws
                    continue
                iv = ws[0]
                for w in ws[1:]:
                    iv = join(iv, w)
                out[key] = iv
        # second stage: operands that are neither constants nor constant-bound parameters are bounded by
        # analysing the constructing function with unknown arguments and observing the operand's interval
        self.field_sets = out
        for key, ws in pending.items():
            iv = None
            okk = True
            for w in ws:
                if w[0] == "observe":
                    fp = w[1]
                    g = F.fns[fp]
                    self.call_local(fp, [None] * g.arg_count)
                    o = self.agg_obs.get((key[0], key[1], fp))
                    if o is None:
                        okk = False
                        break
                    iv = o if iv is None else join(iv, o)
                elif w[0] == "observe-sites":
                    if w[1] is not None:
                        iv = w[1] if iv is None else join(iv, w[1])
                    for caller, cb, idx in w[2]:
                        g = F.fns[caller]
                        self.call_local(caller, [None] * g.arg_count)
                        o = (self.callarg_obs.get((caller, cb)) or [None] * (idx + 1))[idx]
                        if o is None:
                            okk = False
                            break
                        iv = o if iv is None else join(iv, o)
                    if not okk:
                        break
                else:
                    iv = w if iv is None else join(iv, w)
            if okk and iv is not None:
                rng = None
                out[key] = iv
        return out

    def _try_const_operand(self, f, op):
        """Evaluate an operand that is a cast of / call to a local function with constant (or
        symbolic-assoc-const) arguments, e.g. `get_num_winternitz_chains(1, H::OUTPUT_SIZE as usize) as u16`."""
        org = flow.origin(f, op)
        if org[0] == "const":
            cv = core.op_const_val(org[1])
            return (cv, cv) if cv is not None else None
        if org[0] == "call":
            t = org[2]
            tps = self.F.call_targets(f, t)
            if len(tps) == 1:
                args = []
                for a in t["args"]:
                    o2 = flow.origin(f, a)
                    if o2[0] == "const":
                        cv = core.op_const_val(o2[1])
                        if cv is not None:
                            args.append((cv, cv))
                            continue
                        args.append(self.const_operand_iv(o2[1]))
                    else:
                        args.append(None)
                if all(a is not None for a in args):
                    r = self.call_local(tps[0], args)
                    return r.get(())
        return None

    def const_operand_iv(self, o):
        cv = core.op_const_val(o)
        if cv is not None:
            return (cv, cv)
        u = o.get("unevaluated")
        if u:
            # `<H as Trait>::NAME` : hull over impls
            iv = self.assoc.get(u["path"])
            if iv is not None:
                return clip(iv, ty_range(o["ty"]))
            # generic-dependent const of a local ADT, e.g. LmotsParameter::<H>::HASH_FUNCTION_OUTPUT_SIZE:
            # evaluate its defining expression if it is a cast of an assoc const (handled by caller via table)
            iv = self.derived_consts().get(core.strip_generics(u["path"]))
            if iv is not None:
                return clip(iv, ty_range(o["ty"]))
        return ty_range(o["ty"])

    _derived = None

    def derived_consts(self):
        """Generic associated consts of local ADTs defined from trait assoc consts
        (`const HASH_FUNCTION_OUTPUT_SIZE: usize = H::OUTPUT_SIZE as usize`). Their MIR is not in the
        function list; they take the hull of the trait const of the same trait if their name
        contains the trait const's name, else unknown.  Conservative: only OUTPUT_SIZE-named."""
        if self._derived is None:
            d = {}
            for p, c in self.F.consts.items():
                if "val" in c or c.get("impl") is None or c["impl"].get("trait"):
                    continue
                for k, iv in self.assoc.items():
                    nm = k.rsplit("::", 1)[1]
                    if nm in c.get("name", ""):
                        d[core.strip_generics(p)] = iv
            self._derived = d
        return self._derived

    def filter_impls(self, tps):
        """Under a partition that binds trait associated consts to singletons, only impls whose own
        constants agree with the binding can be the receiver."""
        out = []
        for tp in tps:
            im = self.F.fns[tp].j.get("impl")
            keep = True
            if im and im["self_ty"].get("k") == "adt":
                for key, iv in self.assoc.items():
                    if iv[0] != iv[1]:
                        continue
                    tr, nm = key.rsplit("::", 1)
                    cpath = "<%s as %s>::%s" % (im["self_ty"]["s"], tr, nm)
                    c = self.F.consts.get(cpath)
                    if c is not None and "val" in c and c["val"] != iv[0]:
                        keep = False
                        break
            if keep:
                out.append(tp)
        return out or tps

    def establish_field_lens(self, candidates):
        """For slice/vector-typed fields of local ADTs that are only ever written by struct literals
        (no direct assignment, no `&mut` borrow): analyse every constructing function with unknown
        arguments and take the join of the operand lengths observed at the literals.  Called per
        partition binding.  `candidates` = [(adt, field)]."""
        F = self.F
        self.field_lens = {}
        # which functions contain literals of which ADTs
        lit = {}
        direct = set()
        for f in F.fns.values():
            for b, i, s in f.iter_stmts():
                if s["k"] != "assign":
                    continue
                rv = s["rv"]
                if rv["k"] == "aggregate" and rv.get("agg") == "adt" and rv.get("crate") == core.LOCAL_CRATE:
                    lit.setdefault(rv["path"], set()).add(f.path)
                pr = s["place"]["proj"]
                if pr and pr[-1]["k"] == "field" and "adt" in pr[-1]:
                    direct.add((pr[-1]["adt"], pr[-1].get("name")))
                if rv["k"] in ("ref", "rawptr") and rv.get("bk") == "mut":
                    for e in rv["place"]["proj"]:
                        if e["k"] == "field" and "adt" in e:
                            direct.add((e["adt"], e.get("name")))
            for b, t in f.calls():
                pr = t["dest"]["proj"]
                if pr and pr[-1]["k"] == "field" and "adt" in pr[-1]:
                    direct.add((pr[-1]["adt"], pr[-1].get("name")))
        self.len_obs = {}
        done = set()
        for adt, fld in candidates:
            if (adt, fld) in direct:
                continue
            for fp in sorted(lit.get(adt, ())):
                if fp not in done:
                    done.add(fp)
                    g = F.fns[fp]
                    self.call_local(fp, [None] * g.arg_count)
        for adt, fld in candidates:
            if (adt, fld) in direct:
                continue
            v = self.len_obs.get((adt, fld))
            if v is not None:
                self.field_lens[(adt, fld)] = v

    def _self_enum_variants(self, f):
        """Discriminant values of the enum behind `&self` when the function reads `discriminant(*self)` of a crate-local enum
        without fields (at most 16 variants); else None.  Cached on the function."""
        c = getattr(f, "_self_enum_vals", 0)
        if c != 0:
            return c
        res = None
        if f.arg_count >= 1 and f.locals[1]["ty"].get("k") == "ref":
            inner = f.locals[1]["ty"]["ty"]
            adt = self.F.adts.get(inner.get("path")) if inner.get("k") == "adt" else None
            if adt is not None and str(adt.get("kind")).lower() == "enum" and all(not v["fields"] for v in adt["variants"]) and 2 <= len(adt["variants"]) <= 16:
                for b, i, st in f.iter_stmts():
                    if st["k"] == "assign" and st["rv"]["k"] == "discr" and st["rv"]["place"]["local"] == 1 and st["rv"].get("adt") == inner["path"]:
                        res = sorted(v for v, n in st["rv"].get("variants", []))
        f._self_enum_vals = res
        return res

    # ------------------------------------------------------------------ calls
    def call_local(self, path, args, sub=None):
        """Analyse crate-local function `path` with integer argument intervals `args` (list aligned
        with parameters; None = unknown). Returns {subpath: interval} of the return value."""
        f = self.F.fns[path]
        # a method that matches on a fieldless `self` enum is analysed once per variant and the results are joined: the values
        # an arm selects (e.g. a Winternitz parameter of 1, 2, 4 or 8) stay exact instead of becoming the interval hull
        if not (sub and (1, ("#discr",)) in sub):
            vs = self._self_enum_variants(f)
            if vs:
                rets = []
                for v in vs:
                    s2 = dict(sub or {})
                    s2[(1, ("#discr",))] = (v, v)
                    rets.append(self.call_local(path, args, s2))
                return join_returns(rets)
        ctx = tuple(args[i] if i < len(args) else None for i in range(f.arg_count))
        if sub:
            ctx = ctx + (tuple(sorted(sub.items())),)
        key = (path, ctx)
        if getattr(self, "log_ctx", False):
            self.ctx_log.setdefault(path, set()).add(ctx)
        if key in self.memo:
            return self.memo[key]
        if key in self.in_progress:
            return {}
        n = self.ctx_count.get(path, 0)
        if n >= self.max_ctx:
            # too many contexts: fall back to the unknown-arguments context
            ctx0 = tuple(None for _ in range(f.arg_count))
            key0 = (path, ctx0)
            if key0 in self.memo:
                return self.memo[key0]
            if key0 in self.in_progress:
                return {}
            key, ctx, args, sub = key0, ctx0, [None] * f.arg_count, None
        self.ctx_count[path] = n + 1
        self.in_progress.add(key)
        saved = (getattr(self, "_cur_locals", None), self._mut_borrowed, getattr(self, "_len_safe", set()), getattr(self, "_ref_alias", {}))
        try:
            ret = self.analyze(f, args, ctx, sub)
        finally:
            self.in_progress.discard(key)
            self._cur_locals, self._mut_borrowed, self._len_safe, self._ref_alias = saved
        self.memo[key] = ret
        return ret

    # ------------------------------------------------------------------ intraprocedural
    def analyze(self, f, args, ctx, sub=None):
        nb = len(f.blocks)
        st0 = State()
        self.trip_seen = {k for k in self.trip_seen if k[0] != f.path}
        self._cur_locals = f.locals
        for i in range(1, f.arg_count + 1):
            rng = ty_range(f.locals[i]["ty"])
            a = args[i - 1] if i - 1 < len(args) else None
            if rng is not None:
                st0.v[(i, ())] = meet(rng, a) or rng
        if sub:
            for k, iv in sub.items():
                st0.v[k] = iv
        # locals whose address is taken mutably are not tracked (writes through the pointer are not seen)
        self._mut_borrowed = set()
        for b, i, s in f.iter_stmts():
            if s["k"] == "assign" and s["rv"]["k"] in ("ref", "rawptr") and s["rv"].get("bk") == "mut":
                l = s["rv"]["place"]["local"]
                # iterator values are only advanced through `next`; their item summary stays valid
                if f.locals[l]["ty"]["s"].startswith(ITER_TYPES):
                    continue
                self._mut_borrowed.add(l)
        self._len_safe = set()
        for l in self._mut_borrowed:
            if all(x is not None for x in flow.ref_sinks(f, l)):
                self._len_safe.add(l)
            # a reference to a slice: the length is part of the (immutable) fat pointer; writes through any
            # re-borrow change elements, never the length
            lt = f.locals[l]["ty"]
            if lt.get("k") == "ref" and lt["ty"].get("k") == "slice":
                self._len_safe.add(l)
        # reference-typed temporaries are views of their owner: their length facts are allowed even when
        # they are re-borrowed, and are dropped whenever the owner's may change (see call())
        self._ref_alias = {}
        for l, decl in enumerate(f.locals):
            if decl["ty"].get("k") == "ref" and l > f.arg_count:
                o = flow.resolve_owner_path(f, {"k": "copy", "place": {"local": l, "proj": [], "ty": decl["ty"]["s"]}})
                if o is not None and o[0] != l:
                    self._ref_alias.setdefault(o[0], set()).add(l)
                    if l in self._mut_borrowed:
                        self._len_safe.add(l)
        thresholds = self._thresholds(f)
        headers = getattr(f, "_loop_headers", None)
        if headers is None:
            headers = {h for h, body in f.natural_loops()}
            f._loop_headers = headers
        instate = [None] * nb
        instate[0] = st0
        visits = [0] * nb
        work = deque([0])
        inq = {0}
        ret = None
        final_states = {}
        guard = 0
        while work:
            guard += 1
            if guard > 40000:
                break
            b = work.popleft()
            inq.discard(b)
            st = instate[b].clone()
            visits[b] += 1
            outs = self.transfer_block(f, b, st, ctx, record=False)
            for (succ, s2) in outs:
                if s2 is None:
                    continue
                old = instate[succ]
                if old is None:
                    instate[succ] = s2
                elif s2.leq(old):
                    continue
                else:
                    j = old.join(s2)
                    # widen at loop headers only (a refinement made on the way into the loop body must not be widened away);
                    # any other block that keeps changing is widened much later, which still bounds the iteration
                    if (visits[succ] >= WIDEN_DELAY and succ in headers) or visits[succ] >= WIDEN_DELAY * 8:
                        j = self._widen(old, j, thresholds, f)
                    instate[succ] = j
                if succ not in inq:
                    inq.add(succ)
                    work.append(succ)
        # final pass: record goals with the stabilised states, collect return value
        ret = {}
        have_ret = False
        for b in range(nb):
            if instate[b] is None or f.blocks[b]["cleanup"]:
                continue
            st = instate[b].clone()
            outs_ = self.transfer_block(f, b, st, ctx, record=True)
            for l in self._int_defs(f).get(b, ()):
                rng_ = ty_range(f.locals[l]["ty"])
                for _succ, s2 in outs_ or ():
                    if s2 is None:
                        continue
                    iv = s2.v.get((l, ())) or rng_
                    prev = self.def_obs.get((f.path, l, b))
                    self.def_obs[(f.path, l, b)] = join(prev, iv) if prev else iv
            if f.blocks[b]["term"]["k"] == "return":
                cur = {k[1]: v for k, v in st.v.items() if k[0] == 0}
                for i in range(1, f.arg_count + 1):
                    lt = f.locals[i]["ty"]
                    if lt.get("k") == "ref" and lt.get("mut"):
                        for kk, vv in st.v.items():
                            if kk[0] == i and kk[1] and kk[1][-1] == "#len":
                                cur[("#param", i) + kk[1]] = vv
                if not have_ret:
                    ret = cur
                    have_ret = True
                else:
                    a_, b_ = {(0, k): v for k, v in ret.items()}, {(0, k): v for k, v in cur.items()}
                    new = {}
                    for k, v in ret.items():
                        if k in cur:
                            new[k] = join(v, cur[k])
                        elif payload_vacuous((0, k), b_):
                            new[k] = v
                    for k, v in cur.items():
                        if k not in ret and payload_vacuous((0, k), a_):
                            new[k] = v
                    ret = new
        self._reached = getattr(self, "_reached", {})
        self._reached.setdefault(f.path, set()).update(b for b in range(nb) if instate[b] is not None)
        return ret

    def _int_defs(self, f):
        """block -> integer-typed locals defined (as a whole) in it; cached on the function."""
        d = getattr(f, "_int_defs_by_block", None)
        if d is None:
            d = {}
            for l, decl in enumerate(f.locals):
                if ty_range(decl["ty"]) is None:
                    continue
                for b, i, x in f.defs_of(l):
                    pl = x["dest"] if i == "term" else x.get("place")
                    if pl is not None and not pl["proj"] and not f.blocks[b]["cleanup"]:
                        d.setdefault(b, set()).add(l)
            f._int_defs_by_block = d
        return d

    def _thresholds(self, f):
        ts = set()
        for b, i, s in f.iter_stmts():
            if s["k"] == "assign":
                self._collect_consts(s["rv"], ts)
        for b, t in f.iter_terms():
            if t["k"] == "call":
                for a in t["args"]:
                    cv = core.op_const_val(a)
                    if cv is not None:
                        ts.add(cv)
        out = set()
        for t in ts:
            out.update((t - 1, t, t + 1))
        return sorted(out)

    def _collect_consts(self, rv, ts):
        for k in ("op", "a", "b"):
            o = rv.get(k)
            if isinstance(o, dict) and o.get("k") == "const":
                cv = core.op_const_val(o)
                if cv is not None:
                    ts.add(cv)
                else:
                    iv = self.const_operand_iv(o)
                    if iv:
                        ts.update(iv)

    def _widen(self, old, new, thresholds, f):
        s = new.clone()
        for k, nv in new.v.items():
            ov = old.v.get(k)
            if ov is None:
                continue
            lo, hi = nv
            rng = None
            if k[1] == ():
                rng = ty_range(f.locals[k[0]]["ty"])
            if nv[0] < ov[0]:
                cands = [t for t in thresholds if t <= nv[0]]
                lo = max(cands) if cands else (rng[0] if rng else -(2**128))
                if rng:
                    lo = max(lo, rng[0])
            if nv[1] > ov[1]:
                cands = [t for t in thresholds if t >= nv[1]]
                hi = min(cands) if cands else (rng[1] if rng else 2**128)
                if rng:
                    hi = min(hi, rng[1])
            s.v[k] = (lo, hi)
        return s

    # --- evaluation helpers
    def place_iv(self, f, st, p):
        key = place_key(p, f.locals)
        ty = {"s": p["ty"]}
        rng = ty_range(ty)
        # element of a constant integer array
        if p["proj"] and all(e["k"] == "index" for e in p["proj"]) and p["local"] in st.arr:
            cands = [st.arr[p["local"]]]
            for e in p["proj"]:
                iv = st.v.get((e["local"], ()))
                nxt = []
                for arr in cands:
                    if not isinstance(arr, tuple) or not arr:
                        nxt = None
                        break
                    lo, hi = (max(iv[0], 0), min(iv[1], len(arr) - 1)) if iv is not None else (0, len(arr) - 1)
                    if lo > hi:
                        lo, hi = 0, len(arr) - 1
                    nxt.extend(arr[lo : hi + 1])
                cands = nxt
                if cands is None:
                    break
            if cands and all(isinstance(x, int) for x in cands):
                return (min(cands), max(cands))
        # field value sets (any access path ending in a known constructor-only field)
        for e in reversed(p["proj"]):
            if e["k"] == "field" and "adt" in e:
                fs = self.field_sets.get((e["adt"], e["name"]))
                if fs is not None and e is p["proj"][-1]:
                    base = meet(fs, rng) or fs
                    if key is not None and key[0] not in self._mut_borrowed and key in st.v:
                        return meet(base, st.v[key]) or base
                    return base
                break
        if key is not None and key[0] not in self._mut_borrowed:
            v = st.v.get(key)
            if v is not None:
                return v
        return rng

    def op_iv(self, f, st, o):
        if o["k"] == "const":
            return self.const_operand_iv(o)
        p = core.op_place(o)
        if p is None:
            return None
        return self.place_iv(f, st, p)

    # --- lengths of arrays / fixed-capacity vectors / slices, Ok-ness of Result/Option values
    def len_of_place(self, f, st, p):
        # element of a local array of slices / vectors: the summary recorded when the array was built
        if p["proj"] and p["proj"][-1]["k"] in ("index", "constindex") and len(p["proj"]) == 1 and p["local"] not in self._mut_borrowed:
            v = st.v.get((p["local"], ("#elem", "#len")))
            if v is not None:
                d0 = type_len(p["ty"])
                return (meet(v, d0) or v) if d0 is not None else v
        key = place_key(p, f.locals)
        if key is None and p["proj"] and p["proj"][0]["k"] == "deref" and all(e["k"] in ("deref", "field", "downcast") for e in p["proj"]):
            # through a `&mut`: lengths are maintained explicitly by the call effects (see set_len / len_safe)
            p2 = dict(p)
            p2["proj"] = p["proj"][1:]
            key = place_key(p2, None) if not any(e["k"] == "deref" for e in p2["proj"]) else None
        d = type_len(p["ty"])
        # established length set of a constructor-only field (whatever the access path)
        if p["proj"] and p["proj"][-1]["k"] == "field" and "adt" in p["proj"][-1]:
            fl = self.field_lens.get((p["proj"][-1]["adt"], p["proj"][-1].get("name")))
            if fl is not None:
                d = (meet(fl, d) or fl) if d is not None else fl
        if key is not None:
            v = st.v.get((key[0], key[1] + ("#len",)))
            if v is not None:
                return (meet(v, d) or v) if d is not None else v
        return d

    def len_of_operand(self, f, st, o):
        if o["k"] == "const":
            return type_len(o["ty"]["s"])
        p = core.op_place(o)
        if p is None:
            return None
        return self.len_of_place(f, st, p)

    def _closure_env(self, f, st, cl):
        """Facts about the variables a closure value captured, re-keyed to the closure's environment parameter: captured
        variable k is `(*_1).k` in the body.  Only captures that cannot change between the creation of the closure and its calls
        are passed on: shared borrows (the referent is frozen while borrowed) and copies of values with a single definition."""
        ds = [d for d in f.defs_of(cl) if not f.blocks[d[0]]["cleanup"]]
        if len(ds) != 1 or ds[0][1] == "term" or ds[0][2]["k"] != "assign" or ds[0][2]["rv"]["k"] != "aggregate" or ds[0][2]["rv"].get("agg") != "closure":
            return {}
        env = {}
        for k, op in enumerate(ds[0][2]["rv"]["ops"]):
            p = core.op_place(op)
            if p is None or p["proj"]:
                cv = self.const_operand_iv(op) if op.get("k") == "const" else None
                if cv is not None:
                    env[(1, (str(k),))] = cv
                continue
            src = p["local"]
            sty = f.locals[src]["ty"]
            if sty.get("k") == "ref" and sty.get("mut"):
                continue   # captured by unique borrow: the closure may change it
            sds = [d for d in f.defs_of(src) if not f.blocks[d[0]]["cleanup"]]
            if len(sds) != 1:
                continue
            if src in self._mut_borrowed and src not in self._len_safe:
                continue
            for (l, path), iv in st.v.items():
                if l == src and iv is not None and not (path and path[0] in ("#item", "#rem", "#eidx")):
                    env[(1, (str(k),) + path)] = iv
        return env

    def sub_of_operand(self, st, o, sub):
        p = core.op_place(o)
        if p is None:
            return None
        key = place_key(p, self._cur_locals)
        if key is None:
            return None
        return st.v.get((key[0], key[1] + sub))

    def set_len(self, st, key, iv):
        """#len of the value held at `key` (allowed for locals whose &mut borrows only reach calls)."""
        k = (key[0], key[1] + ("#len",))
        if iv is None or (key[0] in self._mut_borrowed and key[0] not in self._len_safe):
            st.v.pop(k, None)
        else:
            st.v[k] = iv

    def op_key(self, st, o):
        p = core.op_place(o)
        if p is None:
            return None
        k = place_key(p, self._cur_locals)
        if k is None or k[0] in self._mut_borrowed:
            return None
        return k

    def set_key(self, st, key, iv):
        st.kill(key)
        if iv is not None and key[0] not in self._mut_borrowed:
            st.v[key] = iv

    def copy_sub(self, st, dst, src, allow_len=False):
        """dst := src for aggregates: copy every tracked sub-key."""
        items = [(k, v) for k, v in st.v.items() if k[0] == src[0] and k[1][: len(src[1])] == src[1]]
        cmps = [(k, v) for k, v in st.cmp.items() if k[0] == src[0] and k[1][: len(src[1])] == src[1]]
        st.kill(dst)
        if dst[0] in self._mut_borrowed:
            if dst[0] in self._len_safe:
                for k, v in items:
                    if k[1] and k[1][-1] == "#len":
                        st.v[(dst[0], dst[1] + k[1][len(src[1]):])] = v
            return
        for k, v in items:
            st.v[(dst[0], dst[1] + k[1][len(src[1]):])] = v
        for k, v in cmps:
            st.cmp[(dst[0], dst[1] + k[1][len(src[1]):])] = v

    # --- transfer
    def transfer_block(self, f, b, st, ctx, record):
        blk = f.blocks[b]
        self._recording = record
        for s in blk["stmts"]:
            if s["k"] == "assign":
                self.assign(f, st, s["place"], s["rv"])
                if self.overrides and not s["place"]["proj"] and (f.path, s["place"]["local"]) in self.overrides:
                    st.v[(s["place"]["local"], ())] = self.overrides[(f.path, s["place"]["local"])]
            elif s["k"] == "setdiscr":
                k = place_key(s["place"])
                if k:
                    st.kill(k)
        t = blk["term"]
        k = t["k"]
        if k == "goto":
            return [(t["target"], st)]
        if k == "return" or k in ("unreachable", "resume", "terminate"):
            return []
        if k == "drop":
            return [(t["target"], st)]
        if k == "switch":
            return self.switch(f, st, t)
        if k == "assert":
            return self.assert_(f, b, st, t, ctx, record)
        if k == "call":
            return self.call(f, b, st, t, ctx, record)
        return [(s_, st) for s_ in f.succ[b]]

    def assign(self, f, st, place, rv):
        dkey = place_key(place, f.locals)
        k = rv["k"]
        dty = {"s": place["ty"]}
        rng = ty_range(dty)
        if dkey is None:
            # write through pointer / index: nothing tracked can change except mut-borrowed locals (untracked)
            return
        if k == "use":
            o = rv["op"]
            skey = self.op_key(st, o)
            if rng is None:
                ln0 = self.len_of_operand(f, st, o)
                if skey is None:
                    # moving a value out of a local that was mutably borrowed: its length facts (maintained
                    # through the call effects) move with it
                    sp = core.op_place(o)
                    sk2 = place_key(sp, f.locals) if sp is not None else None
                    if sk2 is not None and sk2[0] in self._len_safe:
                        items = [(k, v) for k, v in st.v.items() if k[0] == sk2[0] and k[1][: len(sk2[1])] == sk2[1] and k[1] and k[1][-1] == "#len"]
                        st.kill(dkey)
                        if dkey[0] not in self._mut_borrowed or dkey[0] in self._len_safe:
                            for k, v in items:
                                st.v[(dkey[0], dkey[1] + k[1][len(sk2[1]):])] = v
                        return
                if skey is not None:
                    self.copy_sub(st, dkey, skey)
                    if not skey[1] and not dkey[1] and skey[0] in st.arr:
                        st.arr[dkey[0]] = st.arr[skey[0]]
                    if ln0 is not None and (dkey[0], dkey[1] + ("#len",)) not in st.v:
                        self.set_len(st, dkey, ln0)
                else:
                    st.kill(dkey)
                    arr = const_int_array(o)
                    if arr is not None and not dkey[1]:
                        st.arr[dkey[0]] = arr
                    # an element read `arr[i]` of an array of slices: its recorded element length
                    ln1 = self.len_of_operand(f, st, o) if o["k"] != "const" else None
                    if ln1 is not None and ty_range({"s": place["ty"]}) is None:
                        self.set_len(st, dkey, ln1)
                    # reading a field-value-set struct through a pointer needs no copy: field sets are global
                return
            iv = self.op_iv(f, st, o)
            self.set_key(st, dkey, iv)
            if skey is not None and dkey[0] not in self._mut_borrowed:
                st.copy[dkey] = st.copy.get(skey, skey)
                if skey in st.cmp:
                    st.cmp[dkey] = st.cmp[skey]
            return
        if k == "cast":
            src = self.op_iv(f, st, rv["op"])
            if rng is None:
                ln = self.len_of_operand(f, st, rv["op"])
                st.kill(dkey)
                if ln is not None:
                    self.set_len(st, dkey, ln)
                return
            if src is None:
                self.set_key(st, dkey, rng)
                return
            if "IntToInt" in rv["cast"] or rv["cast"] == "Transmute":
                iv = clip(src, rng)
                if self._recording and (src[0] < rng[0] or src[1] > rng[1]):
                    self.note_lossy(f, "cast", place["ty"], src, rng)
                self.set_key(st, dkey, iv)
                skey = self.op_key(st, rv["op"])
                if skey is not None and iv == src and dkey[0] not in self._mut_borrowed:
                    # lossless widening keeps the copy relation (guards on the cast refine the source)
                    st.copy[dkey] = st.copy.get(skey, skey)
                return
            self.set_key(st, dkey, rng)
            return
        if k == "binop":
            self.binop(f, st, dkey, rng, rv)
            return
        if k == "unop":
            a = self.op_iv(f, st, rv["a"])
            if rv["op"] == "Not" and place["ty"] == "bool" and a is not None:
                iv = (1 - a[1], 1 - a[0])
                akey = self.op_key(st, rv["a"])
                self.set_key(st, dkey, iv)
                if akey in st.cmp:
                    op, ak, av, bk, bv = st.cmp[akey]
                    st.cmp[dkey] = (NEG[op], ak, av, bk, bv)
                return
            if rv["op"] == "PtrMetadata":
                ln = self.len_of_operand(f, st, rv["a"])
                self.set_key(st, dkey, ln if ln is not None else (0, SLICE_LEN_MAX))
                return
            if rv["op"] == "Not" and rng is not None and a is not None and rng[0] == 0:
                self.set_key(st, dkey, (rng[1] - a[1], rng[1] - a[0]))
                return
            self.set_key(st, dkey, rng)
            return
        if k == "aggregate":
            if self._recording and rv.get("agg") == "adt" and rv.get("crate") == core.LOCAL_CRATE:
                for fname, o in zip(rv["fields"], rv["ops"]):
                    if ty_range(self._op_ty(f, o)) is not None:
                        iv = self.op_iv(f, st, o)
                        key = (rv["path"], fname, f.path)
                        self.agg_obs[key] = join(self.agg_obs[key], iv) if key in self.agg_obs and iv is not None else (iv if key not in self.agg_obs else None)
                    else:
                        org = flow.origin(f, o)
                        if org[0] == "field" and org[2] == fname and rv["path"] in f.locals[org[1]]["ty"]["s"]:
                            continue  # clone / copy of the same field of another value of this type
                        ln = self.len_of_operand(f, st, o)
                        key = (rv["path"], fname)
                        if key in self.len_obs:
                            self.len_obs[key] = join(self.len_obs[key], ln) if (self.len_obs[key] is not None and ln is not None) else None
                        else:
                            self.len_obs[key] = ln
            st.kill(dkey)
            if dkey[0] in self._mut_borrowed:
                if dkey[0] in self._len_safe and rv["agg"] == "adt" and rv["path"] not in (flow.OPTION, flow.RESULT, flow.CONTROL_FLOW):
                    for fname, o in zip(rv["fields"], rv["ops"]):
                        ln = self.len_of_operand(f, st, o)
                        if ln is not None and ty_range(self._op_ty(f, o)) is None:
                            st.v[(dkey[0], dkey[1] + (fname, "#len"))] = ln
                return
            if rv["agg"] == "tuple":
                for i, o in enumerate(rv["ops"]):
                    iv = self.op_iv(f, st, o)
                    if iv is not None and ty_range(self._op_ty(f, o)) is not None:
                        st.v[(dkey[0], dkey[1] + (str(i),))] = iv
            elif rv["agg"] == "adt" and rv["path"] == "core::ops::range::Range" and len(rv["ops"]) == 2:
                lo = self.op_iv(f, st, rv["ops"][0])
                hi = self.op_iv(f, st, rv["ops"][1])
                if lo is not None and hi is not None:
                    st.v[(dkey[0], dkey[1] + ("#item",))] = (lo[0], max(hi[1] - 1, lo[0]))
                    st.v[(dkey[0], dkey[1] + ("start",))] = lo
                    st.v[(dkey[0], dkey[1] + ("end",))] = hi
                    st.v[(dkey[0], dkey[1] + ("#rem",))] = (max(hi[0] - lo[1], 0), max(hi[1] - lo[0], 0))
            elif rv["agg"] == "adt":
                variant = rv["variant"]
                if rv["path"] in (flow.RESULT, flow.OPTION):
                    st.v[(dkey[0], dkey[1] + ("#ok",))] = (1, 1) if variant in ("Ok", "Some") else (0, 0)
                    if rv["ops"]:
                        sk = self.op_key(st, rv["ops"][0])
                        if sk is not None:
                            for kk, vv in list(st.v.items()):
                                if kk[0] == sk[0] and kk[1][: len(sk[1])] == sk[1] and kk[1] != sk[1]:
                                    st.v[(dkey[0], dkey[1] + ("@" + variant, rv["fields"][0]) + kk[1][len(sk[1]):])] = vv
                        ln = self.len_of_operand(f, st, rv["ops"][0])
                        if ln is not None:
                            st.v[(dkey[0], dkey[1] + ("@" + variant, rv["fields"][0], "#len"))] = ln
                enum_like = rv["path"] in (flow.OPTION, flow.RESULT) or len(rv["fields"]) != len(rv["ops"])
                for i, (fname, o) in enumerate(zip(rv["fields"], rv["ops"])):
                    iv = self.op_iv(f, st, o)
                    if iv is None or ty_range(self._op_ty(f, o)) is None:
                        continue
                    if rv["path"] in (flow.OPTION, flow.RESULT, flow.CONTROL_FLOW):
                        st.v[(dkey[0], dkey[1] + ("@" + variant, fname))] = iv
                    else:
                        st.v[(dkey[0], dkey[1] + (fname,))] = iv
                if rv["path"] not in (flow.OPTION, flow.RESULT, flow.CONTROL_FLOW):
                    for fname, o in zip(rv["fields"], rv["ops"]):
                        ln = self.len_of_operand(f, st, o)
                        if ln is not None and ty_range(self._op_ty(f, o)) is None:
                            st.v[(dkey[0], dkey[1] + (fname, "#len"))] = ln
            elif rv["agg"] == "array":
                # `[a, b]` of slices / byte vectors: remember the join of the element lengths
                lens = [self.len_of_operand(f, st, o) for o in rv["ops"]]
                if lens and all(x is not None for x in lens) and dkey[0] not in self._mut_borrowed and not dkey[1]:
                    j = lens[0]
                    for x in lens[1:]:
                        j = join(j, x)
                    st.v[(dkey[0], ("#elem", "#len"))] = j
            return
        if k == "discr":
            st.kill(dkey)
            # discriminant of a Result/Option whose Ok-ness is known
            p = rv["place"]
            sk = place_key(p, f.locals)
            adt = rv.get("adt")
            if sk is not None and adt not in (flow.RESULT, flow.OPTION, flow.CONTROL_FLOW):
                # a fieldless / general enum whose variant the caller fixed (table evaluation per variant)
                dv = st.v.get((sk[0], sk[1] + ("#discr",)))
                if dv is not None:
                    self.set_key(st, dkey, dv)
            if sk is not None and adt in (flow.RESULT, flow.OPTION, flow.CONTROL_FLOW):
                okv = st.v.get((sk[0], sk[1] + ("#ok",)))
                if okv is not None and okv[0] == okv[1]:
                    is_ok = okv[0] == 1
                    # Result: Ok=0/Err=1; ControlFlow: Continue=0/Break=1; Option: None=0/Some=1
                    d = (0 if is_ok else 1) if adt in (flow.RESULT, flow.CONTROL_FLOW) else (1 if is_ok else 0)
                    self.set_key(st, dkey, (d, d))
            return
        if k == "ref" or k == "rawptr":
            skey = place_key(rv["place"], f.locals)
            if skey is not None and skey != dkey:
                self.copy_sub(st, dkey, skey, allow_len=True)
            else:
                st.kill(dkey)
            ln = self.len_of_place(f, st, rv["place"])
            if ln is not None:
                self.set_len(st, dkey, ln)
            return
        if k == "repeat":
            st.kill(dkey)
            return
        st.kill(dkey)
        if rng is not None:
            self.set_key(st, dkey, rng)

    def _op_ty(self, f, o):
        if o["k"] == "const":
            return o["ty"]
        p = core.op_place(o)
        return {"s": p["ty"]} if p else None

    def binop(self, f, st, dkey, rng, rv):
        op = rv["op"]
        a = self.op_iv(f, st, rv["a"])
        b = self.op_iv(f, st, rv["b"])
        aty = self._op_ty(f, rv["a"])
        arng = ty_range(aty)
        checked = op.endswith("WithOverflow")
        base = op[: -len("WithOverflow")] if checked else op
        if base in ("Add", "Sub", "Mul", "Shl", "Shr", "Div", "Rem", "BitAnd", "BitOr", "BitXor", "AddUnchecked", "SubUnchecked", "MulUnchecked"):
            base = base.replace("Unchecked", "")
            m = self.arith(base, a, b, arng)
            if checked:
                st.kill(dkey)
                if dkey[0] in self._mut_borrowed:
                    return
                if m is None or arng is None:
                    if arng:
                        st.v[(dkey[0], dkey[1] + ("0",))] = arng
                    st.v[(dkey[0], dkey[1] + ("1",))] = (0, 1)
                    return
                inside = m[0] >= arng[0] and m[1] <= arng[1]
                outside = m[1] < arng[0] or m[0] > arng[1]
                if base == "Sub" and not inside and arng[0] == 0:
                    ka, kb = self.op_key(st, rv["a"]), self.op_key(st, rv["b"])
                    if ka is not None and kb is not None:
                        ra, rb = st.copy.get(ka, ka), st.copy.get(kb, kb)
                        if (ka, kb) in st.ge or (ra, rb) in st.ge:
                            m = (max(m[0], 0), m[1])
                            inside = m[1] <= arng[1]
                st.v[(dkey[0], dkey[1] + ("1",))] = (0, 0) if inside else ((1, 1) if outside else (0, 1))
                # the value component is only used on the no-overflow edge of the following assert
                st.v[(dkey[0], dkey[1] + ("0",))] = meet(m, arng) or arng
                return
            iv = clip(m, rng) if m is not None else rng
            self.set_key(st, dkey, iv)
            return
        if base in CMP:
            akey = self.op_key(st, rv["a"])
            bkey = self.op_key(st, rv["b"])
            res = (0, 1)
            if a is not None and b is not None:
                res = cmp_eval(base, a, b)
            self.set_key(st, dkey, res)
            if dkey[0] not in self._mut_borrowed:
                st.cmp[dkey] = (base, akey, a, bkey, b)
            return
        if base == "Cmp":
            st.kill(dkey)
            return
        self.set_key(st, dkey, rng)

    def note_obs(self, kind, f, term, val):
        """Observation probes read by rule modules: (kind, fn, block of the call) -> list of values seen (one per context / visit)."""
        b = None
        for i, blk in enumerate(f.blocks):
            if blk["term"] is term:
                b = i
                break
        self.obs.setdefault((kind, f.path, b), []).append(val)

    def note_lossy(self, f, kind, ty, exact, rng):
        k = (f.path, kind, ty)
        prev = self.lossy_obs.get(k)
        self.lossy_obs[k] = (join(prev[0], exact), rng) if prev else (exact, rng)

    def arith(self, op, a, b, rng):
        if a is None or b is None:
            return None
        if op == "Add":
            return (a[0] + b[0], a[1] + b[1])
        if op == "Sub":
            return (a[0] - b[1], a[1] - b[0])
        if op == "Mul":
            c = [a[0] * b[0], a[0] * b[1], a[1] * b[0], a[1] * b[1]]
            return (min(c), max(c))
        if op == "Div":
            if b[0] <= 0 <= b[1]:
                if b[1] <= 0 or a[0] < 0:
                    return None
                b = (1, b[1])  # division by zero is a separate assert
            if a[0] < 0 or b[0] < 0:
                return None
            return (a[0] // b[1], a[1] // b[0])
        if op == "Rem":
            if a[0] < 0 or b[0] < 0:
                return None
            hi = max(b[1] - 1, 0)
            return (0, min(a[1], hi))
        if op == "Shl":
            if a[0] < 0 or b[0] < 0 or b[1] > 256:
                return None
            return (a[0] << b[0], a[1] << b[1])
        if op == "Shr":
            if a[0] < 0 or b[0] < 0 or b[1] > 256:
                return None
            return (a[0] >> b[1], a[1] >> b[0])
        if op == "BitAnd":
            if a[0] < 0 or b[0] < 0:
                return None
            return (0, min(a[1], b[1]))
        if op in ("BitOr", "BitXor"):
            if a[0] < 0 or b[0] < 0:
                return None
            n = max(bits_of(a[1]), bits_of(b[1]))
            lo = max(a[0], b[0]) if op == "BitOr" else 0
            return (lo, (1 << n) - 1)
        return None

    # --- control
    def refine(self, st, cmpinfo, truth):
        """Returns refined clone of st or None if the branch is infeasible."""
        op, ak, av, bk, bv = cmpinfo
        if not truth:
            op = NEG[op]
        s = st.clone()
        # current values (the keys may have been refined since the comparison was recorded only if not killed)
        a = s.v.get(ak, av) if ak is not None else av
        b = s.v.get(bk, bv) if bk is not None else bv
        if a is None or b is None:
            return s
        na, nb_ = refine_pair(op, a, b)
        if na is None or nb_ is None:
            return None
        if ak is not None and bk is not None:
            ra, rb = s.copy.get(ak, ak), s.copy.get(bk, bk)
            if op in ("Ge", "Gt", "Eq"):
                s.ge.add((ra, rb))
                s.ge.add((ak, bk))
            if op in ("Le", "Lt", "Eq"):
                s.ge.add((rb, ra))
                s.ge.add((bk, ak))
        for key, val in ((ak, na), (bk, nb_)):
            if key is None:
                continue
            s.v[key] = val
            src = s.copy.get(key)
            if src is not None:
                cur = s.v.get(src)
                m = meet(cur, val) if cur is not None else val
                if m is None:
                    return None
                s.v[src] = m
                # and all other copies of the same source
                for k2, s2 in s.copy.items():
                    if s2 == src and k2 in s.v:
                        mm = meet(s.v[k2], m)
                        if mm is not None:
                            s.v[k2] = mm
        return s

    def switch(self, f, st, t):
        d = t["discr"]
        dk = self.op_key(st, d)
        div = self.op_iv(f, st, d)
        if self._recording and dk is not None and dk in st.cmp:
            op, ak, av, bk, bv = st.cmp[dk]
            a = st.v.get(ak, av) if ak is not None else av
            b_ = st.v.get(bk, bv) if bk is not None else bv
            for bb, blk in enumerate(f.blocks):
                if blk["term"] is t:
                    self.cmp_obs[(f.path, bb)] = (op, a, b_)
        outs = []
        listed = []
        for v, bb in t["targets"]:
            listed.append(v)
            if div is not None and not (div[0] <= v <= div[1]):
                continue
            s2 = st
            if dk is not None:
                if dk in st.cmp and v in (0, 1):
                    s2 = self.refine(st, st.cmp[dk], v == 1)
                    if s2 is None:
                        continue
                else:
                    s2 = st.clone()
                s2.v[dk] = (v, v)
                src = s2.copy.get(dk)
                if src is not None:
                    s2.v[src] = (v, v)
            outs.append((bb, s2))
        # otherwise edge
        feasible = True
        if div is not None:
            rest = [x for x in range(div[0], min(div[1], div[0] + 64) + 1) if x not in listed] if div[1] - div[0] <= 64 else [None]
            feasible = bool(rest)
        if feasible:
            s2 = st
            if dk is not None and dk in st.cmp and listed == [0]:
                s2 = self.refine(st, st.cmp[dk], True)
            elif dk is not None and dk in st.cmp and listed == [1]:
                s2 = self.refine(st, st.cmp[dk], False)
            elif dk is not None and div is not None and div[1] - div[0] <= 64:
                rest = [x for x in range(div[0], div[1] + 1) if x not in listed]
                s2 = st.clone()
                s2.v[dk] = (min(rest), max(rest))
                src = s2.copy.get(dk)
                if src is not None and src in s2.v:
                    m = meet(s2.v[src], s2.v[dk])
                    if m is not None:
                        s2.v[src] = m
            if s2 is not None:
                outs.append((t["otherwise"], s2))
        return outs

    def assert_(self, f, b, st, t, ctx, record):
        c = t["cond"]
        ck = self.op_key(st, c)
        civ = self.op_iv(f, st, c)
        exp = 1 if t["expected"] else 0
        proved = civ is not None and civ == (exp, exp)
        if record:
            m = t["msg"]
            if m["kind"] == "BoundsCheck":
                self.obs.setdefault(("bounds", f.path, b), []).append((self.op_iv(f, st, m["index"]), self.op_iv(f, st, m["len"])))
            if m["kind"] == "Overflow" and m.get("op") == "Add":
                a_, b_ = self.op_iv(f, st, m["a"]), self.op_iv(f, st, m["b"])
                prev = self.add_obs.get((f.path, b))
                cur = (a_, b_)
                if prev is not None:
                    cur = (join(prev[0], a_) if (prev[0] and a_) else None, join(prev[1], b_) if (prev[1] and b_) else None)
                self.add_obs[(f.path, b)] = cur
            desc = m["kind"] + (":" + m["op"] if "op" in m else "")
            detail = ""
            if not proved:
                parts = []
                for nm in ("a", "b", "len", "index"):
                    if nm in m:
                        parts.append("%s=%s" % (nm, self.op_iv(f, st, m[nm])))
                detail = " ".join(parts)
            self.sites.setdefault((f.path, b), []).append(Site(f.path, b, "assert", desc, proved, detail, ctx))
        # continue on the success edge with refinement
        s2 = st
        if ck is not None and ck in st.cmp:
            s2 = self.refine(st, st.cmp[ck], bool(exp))
            if s2 is None:
                return []
        elif ck is not None:
            s2 = st.clone()
            s2.v[ck] = (exp, exp)
        return [(t["target"], s2)]

    def call(self, f, b, st, t, ctx, record):
        from . import summaries

        dkey = place_key(t["dest"])
        dty = {"s": t["dest"]["ty"]}
        rng = ty_range(dty)
        argiv = [self.op_iv(f, st, a) for a in t["args"]]
        if record:
            prev = self.callarg_obs.get((f.path, b))
            self.callarg_obs[(f.path, b)] = list(argiv) if prev is None else [join(x, y) if (x is not None and y is not None) else None for x, y in zip(prev, argiv)]
        ret = None
        c = core.callee_of(t)
        tps = self.F.call_targets(f, t) if c else []
        effects = None  # list of (owner local, new #len interval or None)
        modelled = False
        # owners of &mut arguments (their lengths may change in the callee)
        mut_owners = []
        for i, a in enumerate(t["args"]):
            p = core.op_place(a)
            if p is not None and p["ty"].startswith("&mut "):
                mut_owners.append((i, flow.resolve_owner_path(f, a, want_mut=True)))
        if c is not None and len(tps) > 1:
            tps = self.filter_impls(tps)
        if c is not None and tps:
            # crate-local callee(s): join of summaries, arguments carry their tracked sub-facts
            rets = []
            for tp in tps:
                g = self.F.fns[tp]
                args = [argiv[i] if (i < len(argiv) and ty_range(g.locals[i + 1]["ty"]) is not None) else None for i in range(g.arg_count)]
                sub = {}
                for i, a in enumerate(t["args"][: g.arg_count]):
                    ap = core.op_place(a)
                    ak = place_key(ap, f.locals) if ap is not None else None
                    if ak is not None:
                        only_len = ak[0] in self._mut_borrowed
                        for kk, vv in st.v.items():
                            if kk[0] == ak[0] and kk[1][: len(ak[1])] == ak[1] and kk[1] != ak[1]:
                                if only_len and not (kk[1] and kk[1][-1] == "#len"):
                                    continue
                                sub[(i + 1, kk[1][len(ak[1]):])] = vv
                    if ak is None or (i + 1, ("#len",)) not in sub:
                        ln = self.len_of_operand(f, st, a)
                        if ln is not None and ln != type_len(g.locals[i + 1]["ty"]["s"]):
                            sub[(i + 1, ("#len",))] = ln
                rets.append(self.call_local(tp, args, sub or None))
            ret = rets[0]
            for r in rets[1:]:
                ret = {k: join(v, r[k]) for k, v in ret.items() if k in r}
            if record:
                okv = ret.get(("#ok",))
                prev = self.call_ok_obs.get((f.path, b), "none")
                self.call_ok_obs[(f.path, b)] = okv if prev == "none" else (join(prev, okv) if (prev is not None and okv is not None) else None)
            effects = []
            for i, owner in mut_owners:
                if owner is None:
                    continue
                for kk, vv in ret.items():
                    if len(kk) >= 3 and kk[0] == "#param" and kk[1] == i + 1 and kk[-1] == "#len":
                        effects.append(((owner[0], owner[1] + kk[2:-1]), vv))
        elif c is not None:
            ret, goal, effects = summaries.extern_call(self, f, st, t, c, argiv)
            modelled = effects is not None
            if record and goal is not None:
                proved, desc, detail = goal
                self.sites.setdefault((f.path, b), []).append(Site(f.path, b, "call", desc, proved, detail, ctx))
            if effects is None:
                effects = []
            # closures handed to iterator adaptors run once per item: analyse them with the item interval
            for a in t["args"]:
                ap = core.op_place(a)
                if ap is None or ap["proj"]:
                    continue
                aty = f.locals[ap["local"]]["ty"]
                if aty.get("k") == "closure" and aty.get("path") in self.F.fns:
                    g = self.F.fns[aty["path"]]
                    cargs = [None] * g.arg_count
                    it = self.sub_of_operand(st, t["args"][0], ("#item",)) if t["args"] else None
                    if it is not None and g.arg_count >= 2 and ty_range(g.locals[g.arg_count]["ty"]) is not None:
                        cargs[-1] = it
                    cret = self.call_local(g.path, cargs, self._closure_env(f, st, ap["local"]) or None)
                    if core.strip_generics(core.callee_path(t) or "").rsplit("::", 1)[-1] == "map" and cret.get(()) is not None:
                        # the items of `iter.map(closure)` are the closure's results
                        ret = dict(ret or {})
                        ret[("#item",)] = cret[()]
                    if record:
                        # for the fold-accumulator idiom of the panic-freedom engine: how often the closure runs at most
                        rem = self.sub_of_operand(st, t["args"][0], ("#rem",)) if t["args"] else None
                        prev = self.obs.get(("closure-runs", g.path, None))
                        self.obs[("closure-runs", g.path, None)] = (prev or []) + [(f.path, b, rem, list(argiv))]
        else:
            effects = []
        if t["target"] is None:
            return []
        s2 = st.clone()
        # everything known about the referent of a `&mut` argument is stale after the call ...
        for i, owner in mut_owners:
            if owner is not None:
                # views of the owner held in other reference temporaries are stale after any call that
                # received a `&mut` to it
                a_l = core.op_local(t["args"][i])
                for r in self._ref_alias.get(owner[0], ()):
                    if r != a_l:
                        s2.kill((r, ()))
            if owner is not None and not modelled:
                s2.kill(owner)
            elif owner is None and not modelled:
                # a `&mut` argument whose referent cannot be identified: forget every length fact of
                # mutably borrowed locals (conservative)
                for kk in [kk for kk in s2.v if kk[0] in self._mut_borrowed]:
                    del s2.v[kk]
        # ... except what the callee's summary (or the extern model) re-establishes
        for owner, newlen in effects or []:
            if owner is None:
                continue
            if isinstance(owner, tuple):
                if owner[1] and isinstance(owner[1][-1], str) and owner[1][-1].startswith("#"):
                    # explicit fact key (e.g. an iterator's remaining count)
                    if newlen is not None:
                        s2.v[owner] = newlen
                    else:
                        s2.v.pop(owner, None)
                    continue
                if newlen is not None and (owner[0] not in self._mut_borrowed or owner[0] in self._len_safe):
                    s2.v[(owner[0], owner[1] + ("#len",))] = newlen
                continue
            if newlen is None:
                s2.v.pop((owner, ("#len",)), None)
            else:
                self.set_len(s2, (owner, ()), newlen)
        if dkey is not None:
            s2.kill(dkey)
            if ret:
                cmpinfo = ret.get(("#cmp",))
                if cmpinfo is not None and dkey[0] not in self._mut_borrowed:
                    s2.cmp[dkey] = cmpinfo
                cof = ret.get(("#copyof",))
                if cof is not None and dkey[0] not in self._mut_borrowed:
                    lk, lv = cof
                    if lk not in s2.v and lv is not None:
                        s2.v[lk] = lv
                    s2.copy_after = (dkey, lk)
                for sub, iv in ret.items():
                    if iv is None or (sub and sub[0] in ("#param", "#cmp", "#copyof")):
                        continue
                    if dkey[0] in self._mut_borrowed and not (sub and sub[-1] == "#len" and dkey[0] in self._len_safe):
                        continue
                    s2.v[(dkey[0], dkey[1] + sub)] = iv
            if dkey[0] not in self._mut_borrowed and rng is not None and (dkey not in s2.v):
                s2.v[dkey] = rng
            ov = self.overrides.get((f.path, dkey[0])) if not dkey[1] else None
            if ov is not None:
                # analysis under an assumed range of this value (partition of an unmodelled input)
                s2.v[dkey] = ov
            ca = getattr(s2, "copy_after", None)
            if ca is not None:
                s2.copy[ca[0]] = ca[1]
                s2.copy_after = None
        return [(t["target"], s2)]


WIDEN_DELAY = 10
ITER_TYPES = ("core::ops::range::Range", "core::iter::adapters::", "core::ops::range::RangeInclusive")
def const_int_array(o):
    """Decode an evaluated constant integer array operand into a tuple of ints."""
    if o.get("k") != "const" or "bytes" not in o:
        return None
    ty = o["ty"]

    def dec(ty, raw):
        if ty.get("k") != "array" or not ty.get("len"):
            return None
        n = ty["len"]
        w = len(raw) // n
        if w * n != len(raw) or w == 0:
            return None
        el = ty["elem"]
        if el.get("k") == "int":
            signed = el["s"].startswith("i")
            return tuple(int.from_bytes(bytes(raw[i * w : (i + 1) * w]), "little", signed=signed) for i in range(n))
        if el.get("k") == "array":   # rows of a constant table
            rows = tuple(dec(el, raw[i * w : (i + 1) * w]) for i in range(n))
            return None if any(r is None for r in rows) else rows
        return None
    return dec(ty, o["bytes"])


CMP = ("Lt", "Le", "Gt", "Ge", "Eq", "Ne")
NEG = {"Lt": "Ge", "Le": "Gt", "Gt": "Le", "Ge": "Lt", "Eq": "Ne", "Ne": "Eq"}


def cmp_eval(op, a, b):
    if op == "Lt":
        return (1, 1) if a[1] < b[0] else ((0, 0) if a[0] >= b[1] else (0, 1))
    if op == "Le":
        return (1, 1) if a[1] <= b[0] else ((0, 0) if a[0] > b[1] else (0, 1))
    if op == "Gt":
        return (1, 1) if a[0] > b[1] else ((0, 0) if a[1] <= b[0] else (0, 1))
    if op == "Ge":
        return (1, 1) if a[0] >= b[1] else ((0, 0) if a[1] < b[0] else (0, 1))
    if op == "Eq":
        if a[0] == a[1] == b[0] == b[1]:
            return (1, 1)
        if a[1] < b[0] or b[1] < a[0]:
            return (0, 0)
        return (0, 1)
    if op == "Ne":
        r = cmp_eval("Eq", a, b)
        return (1 - r[1], 1 - r[0])
    return (0, 1)


def refine_pair(op, a, b):
    """Refine intervals a, b under `a op b`. Returns (a', b') or (None, None) if infeasible."""
    if op == "Lt":
        na = (a[0], min(a[1], b[1] - 1))
        nb = (max(b[0], a[0] + 1), b[1])
    elif op == "Le":
        na = (a[0], min(a[1], b[1]))
        nb = (max(b[0], a[0]), b[1])
    elif op == "Gt":
        na = (max(a[0], b[0] + 1), a[1])
        nb = (b[0], min(b[1], a[1] - 1))
    elif op == "Ge":
        na = (max(a[0], b[0]), a[1])
        nb = (b[0], min(b[1], a[1]))
    elif op == "Eq":
        m = (max(a[0], b[0]), min(a[1], b[1]))
        na = nb = m
    elif op == "Ne":
        na, nb = a, b
        if b[0] == b[1]:
            if a[0] == b[0]:
                na = (a[0] + 1, a[1])
            elif a[1] == b[0]:
                na = (a[0], a[1] - 1)
        if a[0] == a[1]:
            if b[0] == a[0]:
                nb = (b[0] + 1, b[1])
            elif b[1] == a[0]:
                nb = (b[0], b[1] - 1)
    else:
        return a, b
    if na[0] > na[1] or nb[0] > nb[1]:
        return None, None
    return na, nb
