"""TBL: extraction of the LM-OTS / LMS parameter tables from the source (constructor call sites
evaluated by IA with singleton hash sizes) and the independent reference tables written from
RFC 8554 (section 4.1 table 1, 5.1 table 2, Appendix B)."""
from . import core, flow
from .core import AnchorLost

# ---------------------------------------------------------------- reference (RFC 8554)
LMOTS_TYPE_W = {1: 1, 2: 2, 3: 4, 4: 8}  # lmots_*_w1..w8 typecodes (per hash family the crate reuses 1..4)
LMS_TYPE_H = {5: 5, 6: 10, 7: 15, 8: 20, 9: 25}  # lms_sha256_m32_h5..h25


def appendix_b(n, w):
    """RFC 8554 Appendix B: u, v, ls, p for hash length n (bytes) and Winternitz parameter w."""
    u = -(-8 * n // w)  # ceil(8n/w)
    maxsum = (2**w - 1) * u
    v = -(-((maxsum.bit_length() - 1) + 1) // w)  # ceil((floor(lg(maxsum)) + 1) / w)
    ls = 16 - v * w
    return {"u": u, "v": v, "ls": ls, "p": u + v}


# ---------------------------------------------------------------- extraction


class bind_assoc:
    """Temporarily bind trait associated consts (e.g. H::OUTPUT_SIZE) to singletons; keys that are
    (adt, field) tuples bind field value sets instead (finite trace partitioning by parameter row)."""

    def __init__(self, an, binding):
        self.an = an
        self.binding = {k: v for k, v in binding.items() if isinstance(k, str)}
        self.fields = {k: v for k, v in binding.items() if isinstance(k, tuple)}

    def __enter__(self):
        self.saved_fields = dict(self.an.field_sets)
        self.an.field_sets.update(self.fields)
        self.saved = dict(self.an.assoc)
        self.saved_memo = self.an.memo
        self.saved_cc = self.an.ctx_count
        self.saved_derived = self.an._derived
        self.an.assoc.update(self.binding)
        self.an.memo = {}
        self.an.ctx_count = {}
        self.an._derived = None
        return self.an

    def __exit__(self, *a):
        self.an.field_sets = self.saved_fields
        self.an.assoc = self.saved
        self.an.memo = self.saved_memo
        self.an.ctx_count = self.saved_cc
        self.an._derived = self.saved_derived


def hash_impls(F):
    """[(impl self type path, OUTPUT_SIZE, BLOCK_SIZE)] for every local impl of the hash trait
    (the trait bounding the generic parameter of the public `verify`)."""
    tr = hash_trait(F)
    out = {}
    for p, c in F.consts.items():
        im = c.get("impl")
        if im and im.get("trait") == tr and "val" in c:
            out.setdefault(im["self_ty"]["s"], {})[c["name"]] = c["val"]
    return tr, sorted((k, v.get("OUTPUT_SIZE"), v.get("BLOCK_SIZE")) for k, v in out.items())


def hash_trait(F):
    ts = [t for t in F.traits.values() if t["vis"] == "Public" or True]
    cand = [t["path"] for t in ts if any(i["name"] == "OUTPUT_SIZE" for i in t["items"])]
    if len(cand) != 1:
        raise AnchorLost("hash trait (local trait with an OUTPUT_SIZE associated const) not unique: %s" % cand)
    return cand[0]


def enum_methods(F, enum_path):
    return [f for f in F.fns.values() if f.j.get("impl") and f.j["impl"]["self_ty"].get("path") == enum_path]


def constructor_table(F, an, enum_path):
    """For the parameter enum at `enum_path` (LmotsAlgorithm / LmsAlgorithm):
    returns (param ADT path, field order, rows) where rows = {variant discriminant:
    {"variant": name, "args": [operand...], "fn": constructing function, "bb": block}}"""
    cands = []
    for f in enum_methods(F, enum_path):
        out = f.j.get("output")
        ins = f.j.get("inputs", [])
        if out and out.get("path") == flow.OPTION and len(ins) == 1 and ins[0]["k"] == "ref" and ins[0]["ty"].get("path") == enum_path:
            inner = out["args"][0]
            if inner.get("k") == "adt" and inner.get("crate") == core.LOCAL_CRATE:
                cands.append((f, inner["path"]))
    if len(cands) != 1:
        raise AnchorLost("parameter constructor (fn(&%s) -> Option<P>) not unique: %s" % (enum_path, [c[0].path for c in cands]))
    f, padt = cands[0]
    # variant names and discriminant values: from any `discriminant(..)` read of the enum in the constructor
    names = {}
    for b_, i_, st_ in f.iter_stmts():
        if st_["k"] == "assign" and st_["rv"]["k"] == "discr" and st_["rv"].get("adt") == enum_path:
            names = {v: n for v, n in st_["rv"].get("variants", [])}
    if not names:
        raise AnchorLost("no discriminant read of %s in %s" % (enum_path, f.path))
    # rows are evaluated per variant by the interval analysis (whatever the shape of the match); the direct call is kept when
    # the arm is a straight line to the constructor call (diagnostics only)
    rows = {}
    for val in sorted(names):
        r = an.call_local(f.path, [None], {(1, ("#discr",)): (val, val)})
        rows[val] = {"variant": names[val], "fn": f, "call": (f.path, None) if r.get(("#ok",)) == (1, 1) else None}
    # field order of the parameter struct: the constructor function that builds it from its parameters
    order = None
    for g in F.fns.values():
        if g.j.get("output", {}).get("path") != padt:
            continue
        for b_, i_, s_ in g.iter_stmts():
            if s_["k"] == "assign" and s_["rv"]["k"] == "aggregate" and s_["rv"].get("path") == padt and not g.blocks[b_]["cleanup"]:
                o2 = {}
                for fname, op in zip(s_["rv"]["fields"], s_["rv"]["ops"]):
                    org = flow.origin(g, op)
                    if org[0] == "arg":
                        o2[org[1] - 1] = fname
                if o2 and len(o2) == g.arg_count and (order is None or len(o2) > len(order)):
                    order = o2   # every parameter of the constructor goes into a field (markers such as PhantomData aside)
    if order is None:
        raise AnchorLost("constructor of %s does not build the struct from its parameters" % padt)
    return f, padt, order, rows


def eval_rows(F, an, f, order, rows, binding):
    """Evaluate the parameter struct every variant yields under an assoc-const binding: the constructor is analysed with the
    discriminant of `self` fixed, the fields are read from the returned `Some(..)`."""
    out = {}
    with bind_assoc(an, binding):
        for val, r in rows.items():
            ret = an.call_local(f.path, [None], {(1, ("#discr",)): (val, val)})
            if ret.get(("#ok",)) != (1, 1):
                out[val] = None
                continue
            vals = {}
            for i, fname in order.items():
                vals[fname] = ret.get(("@Some", "0", fname))
            vals["#variant"] = r["variant"]
            vals["#where"] = f.loc()
            out[val] = vals
    return out


def type_decoder(F, enum_path, kind):
    """Mappings from a u32 type code: `kind`='from' -> From<u32> (value -> variant name);
    'get_from_type' -> fn(u32) -> Option<P> (value -> variant name via the promoted receiver)."""
    res = {}
    for f in enum_methods(F, enum_path) if kind == "get" else [g for g in F.fns.values() if g.j.get("impl") and g.j["impl"].get("trait") == "core::convert::From" and g.j["impl"]["self_ty"].get("path") == enum_path]:
        ins = f.j.get("inputs", [])
        if len(ins) != 1 or ins[0]["s"] != "u32":
            continue
        for b, t in f.iter_terms():
            if t["k"] == "switch" and core.op_local(t["discr"]) is not None:
                src = flow.origin(f, t["discr"])
                if src[0] != "arg":
                    continue
                for val, bb in t["targets"] + [["otherwise", t["otherwise"]]]:
                    res[val] = first_variant(f, bb, enum_path)
        return f, res
    raise AnchorLost("type-code decoder (%s) for %s not found" % (kind, enum_path))


def first_variant(f, bb, enum_path):
    """Variant of `enum_path` produced/used first on the straight-line path from bb."""
    cur = bb
    for _ in range(8):
        blk = f.blocks[cur]
        for s in blk["stmts"]:
            if s["k"] == "assign":
                rv = s["rv"]
                if rv["k"] == "aggregate" and rv.get("path") == enum_path:
                    return rv["variant"]
                if rv["k"] == "use" and rv["op"]["k"] == "const":
                    u = rv["op"].get("unevaluated")
                    if u and "promoted" in u:
                        pb = f.j["promoted"][u["promoted"]]
                        for pblk in pb["blocks"]:
                            for ps in pblk["stmts"]:
                                if ps["k"] == "assign" and ps["rv"]["k"] == "aggregate" and ps["rv"].get("path") == enum_path:
                                    return ps["rv"]["variant"]
                if rv["k"] == "aggregate" and rv.get("path") == flow.OPTION and rv["variant"] == "None":
                    return None
        t = blk["term"]
        ss = f.succ[cur]
        if len(ss) != 1:
            return None
        cur = ss[0]
    return None
