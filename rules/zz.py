"""ZZ: secret-type analysis shared by C16 and C05 (type-structural, over ADT facts and the MIR of
Zeroize / Drop impls and the explicit wipe routine)."""
from . import core
from .core import AnchorLost

ZEROIZE_TRAIT = "zeroize::Zeroize"
DROP_TRAIT = "core::ops::drop::Drop"
ZEROIZE_CALLEES = (
    "zeroize::Zeroize::zeroize",
    "zeroize::__internal::AssertZeroize::zeroize_or_on_drop",
    "zeroize::__internal::AssertZeroizeOnDrop::zeroize_or_on_drop",
)
SUPPRESSORS = ("core::mem::manually_drop::ManuallyDrop", "core::mem::maybe_uninit::MaybeUninit")
FORGETTERS = (
    "core::mem::forget", "core::mem::manually_drop::ManuallyDrop::new", "alloc::boxed::Box::leak",
    "alloc::boxed::Box::into_raw", "core::mem::maybe_uninit::MaybeUninit::new",
)


def impl_fn(F, adt_path, trait, method):
    """Path of `<adt as trait>::method` if the crate has such an impl."""
    for im in F.impls:
        if im.get("trait") == trait and im["self_ty"].get("k") == "adt" and im["self_ty"]["path"] == adt_path:
            for it in im["items"]:
                if it["name"] == method and it["path"] in F.fns:
                    return it["path"]
    return None


def has_impl(F, adt_path, trait):
    for im in F.impls:
        if im.get("trait") == trait and im["self_ty"].get("k") == "adt" and im["self_ty"]["path"] == adt_path:
            return True
    return False


def wrapper_types(F):
    """The zeroizing fixed-capacity wrapper(s): local ADTs implementing zeroize::DefaultIsZeroes."""
    out = []
    for im in F.impls:
        if im.get("trait") == "zeroize::DefaultIsZeroes" and im["self_ty"].get("k") == "adt":
            out.append(im["self_ty"]["path"])
    return sorted(set(out))


def fields_of(F, adt_path):
    a = F.adts.get(adt_path)
    if a is None:
        raise AnchorLost("ADT %s not found" % adt_path)
    fs = []
    for v in a["variants"]:
        for f in v["fields"]:
            fs.append(f)
    return fs


def type_owns_storage(F, ty, selfwiping=()):
    """Does a field type own byte storage (arrays, slices, fixed-capacity vectors) by value, outside
    of ADTs that wipe themselves?  Scalars, PhantomData and scalar-only structs do not."""
    k = ty.get("k")
    if k in ("int", "bool", "char", "float", "never", "param"):
        return False
    if k in ("array", "slice", "str"):
        return True
    if k == "tuple":
        return any(type_owns_storage(F, e, selfwiping) for e in ty["elems"])
    if k in ("ref", "ptr", "fnptr", "fndef", "closure", "dyn"):
        return False
    if k == "adt":
        p = ty["path"]
        if p == "core::marker::PhantomData":
            return False
        if p in selfwiping:
            return False
        if p in F.adts:
            return any(type_owns_storage(F, f["ty"], selfwiping) for f in fields_of(F, p))
        # extern ADT: generic containers own what their arguments own; ArrayVec<[T;N]> has an array arg
        args = [a for a in ty.get("args", []) if isinstance(a, dict) and a.get("k") != "const"]
        if not args:
            # opaque extern type without type arguments (e.g. a hasher state): treat as storage
            return True
        return any(type_owns_storage(F, a, selfwiping) for a in args)
    return True  # unknown/deep: conservative


def coverage(F, fn_path, adt_path, _depth=0):
    """Set of field names of `adt_path` that function `fn_path` (self = _1) wipes, i.e. passes by
    `&mut self.field` (possibly re-borrowed) to a Zeroize call, or overwrites by assignment of a
    freshly built value.  A call `<Self as Zeroize>::zeroize(self)` delegates to that impl."""
    f = F.fn(fn_path)
    covered = set()
    # map: local -> field name it is a &mut to (through reborrows)
    fld = {}
    whole = {1}
    changed = True
    while changed:
        changed = False
        for b, i, s in f.iter_stmts():
            if s["k"] != "assign" or s["place"]["proj"]:
                continue
            l = s["place"]["local"]
            rv = s["rv"]
            src = None
            if rv["k"] == "ref" and rv["bk"] == "mut":
                p = rv["place"]
                pr = p["proj"]
                if len(pr) == 2 and pr[0]["k"] == "deref" and pr[1]["k"] == "field" and p["local"] in whole:
                    src = ("field", pr[1].get("name"))
                elif len(pr) == 1 and pr[0]["k"] == "deref" and p["local"] in fld:
                    src = ("field", fld[p["local"]])
                elif len(pr) == 1 and pr[0]["k"] == "deref" and p["local"] in whole:
                    src = ("whole", None)
            elif rv["k"] == "use":
                sl = core.op_local(rv["op"])
                if sl in fld:
                    src = ("field", fld[sl])
                elif sl in whole:
                    src = ("whole", None)
            if src:
                if src[0] == "field" and fld.get(l) != src[1]:
                    fld[l] = src[1]
                    changed = True
                elif src[0] == "whole" and l not in whole:
                    whole.add(l)
                    changed = True
    for b, t in f.calls():
        c = core.callee_of(t)
        if c is None or not t["args"]:
            continue
        decl = core.strip_generics(c["path"])
        a0 = core.op_local(t["args"][0])
        if decl in ZEROIZE_CALLEES or (c.get("trait") == ZEROIZE_TRAIT):
            if a0 in fld:
                covered.add(fld[a0])
            elif a0 in whole and _depth < 3:
                z = impl_fn(F, adt_path, ZEROIZE_TRAIT, "zeroize")
                if z and z != fn_path:
                    covered |= coverage(F, z, adt_path, _depth + 1)
    # direct overwrites  (*self).field = <value>
    for b, i, s in f.iter_stmts():
        if s["k"] == "assign":
            p = s["place"]
            pr = p["proj"]
            if len(pr) == 2 and pr[0]["k"] == "deref" and pr[1]["k"] == "field" and p["local"] in whole:
                if f.blocks[b]["cleanup"]:
                    continue
                covered.add(pr[1].get("name"))
    return covered


def secret_sets(F, A):
    """Returns (wrappers, leaf holders L, closure S) of ADT paths."""
    wr = wrapper_types(F)
    if not wr:
        raise AnchorLost("no local type implements zeroize::DefaultIsZeroes (zeroizing wrapper)")
    leaves = set()
    for p, a in F.adts.items():
        if p in wr:
            continue
        for f in fields_of(F, p):
            if F.local_adts_in_type(f["ty"]) & set(wr):
                leaves.add(p)
    S = set(leaves)
    changed = True
    while changed:
        changed = False
        for p in F.adts:
            if p in S or p in wr:
                continue
            for f in fields_of(F, p):
                if F.local_adts_in_type(f["ty"]) & S:
                    S.add(p)
                    changed = True
                    break
    return wr, leaves, S
