"""PF: panic-freedom / totality engine (C06, C11, C10-3, C13, C14-3, C15-6).

  P1  enumerate every panic-capable site (Assert terminators, calls to partial callees per
      rules/summaries.py, explicit panics) in every function reachable from the entry points
  P2  discharge each: (a) interval analysis proves the goal in every analysed context, or the
      site's block is infeasible in every context; (b) a reviewed obligation (rules/obligations.py)
      whose guard-fact / table-fact dependencies hold on the current tree
  P3  termination: no recursion (or reviewed bounded recursion), every CFG loop is driven by a
      finite iterator or has a decreasing measure
Anything left is a violation naming the site and the call chain from an entry point.
"""
from . import core, expr, flow, ia, summaries
from .core import AnchorLost


class PSite:
    def __init__(self, f, bb, kind, callee, desc, operand, span):
        self.f, self.bb, self.kind, self.callee, self.desc, self.operand, self.span = f, bb, kind, callee, desc, operand, span
        self.ordinal = 0
        self.status = None  # "ia" | "dead" | "obl" | None
        self.detail = ""

    @property
    def key(self):
        return "%s|%s|%s|%d" % (self.f.key, self.desc, self.operand, self.ordinal)

    def where(self):
        return "%s:%s" % (self.span["file"], self.span["line"])


def operand_descr(F, f, o):
    """Stable, line-free description of an operand: user variable / field path / callee result."""
    if o is None:
        return "-"
    ex = expr.Expr(F, f, inline_getters=True, max_depth=12)
    e = ex.of_operand(o)
    if f.j.get("parent_fn") and "{closure" in f.path:
        e = _name_captures(F, f, e)
    return short(e, f)


def _name_captures(F, f, e, depth=0):
    """Inside a closure, describe a captured variable (`(*_1).k`) by what the enclosing function captured."""
    if not isinstance(e, tuple) or depth > 12:
        return e
    if e[0] == "field" and e[1] == ("arg", 1) and str(e[2]).isdigit():
        parent = F.fns.get(f.j.get("parent_fn")) or F.fns.get(f.path.rsplit("::{closure", 1)[0])
        if parent is not None:
            for b, i, st in parent.iter_stmts():
                if st["k"] == "assign" and st["rv"]["k"] == "aggregate" and st["rv"].get("agg") == "closure" and st["rv"].get("path") == f.path:
                    ops = st["rv"]["ops"]
                    if int(e[2]) < len(ops):
                        return ("captured", operand_descr(F, parent, ops[int(e[2])]))
        return e
    return tuple(_name_captures(F, f, x, depth + 1) if isinstance(x, tuple) else x for x in e)


def short(e, f, depth=0):
    if not isinstance(e, tuple) or depth > 3:
        return "…"
    k = e[0]
    if k == "const":
        return str(e[1]) if not isinstance(e[1], tuple) else "bytes"
    if k == "arg":
        return f.names.get(e[1], "arg%d" % e[1])
    if k == "var":
        return f.names.get(e[1], "tmp")
    if k == "field":
        return "%s.%s" % (short(e[1], f, depth + 1), e[2])
    if k == "index":
        return "%s[%s]" % (short(e[1], f, depth + 1), short(e[2], f, depth + 1))
    if k == "call":
        return "%s(%s)" % (e[1].split("::")[-1], ",".join(short(a, f, depth + 1) for a in e[2][:2]))
    if k == "bin":
        return "(%s %s %s)" % (short(e[2], f, depth + 1), e[1], short(e[3], f, depth + 1))
    if k == "cast":
        return short(e[1], f, depth)
    if k == "variant":
        return short(e[1], f, depth)
    if k == "assoc":
        return e[1].split("::")[-1]
    if k == "un":
        return "%s(%s)" % (e[1], short(e[2], f, depth + 1))
    if k == "captured":
        return e[1]
    return k


def enumerate_sites(F, tree):
    sites = []
    for p in sorted(tree):
        f = F.fns[p]
        counts = {}
        for b, blk in enumerate(f.blocks):
            if blk["cleanup"]:
                continue
            t = blk["term"]
            s = None
            if t["k"] == "assert":
                m = t["msg"]
                desc = "assert:" + m["kind"] + (":" + m["op"] if "op" in m else "")
                main = m.get("index") or m.get("a")
                other = m.get("b")
                od = operand_descr(F, f, main)
                if other is not None and m["kind"] == "Overflow":
                    od += "," + operand_descr(F, f, other)
                s = PSite(f, b, "assert", None, desc, od, t["span"])
            elif t["k"] == "call":
                c = core.callee_of(t)
                if c is None:
                    continue
                cls = summaries.partial_class(c)
                if cls is None:
                    continue
                # Index on a *local* type is analysed through its own body
                r = c.get("resolved")
                if r and r["kind"] == "item" and r["crate"] == core.LOCAL_CRATE:
                    continue
                decl, res = summaries.resolved_decl(c)
                name = res or decl
                desc = "call:%s" % name
                args = t["args"]
                od = operand_descr(F, f, args[0]) if args else "-"
                if cls in ("slice-index", "array-index", "index", "split", "capacity") and len(args) > 1:
                    od += "," + operand_descr(F, f, args[1])
                s = PSite(f, b, cls, name, desc, od, t["span"])
            if s is not None:
                k = (s.desc, s.operand)
                s.ordinal = counts.get(k, 0)
                counts[k] = s.ordinal + 1
                sites.append(s)
    return sites


def assoc_partitions(F, an, rows=True):
    """Distinct bindings of the hash trait's associated constants over the local impls
    (finite trace partitioning: one IA pass per binding instead of the hull)."""
    by_impl = {}
    for p, c in F.consts.items():
        im = c.get("impl")
        if im and im.get("trait") and "val" in c:
            by_impl.setdefault(im["self_ty"]["s"], {})["%s::%s" % (im["trait"], c["name"])] = (c["val"], c["val"])
    parts = []
    for k, b in sorted(by_impl.items()):
        if b not in parts:
            parts.append(b)
    parts = parts or [{}]
    if not rows:
        return parts
    # refine by LM-OTS parameter row (w, p, ls, type) per hash size: relations such as
    # floor((p-1)*w/8) <= n+1 become provable without a relational domain
    try:
        from . import paramtable as pt
        from .api import Api
        A = Api(F)
        f, padt, order, rows = pt.constructor_table(F, an, A.type_path("LmotsAlgorithm"))
        tr = pt.hash_trait(F)
        out = []
        for b in parts:
            ev = pt.eval_rows(F, an, f, order, rows, b)
            sub = []
            for disc, r in sorted(ev.items(), key=lambda kv: str(kv[0])):
                if r is None:
                    continue
                fb = dict(b)
                okr = True
                for fld, iv in r.items():
                    if fld.startswith("#"):
                        continue
                    if iv is None or iv[0] != iv[1]:
                        okr = False
                    else:
                        fb[(padt, fld)] = iv
                if okr:
                    sub.append(fb)
            out.extend(sub or [b])
        return out
    except Exception:
        return parts


def slice_fields(F):
    """(adt, field) of every slice-reference / fixed-capacity-vector typed field of a local ADT."""
    out = []
    for p, a in F.adts.items():
        for v in a["variants"]:
            for fl in v["fields"]:
                t = fl["ty"]
                if (t.get("k") == "ref" and t["ty"].get("k") == "slice") or (t.get("k") == "adt" and t.get("path") == "tinyvec::arrayvec::ArrayVec"):
                    out.append((p, fl["name"]))
    return out


def discharge_with_ia(F, an, entries, sites, tree=None, partitions=True):
    """One IA pass per assoc-const binding; a site is discharged only if it is in every pass."""
    from .paramtable import bind_assoc

    per_site = {id(s): [] for s in sites}
    for binding in (assoc_partitions(F, an, rows=(partitions is True)) if partitions else [{}]):
        with bind_assoc(an, binding):
            an.sites = {}
            an._reached = {}
            an.establish_field_lens(slice_fields(F))
            an.sites = {}
            an._reached = {}
            an.memo = {}
            an.ctx_count = {}
            an.add_obs, an.trip, an.incr, an.def_obs = {}, {}, {}, {}
            an.trip_seen = set()
            _one_pass(F, an, entries, sites, tree)
            # budget idioms with this partition's own trip counts and increments (joined over partitions they would
            # combine the chain count of one parameter row with the digit size of another)
            capacity_budget(F, an, sites)
            accumulator_budget(F, an, sites)
            range_len_index(F, an, sites)
            for s in sites:
                per_site[id(s)].append((s.status, s.detail))
                s.status, s.detail = None, ""
    for s in sites:
        res = per_site[id(s)]
        if all(r[0] in ("ia", "dead", "budget") for r in res):
            if any(r[0] == "budget" for r in res):
                s.status = "budget"
                s.detail = next(r[1] for r in res if r[0] == "budget")
            else:
                s.status = "dead" if all(r[0] == "dead" for r in res) else "ia"
                s.detail = res[0][1]
        else:
            s.status = None
            s.detail = next(r[1] for r in res if r[0] not in ("ia", "dead", "budget"))
    return sites


def _one_pass(F, an, entries, sites, tree):
    an.log_ctx = True
    for e in entries:
        f = F.fns[e]
        an.call_local(e, [None] * f.arg_count)
    an.log_ctx = False
    # functions reachable only through over-approximated edges (extern callbacks, drop glue) are
    # analysed with unknown arguments
    # A function none of whose call sites is feasible is dead; one that IA did not enter although a live block
    # calls it (trait dispatch, callbacks, drop glue, closures, context limits) is analysed with unknown arguments.
    callers = {}
    for src in (tree or []):
        for tp, b, k in F.cg.get(src, []):
            callers.setdefault(tp, []).append((src, b, k))
    changed = True
    while changed:
        changed = False
        reached = getattr(an, "_reached", {})
        for p in sorted(tree or []):
            if p in reached:
                continue
            live_caller = False
            for src, b, k in callers.get(p, []):
                if src in reached and (b is None or b in reached[src]):
                    live_caller = True
                    break
            if p in entries:
                live_caller = True
            if live_caller:
                f = F.fns[p]
                an.call_local(p, [None] * f.arg_count)
                changed = True
    reached = getattr(an, "_reached", {})
    for s in sites:
        fp = s.f.path
        if fp not in reached:
            s.status = "dead"
            s.detail = "every call site of the function is infeasible in every analysed context"
            continue
        if s.bb not in reached[fp]:
            s.status = "dead"
            s.detail = "block infeasible in every analysed context"
            continue
        recs = an.sites.get((fp, s.bb), [])
        if recs and all(r.proved for r in recs):
            s.status = "ia"
            s.detail = "interval analysis proves the goal in %d context(s)" % len(recs)
        elif recs:
            bad = [r for r in recs if not r.proved]
            s.detail = "IA: %s" % bad[0].detail
    return sites


def loops_and_recursion(F, tree):
    """Returns (recursive SCCs, list of (fn, header-ish block set, driver description or None))."""
    rec = []
    for comp in F.recursive_fns(tree.keys()):
        # a cycle that only exists through trait dispatch on a type parameter of the impl's own type
        # (e.g. `<Wrapper<T> as Default>::default` calling `T::default()`) recurses on a strictly smaller
        # type term: bounded by the (finite) nesting depth of the type, not by data
        structural = True
        for p in comp:
            f = F.fns[p]
            for b, t in f.calls():
                if any(tp in comp for tp in F.call_targets(f, t)):
                    c = core.callee_of(t)
                    st = (c or {}).get("self_ty", {})
                    im = f.j.get("impl", {})
                    if not (c and c.get("resolved") is None and st.get("k") == "param" and st.get("name") in (f.j.get("generics") or [])
                            and im.get("self_ty", {}).get("k") == "adt"):
                        structural = False
        if not structural:
            rec.append(comp)
    loops = []
    for p in sorted(tree):
        f = F.fns[p]
        for comp in f.sccs():
            if any(f.blocks[b]["cleanup"] for b in comp):
                continue
            driver = loop_driver(F, f, comp)
            loops.append((f, comp, driver))
    return rec, loops


FINITE_ITER_MARKERS = ("core::ops::range::Range", "core::slice::iter::Iter", "core::slice::iter::IterMut", "tinyvec::arrayvec::ArrayVecIterator",
                       "core::iter::adapters::", "core::ops::range::RangeInclusive", "core::slice::iter::Chunks", "core::array::iter::IntoIter",
                       "crossbeam_channel::channel::Iter")


def loop_driver(F, f, comp):
    """A loop is accepted if an exit edge of the component is decided by the `None` result of an
    `Iterator::next` call inside the component on a finite iterator type, or by a comparison on a
    local whose only in-loop definitions strictly decrease it (x / c, c >= 2; x - c, c >= 1;
    x >> c, c >= 1)."""
    for b in comp:
        t = f.blocks[b]["term"]
        if t["k"] == "call":
            c = core.callee_of(t)
            if c and (c.get("method") == "next" or core.strip_generics(c["path"]).endswith("::next")):
                st = c.get("s", "")
                if any(m in st for m in FINITE_ITER_MARKERS):
                    # its result must decide an exit from the component
                    dl = t["dest"]["local"]
                    for b2 in comp:
                        t2 = f.blocks[b2]["term"]
                        if t2["k"] == "switch" and any(s not in comp for s in f.succ[b2]):
                            l = core.op_local(t2["discr"])
                            ds = f.defs_of(l) if l is not None else []
                            for d in ds:
                                if d[1] != "term" and d[2]["k"] == "assign" and d[2]["rv"]["k"] == "discr" and d[2]["rv"]["place"]["local"] == dl:
                                    return "iterator:%s" % st.split(" as ")[0][:80]
    # measure loops
    ex = expr.Expr(F, f)
    for b in comp:
        t = f.blocks[b]["term"]
        if t["k"] == "switch" and any(s not in comp for s in f.succ[b]):
            e = ex.of_operand(t["discr"])
            for x in expr.walk(e):
                if x[0] == "bin" and x[1] in ("Gt", "Ge", "Lt", "Le", "Ne"):
                    for side in (x[2], x[3]):
                        if side[0] == "var":
                            v = side[1]
                            indefs = [d for d in f.defs_of(v) if d[0] in comp and not f.blocks[d[0]]["cleanup"]]
                            if indefs and all(decreasing(ex, d, v) for d in indefs):
                                return "measure:%s strictly decreases" % f.names.get(v, "_%d" % v)
    # counting loops: `while j < end { ..; j += c }` (c >= 1 a constant, the addition overflow-checked, `end` not assigned in the
    # loop, every in-loop definition of j is that addition): end - j strictly decreases
    for b in comp:
        t = f.blocks[b]["term"]
        if t["k"] != "switch" or not any(s_ not in comp for s_ in f.succ[b]):
            continue
        l = core.op_local(t["discr"])
        ds = f.defs_of(l) if l is not None else []
        if len(ds) != 1 or ds[0][1] == "term" or ds[0][2]["rv"]["k"] != "binop" or ds[0][2]["rv"]["op"] not in ("Lt", "Le", "Gt", "Ge", "Ne"):
            continue
        rv = ds[0][2]["rv"]
        for ctr_side, bound_side, ops in ((rv["a"], rv["b"], ("Lt", "Le")), (rv["b"], rv["a"], ("Gt", "Ge"))):
            if rv["op"] not in ops:
                continue
            ctr = root_local(f, ctr_side)
            if ctr is None or ia.ty_range(f.locals[ctr]["ty"]) is None:
                continue
            bound_const = bound_side["k"] == "const"
            broot = root_local(f, bound_side) if not bound_const else None
            if not bound_const and (broot is None or [d for d in f.defs_of(broot) if d[0] in comp]):
                continue
            indefs = [d for d in f.defs_of(ctr) if d[0] in comp and not f.blocks[d[0]]["cleanup"]]
            good = bool(indefs)
            for d in indefs:
                srcs = [ab for ab in comp if f.blocks[ab]["term"]["k"] == "assert" and f.blocks[ab]["term"]["msg"].get("kind") == "Overflow"
                        and f.blocks[ab]["term"]["msg"].get("op") == "Add" and feeds_from(f, d, ab)]
                if len(srcs) != 1:
                    good = False
                    break
                m = f.blocks[srcs[0]]["term"]["msg"]
                a_is = root_local(f, m["a"]) == ctr
                other = m["b"] if a_is else m["a"]
                cv = core.op_const_val(other)
                if not (a_is or root_local(f, m["b"]) == ctr) or cv is None or cv < 1:
                    good = False
                    break
            # the increment lies on every way round the loop through the test
            if good:
                incs = {d[0] for d in indefs}
                seen, work, cyc = set(), [s_ for s_ in f.succ[b] if s_ in comp and s_ not in incs], False
                while work:
                    x = work.pop()
                    if x == b:
                        cyc = True
                        break
                    if x in seen:
                        continue
                    seen.add(x)
                    work.extend(s_ for s_ in f.succ[x] if s_ in comp and s_ not in incs)
                if not cyc:
                    return "measure: bound - %s strictly decreases (counter incremented by a constant on every path round the loop)" % f.names.get(ctr, "_%d" % ctr)
    # growing-vector loops: `while v.len() < bound { .. v.push(..) .. }` with a loop-invariant bound and a push on every
    # path round the loop: bound - len strictly decreases
    for b in comp:
        t = f.blocks[b]["term"]
        if t["k"] != "switch" or not any(s not in comp for s in f.succ[b]):
            continue
        l = core.op_local(t["discr"])
        ds = f.defs_of(l) if l is not None else []
        if len(ds) != 1 or ds[0][1] == "term" or ds[0][2]["rv"]["k"] != "binop" or ds[0][2]["rv"]["op"] not in ("Lt", "Gt", "Le", "Ge", "Ne"):
            continue
        rv = ds[0][2]["rv"]
        for len_side, bound_side in ((rv["a"], rv["b"]), (rv["b"], rv["a"])):
            o = flow.origin(f, len_side)
            if o[0] != "call" or not core.strip_generics(core.callee_path(o[2]) or "").endswith("ArrayVec::len"):
                continue
            vec = flow.resolve_owner(f, o[2]["args"][0])
            bl = core.op_local(bound_side)
            bound_const = bound_side["k"] == "const"
            root = root_local(f, bound_side) if not bound_const else None
            invariant = bound_const or (root is not None and not [d for d in f.defs_of(root) if d[0] in comp])
            if vec is None or not invariant:
                continue
            pushes = [pb for pb in comp if f.blocks[pb]["term"]["k"] == "call" and core.strip_generics(core.callee_path(f.blocks[pb]["term"]) or "") in LEN_GROWING
                      and flow.resolve_owner(f, f.blocks[pb]["term"]["args"][0], want_mut=True) == vec]
            shrinks = [pb for pb in comp if f.blocks[pb]["term"]["k"] == "call" and core.strip_generics(core.callee_path(f.blocks[pb]["term"]) or "").rsplit("::", 1)[-1] in ("pop", "clear", "truncate", "remove", "set_len", "drain")
                       and f.blocks[pb]["term"]["args"] and flow.resolve_owner(f, f.blocks[pb]["term"]["args"][0], want_mut=True) == vec]
            # every cycle through the test block contains a push: with the push blocks removed, the test block cannot reach itself
            def cycle_without_push():
                seen = set()
                work = [s2 for s2 in f.succ[b] if s2 in comp and s2 not in pushes]
                while work:
                    x = work.pop()
                    if x == b:
                        return True
                    if x in seen:
                        continue
                    seen.add(x)
                    for s2 in f.succ[x]:
                        if s2 in comp and s2 not in pushes:
                            work.append(s2)
                return False
            if pushes and not shrinks and not cycle_without_push():
                return "measure: bound - %s.len() strictly decreases (a push on every path round the loop)" % f.names.get(vec, "_%d" % vec)
    return None


def decreasing(ex, d, v):
    b, i, s = d
    if i == "term" or s["k"] != "assign":
        return False
    e = ex.of_rvalue(s["rv"], 0)
    if e[0] == "bin" and e[2] == ("var", v) and e[3][0] == "const" and isinstance(e[3][1], int):
        c = e[3][1]
        return (e[1] == "Div" and c >= 2) or (e[1] == "Sub" and c >= 1) or (e[1] == "Shr" and c >= 1)
    return False


LEN_NEUTRAL = {
    "tinyvec::arrayvec::ArrayVec::as_slice", "tinyvec::arrayvec::ArrayVec::as_mut_slice", "tinyvec::arrayvec::ArrayVec::len",
    "tinyvec::arrayvec::ArrayVec::is_empty", "tinyvec::arrayvec::ArrayVec::capacity", "tinyvec::arrayvec::ArrayVec::get_mut",
    "<tinyvec::arrayvec::ArrayVec<A> as core::ops::deref::Deref>::deref", "<tinyvec::arrayvec::ArrayVec<A> as core::ops::deref::DerefMut>::deref_mut",
    "<tinyvec::arrayvec::ArrayVec<A> as core::ops::index::Index<I>>::index", "<tinyvec::arrayvec::ArrayVec<A> as core::ops::index::IndexMut<I>>::index_mut",
    "core::slice::copy_from_slice", "core::slice::index::index", "core::slice::index::index_mut", "core::slice::iter", "core::slice::iter_mut",
    "core::slice::len", "core::slice::get", "core::slice::get_mut", "core::slice::fill",
}
LEN_GROWING = {"tinyvec::arrayvec::ArrayVec::push": "push", "tinyvec::arrayvec::ArrayVec::extend_from_slice": "extend"}


def loop_trip(F, an, f, header, body, loops):
    """Trip bound of a natural loop: the IA-recorded bound of the `next` call that sits in this loop
    but in no strictly smaller loop."""
    inner = [b2 for h2, b2 in loops if b2 < body]
    cands = []
    for b in body:
        if any(b in i for i in inner):
            continue
        t = f.blocks[b]["term"]
        if t["k"] == "call":
            c = core.callee_of(t)
            if c and (c.get("method") == "next" or core.strip_generics(c["path"]).endswith("::next")):
                cands.append(b)
    if len(cands) != 1:
        return None
    return an.trip.get((f.path, cands[0]))


ELEMENT_ACCESS = {
    "<tinyvec::arrayvec::ArrayVec<A> as core::ops::deref::DerefMut>::deref_mut", "<tinyvec::arrayvec::ArrayVec<A> as core::ops::index::IndexMut<I>>::index_mut",
    "tinyvec::arrayvec::ArrayVec::as_mut_slice", "tinyvec::arrayvec::ArrayVec::get_mut", "tinyvec::arrayvec::ArrayVec::iter_mut",
    "tinyvec::arrayvec::ArrayVec::last_mut", "tinyvec::arrayvec::ArrayVec::first_mut",
}


def vector_escapes(f, v, path):
    """Callees (other than growth / element access) that receive a `&mut` to the vector at (v, path) or to
    an aggregate containing it.  References obtained through element access cannot change its length."""
    bad = []
    for b, i, st in f.iter_stmts():
        if st["k"] != "assign" or st["rv"]["k"] not in ("ref", "rawptr") or st["rv"].get("bk") != "mut" or f.blocks[b]["cleanup"]:
            continue
        pl = st["rv"]["place"]
        if pl["local"] != v:
            continue
        bp = []
        okp = True
        for e in pl["proj"]:
            if e["k"] == "field":
                bp.append(e.get("name", str(e["i"])) if "adt" in e else str(e["i"]))
            elif e["k"] in ("deref",):
                continue
            else:
                okp = False
        bp = tuple(bp)
        # borrow of the vector itself, or of something containing it
        if not (bp == path[: len(bp)]):
            continue
        if not okp or st["place"]["proj"]:
            bad.append("stored")
            continue
        seen = set()
        work = [st["place"]["local"]]
        while work:
            x = work.pop()
            if x in seen:
                continue
            seen.add(x)
            for bb, ii, kind, item in flow.uses_of_local(f, x):
                if f.blocks[bb]["cleanup"]:
                    continue
                if kind == "stmt":
                    rv = item["rv"]
                    if rv["k"] in ("ref", "use", "cast", "rawptr") and not item["place"]["proj"]:
                        work.append(item["place"]["local"])
                    else:
                        bad.append("stored")
                elif kind == "call":
                    pth = core.strip_generics(core.callee_path(item) or "?")
                    if pth in LEN_GROWING or pth in ELEMENT_ACCESS or pth in LEN_NEUTRAL:
                        continue
                    bad.append(pth)
                elif kind != "drop":
                    bad.append(kind)
    return bad


def index_guard(F, an, f, bb, own, cap, loops):
    """Idiom: the only growth site of an initially empty vector sits in a loop driven by a range starting at 0,
    is executed at most once per iteration with an increment of at most 1, and is reached only through the edge
    of a comparison `i < C` (any spelling) of the loop index with a constant C <= capacity.  Then
    len <= i < C <= capacity at the site.  Returns a description or None."""
    inner = [(h, body) for h, body in loops if bb in body]
    if len(inner) != 1:
        return None
    h, body = inner[0]
    grow = []
    for b, t2 in f.calls():
        if f.blocks[b]["cleanup"]:
            continue
        p2 = core.strip_generics(core.callee_path(t2) or "")
        if p2 in LEN_GROWING and flow.resolve_owner_path(f, t2["args"][0], want_mut=True) == own:
            grow.append(b)
    if grow != [bb] or (an.incr.get((f.path, bb)) or 99) > 1:
        return None
    # the loop driver: `next` of a Range<usize> whose start is the constant 0, or of an `enumerate()` adaptor
    # (numbering starts at 0 whatever it wraps) that is consumed directly (no skip/step/rev above it)
    idx_local = None
    idx_proj = None
    for b in body:
        t = f.blocks[b]["term"]
        if t["k"] != "call" or not core.strip_generics(core.callee_path(t) or "").endswith("::next"):
            continue
        ity = (core.op_place(t["args"][0]) or {}).get("ty", "")
        it = iter_owner_local(f, t["args"][0])
        if it is None:
            continue
        o = flow.origin(f, {"k": "copy", "place": {"local": it, "proj": []}})
        if o[0] == "call" and core.strip_generics(core.callee_path(o[2]) or "").endswith("into_iter"):
            o = flow.origin(f, o[2]["args"][0])
        if "ops::range::Range<usize>" in ity:
            rl = None
            if o[0] == "local" and o[1] is not None:
                rl = o[1]
            ds = [d for d in f.defs_of(rl)] if rl is not None else []
            if len(ds) == 1 and ds[0][1] != "term" and ds[0][2]["rv"]["k"] == "aggregate" and "ops::range::Range" in ds[0][2]["rv"].get("path", ""):
                if core.op_const_val(ds[0][2]["rv"]["ops"][0]) == 0:
                    idx_local, idx_proj = t["dest"]["local"], ["downcast", "field"]
        elif "adapters::enumerate::Enumerate<" in ity.split("&mut ")[-1][:60]:
            if o[0] == "call" and core.strip_generics(core.callee_path(o[2]) or "").endswith("::enumerate"):
                idx_local, idx_proj = t["dest"]["local"], ["downcast", "field", "field"]
    if idx_local is None:
        return None

    def is_index(o):
        """operand is a copy of (next() as Some).0 (range) / (next() as Some).0.0 (enumerate)"""
        acc = []
        for _ in range(6):
            p = core.op_place(o)
            if p is None:
                return False
            acc = p["proj"] + acc
            if p["local"] == idx_local:
                return ([e["k"] for e in acc] == idx_proj and all(e.get("i", 0) == 0 for e in acc if e["k"] == "field"))
            ds = f.defs_of(p["local"])
            if len(ds) != 1 or ds[0][1] == "term" or ds[0][2]["k"] != "assign" or ds[0][2]["rv"]["k"] != "use":
                return False
            o = ds[0][2]["rv"]["op"]
        return False
    for g in body:
        t = f.blocks[g]["term"]
        if t["k"] != "switch" or not f.dominates(g, bb) or g == bb:
            continue
        l = core.op_local(t["discr"])
        ds = f.defs_of(l) if l is not None else []
        if len(ds) != 1 or ds[0][1] == "term" or ds[0][2]["rv"]["k"] != "binop":
            continue
        rv = ds[0][2]["rv"]
        op, a, b_ = rv["op"], rv["a"], rv["b"]
        c = core.op_const_val(b_)
        if not is_index(a) or c is None:
            continue
        zero_t = [tg for v, tg in t["targets"] if v == 0]
        other = t.get("otherwise")
        if op in ("Ge", "Gt") and zero_t:
            edge, bound = zero_t[0], (c if op == "Ge" else c + 1)
        elif op in ("Lt", "Le") and other is not None:
            edge, bound = other, (c if op == "Lt" else c + 1)
        else:
            continue
        if bound <= cap and flow.edge_dominates(f, g, edge, bb):
            return "one growth site per iteration of a loop over 0.., reached only when index < %d <= capacity %d (guard at %s)" % (bound, cap, f.loc(g))
    return None


INDEX_CALLS = {"<tinyvec::arrayvec::ArrayVec<A> as core::ops::index::Index<I>>::index", "<tinyvec::arrayvec::ArrayVec<A> as core::ops::index::IndexMut<I>>::index_mut"}


def range_len_index(F, an, sites):
    """Idiom `for i in s..v.len() { v[i] }` (s a constant): the index site's operand is the `Some` payload of `next`
    on a `Range<usize>` whose end is `len()` of the *same* vector, and the vector's length cannot have changed in
    between (it has one definition in the function and no `&mut` borrow of it reaches anything but element access).
    Intervals cannot express i < len(v); this relational fact is read off the loop's shape."""
    for s in sites:
        if s.status is not None or s.kind != "index" or s.callee not in INDEX_CALLS:
            continue
        f = s.f
        t = f.blocks[s.bb]["term"]
        if len(t["args"]) != 2:
            continue
        own = flow.resolve_owner_path(f, t["args"][0])
        if own is None:
            continue
        v, path = own
        ndefs = len([d for d in f.defs_of(v) if not f.blocks[d[0]]["cleanup"] and not (d[1] != "term" and d[2]["place"]["proj"])])
        is_shared_param = 1 <= v <= f.arg_count and ndefs == 0 and f.locals[v]["ty"].get("k") == "ref" and not f.locals[v]["ty"].get("mut")
        if ndefs != 1 and not is_shared_param:
            continue
        if [x for x in vector_escapes(f, v, path)] or any(
                core.strip_generics(core.callee_path(t2) or "") in LEN_GROWING and flow.resolve_owner_path(f, t2["args"][0], want_mut=True) == own
                for b2, t2 in f.calls() if not f.blocks[b2]["cleanup"]):
            continue
        # index operand -> (next() as Some).0
        o = t["args"][1]
        nxt = None
        for _ in range(8):
            pl = core.op_place(o)
            if pl is None:
                break
            if [e["k"] for e in pl["proj"]] == ["downcast", "field"]:
                ds = [d for d in f.defs_of(pl["local"]) if not f.blocks[d[0]]["cleanup"]]
                if len(ds) == 1 and ds[0][1] == "term" and core.strip_generics(core.callee_path(ds[0][2]) or "").endswith("::next"):
                    nxt = ds[0][2]
                break
            if pl["proj"]:
                break
            ds = [d for d in f.defs_of(pl["local"]) if not f.blocks[d[0]]["cleanup"]]
            if len(ds) != 1 or ds[0][1] == "term" or ds[0][2]["k"] != "assign" or ds[0][2]["rv"]["k"] != "use":
                break
            o = ds[0][2]["rv"]["op"]
        if nxt is None or "ops::range::Range<usize>" not in (core.op_place(nxt["args"][0]) or {}).get("ty", ""):
            continue
        it = iter_owner_local(f, nxt["args"][0])
        if it is None:
            continue
        og = flow.origin(f, {"k": "copy", "place": {"local": it, "proj": []}})
        for _ in range(3):
            # into_iter / rev keep the set of indices (the same range walked in either direction)
            if og[0] == "call" and core.strip_generics(core.callee_path(og[2]) or "").rsplit("::", 1)[-1] in ("into_iter", "rev") and og[2]["args"]:
                og = flow.origin(f, og[2]["args"][0])
        if og[0] != "local" or og[1] is None:
            continue
        ds = [d for d in f.defs_of(og[1]) if not f.blocks[d[0]]["cleanup"]]
        if len(ds) != 1 or ds[0][1] == "term" or ds[0][2]["rv"]["k"] != "aggregate" or "ops::range::Range" not in ds[0][2]["rv"].get("path", ""):
            continue
        start, end = ds[0][2]["rv"]["ops"]
        if core.op_const_val(start) is None or core.op_const_val(start) < 0:
            continue
        eo = flow.origin(f, end)
        if eo[0] != "call" or core.strip_generics(core.callee_path(eo[2]) or "") != "tinyvec::arrayvec::ArrayVec::len":
            continue
        if flow.resolve_owner_path(f, eo[2]["args"][0]) != own:
            continue
        s.status = "budget"
        s.detail = "range-len index: the index is the variable of a loop over %d..len() of the same, length-stable vector" % core.op_const_val(start)


def iter_owner_local(f, operand):
    return flow.resolve_owner(f, operand, want_mut=True)


def capacity_budget(F, an, sites):
    """Idiom: a vector created empty in this function (directly, or as a field of a value created by a
    local `default()`), grown only by push / extend_from_slice sites whose (increment x enclosing loop trip
    counts), summed over all sites, stays within the capacity."""
    by_fn = {}
    for s in sites:
        if s.status is None and s.kind == "capacity" and s.callee in LEN_GROWING:
            by_fn.setdefault(s.f.path, []).append(s)
    for fp, ss in by_fn.items():
        f = F.fns[fp]
        loops = f.natural_loops()
        for s in ss:
            t = f.blocks[s.bb]["term"]
            own = flow.resolve_owner_path(f, t["args"][0], want_mut=True)
            if own is None:
                continue
            v, path = own
            aty = core.op_place(t["args"][0])["ty"]
            cap = ia.type_cap(aty)
            if cap is None:
                continue
            defs = [d for d in f.defs_of(v) if not f.blocks[d[0]]["cleanup"]]
            if len(defs) != 1 or defs[0][1] != "term":
                s.detail += " | budget: owner is not created by a single call"
                continue
            dterm = defs[0][2]
            dp = core.strip_generics(core.callee_path(dterm) or "")
            empty = False
            if not path and (dp == "tinyvec::arrayvec::ArrayVec::new" or dp.endswith("::default")):
                empty = True
            else:
                tps = F.call_targets(f, dterm)
                if len(tps) == 1 and not dterm["args"]:
                    r = an.call_local(tps[0], [])
                    empty = r.get(path + ("#len",)) == (0, 0)
            if not empty:
                s.detail += " | budget: vector not known to be created empty (%s)" % dp
                continue
            bad = vector_escapes(f, v, path)
            if bad:
                s.detail += " | budget: vector escapes to %s" % bad[:2]
                continue
            total = 0
            ok = True
            parts = []
            for b, t2 in f.calls():
                if f.blocks[b]["cleanup"]:
                    continue
                p2 = core.strip_generics(core.callee_path(t2) or "")
                if p2 in LEN_GROWING and flow.resolve_owner_path(f, t2["args"][0], want_mut=True) == own:
                    amt = an.incr.get((fp, b))
                    if amt is None:
                        ok = False
                        break
                    mult = 1
                    for h, body in loops:
                        if b in body:
                            tr = loop_trip(F, an, f, h, body, loops)
                            if tr is None:
                                ok = False
                                break
                            mult *= tr
                    if not ok:
                        break
                    total += amt * mult
                    parts.append("%dx%d" % (amt, mult))
            if ok and total <= cap:
                s.status = "budget"
                s.detail = "capacity budget: %s = %d <= %d" % (" + ".join(parts), total, cap)
            elif ok:
                ig = index_guard(F, an, f, s.bb, own, cap, loops)
                if ig:
                    s.status = "budget"
                    s.detail = "index-guarded budget: %s" % ig
                else:
                    s.detail += " | budget: %s = %d > capacity %d" % (" + ".join(parts), total, cap)
            else:
                s.detail += " | budget: a loop trip count or increment is unknown"


def accumulator_bound(F, an, f, l):
    """Upper bound of a loop-carried accumulator: an unsigned local all of whose definitions are either outside every loop
    (the initial values, taken from IA's record of those definitions) or, inside loops, the result of a checked addition to
    itself.  Then  x <= max(init) + sum over additions (max increment x product of the enclosing loops' trip counts).
    Returns (bound, description, blocks of the additions) or (None, reason, [])."""
    rng = ia.ty_range(f.locals[l]["ty"])
    if not rng or rng[0] != 0:
        return None, "not an unsigned local", []
    allloops = f.natural_loops()
    ds = [d for d in f.defs_of(l) if not f.blocks[d[0]]["cleanup"]]
    if any(d[1] != "term" and d[2].get("place", {}).get("proj") for d in ds):
        return None, "partially assigned", []
    inside = [d for d in ds if any(d[0] in body for h, body in allloops)]
    outside = [d for d in ds if d not in inside]
    if not inside or not outside:
        return None, "not loop-carried", []
    adds = []
    for d in inside:
        src = [ab for ab in range(len(f.blocks)) if f.blocks[ab]["term"]["k"] == "assert" and f.blocks[ab]["term"]["msg"].get("kind") == "Overflow"
               and f.blocks[ab]["term"]["msg"].get("op") == "Add" and not f.blocks[ab]["cleanup"] and feeds_from(f, d, ab)
               and l in (root_local(f, f.blocks[ab]["term"]["msg"]["a"]), root_local(f, f.blocks[ab]["term"]["msg"]["b"]))]
        if len(src) != 1:
            return None, "an in-loop definition is not a checked addition to itself", []
        adds.append(src[0])
    x0 = 0
    for d in outside:
        iv = an.def_obs.get((f.path, l, d[0]))
        if iv is None:
            if d[0] not in getattr(an, "_reached", {}).get(f.path, set()):
                continue
            return None, "initial value unknown", []
        x0 = max(x0, iv[1])
    total = 0
    parts = []
    for ab in adds:
        obs = an.add_obs.get((f.path, ab))
        if not obs and ab not in getattr(an, "_reached", {}).get(f.path, set()):
            continue  # this addition is infeasible in every analysed context
        if not obs or obs[0] is None or obs[1] is None:
            return None, "increment unknown", []
        tm = f.blocks[ab]["term"]["msg"]
        inc = obs[1] if root_local(f, tm["a"]) == l else obs[0]
        mult = 1
        for h, body in allloops:
            if ab in body:
                tr = loop_trip(F, an, f, h, body, allloops)
                if tr is None:
                    return None, "loop trip count unknown", []
                mult *= tr
        total += mult * inc[1]
        parts.append("%d x %d" % (mult, inc[1]))
    return x0 + total, "%d + %s = %d" % (x0, " + ".join(parts) or "0", x0 + total), adds


def fold_budget(F, an, s):
    """Idiom `iter.fold(init, |acc, x| acc + g(x))`: the site is the checked addition in the closure, one operand is the closure's
    accumulator parameter and the closure returns that sum; the closure is handed to `fold` with an iterator of known length.
    acc <= max(init) + runs x max(increment) must fit the accumulator's type."""
    f = s.f
    if "{closure" not in f.path or f.arg_count != 3:
        return None
    t = f.blocks[s.bb]["term"]
    m = t["msg"]
    acc_side = None
    for side in ("a", "b"):
        o = flow.origin(f, m[side])
        if o[0] == "arg" and o[1] == 2:
            acc_side = side
    if acc_side is None:
        return None
    # the closure returns the sum
    rds = [d for d in f.defs_of(0) if not f.blocks[d[0]]["cleanup"]]
    if len(rds) != 1 or not feeds_from(f, rds[0], s.bb):
        return None
    runs = an.obs.get(("closure-runs", f.path, None)) or []
    if not runs:
        return None
    obs = an.add_obs.get((f.path, s.bb))
    if not obs or obs[0] is None or obs[1] is None:
        return None
    inc = obs[1] if acc_side == "a" else obs[0]
    rng = ia.ty_range(f.locals[2]["ty"])
    if not rng or rng[0] != 0:
        return None
    worst = 0
    for parent, pb, rem, argiv in runs:
        pt = F.fns[parent].blocks[pb]["term"]
        if core.strip_generics(core.callee_path(pt) or "").rsplit("::", 1)[-1] != "fold" or len(argiv) != 3:
            return None
        init = argiv[1]
        if rem is None or init is None:
            return None
        worst = max(worst, init[1] + rem[1] * inc[1])
    if worst <= rng[1]:
        return "fold accumulator: init + runs x increment = %d <= %d" % (worst, rng[1])
    return None


def accumulator_budget(F, an, sites):
    """Idiom: `x += d` inside counted loop(s) where x is a loop-carried accumulator (see accumulator_bound): the bound must
    fit the type.  A later `x + y` on the finished accumulator is bounded by bound + max(y)."""
    for s in sites:
        if s.status is not None or s.desc != "assert:Overflow:Add":
            continue
        fb = fold_budget(F, an, s)
        if fb:
            s.status = "budget"
            s.detail = fb
            continue
        f = s.f
        t = f.blocks[s.bb]["term"]
        m = t["msg"]
        why = ""
        for side in ("a", "b"):
            l = root_local(f, m[side])
            if l is None:
                continue
            bound, descr, adds = accumulator_bound(F, an, f, l)
            if bound is None:
                why = descr
                continue
            rng = ia.ty_range(f.locals[l]["ty"])
            if s.bb in adds:
                if bound <= rng[1]:
                    s.status = "budget"
                    s.detail = "accumulator budget: %s <= %d" % (descr, rng[1])
                else:
                    why = "%s exceeds the type" % descr
                break
            # an addition to the accumulator that does not feed back into it
            obs = an.add_obs.get((f.path, s.bb))
            other = None if not obs else (obs[1] if side == "a" else obs[0])
            orng = ia.ty_range({"s": core.op_place(m[side])["ty"]}) if core.op_place(m[side]) else None
            if other is not None and orng and bound + other[1] <= orng[1]:
                s.status = "budget"
                s.detail = "accumulator budget: (%s) + %d <= %d" % (descr, other[1], orng[1])
                break
            why = "(%s) + %s exceeds the type" % (descr, other)
        if s.status is None and why:
            s.detail += " | accumulator: %s" % why


def root_local(f, operand, depth=0):
    p = core.op_place(operand)
    if p is None or p["proj"] or depth > 8:
        return None
    l = p["local"]
    ds = [d for d in f.defs_of(l) if not f.blocks[d[0]]["cleanup"]]
    if len(ds) == 1 and ds[0][1] != "term" and ds[0][2]["k"] == "assign" and ds[0][2]["rv"]["k"] == "use":
        r = root_local(f, ds[0][2]["rv"]["op"], depth + 1)
        return r if r is not None else l
    return l


def feeds_from(f, d, add_bb):
    """Is definition d `x = move (_t.0)` where _t is the checked-add pair asserted in block add_bb?"""
    b, i, st = d
    if i == "term" or st["k"] != "assign" or st["rv"]["k"] != "use":
        return False
    p = core.op_place(st["rv"]["op"])
    if p is None or not p["proj"]:
        return False
    pair = p["local"]
    t = f.blocks[add_bb]["term"]
    c = core.op_place(t["cond"])
    return c is not None and c["local"] == pair and f.blocks[add_bb]["term"]["target"] == b


def apply_obligations(F, A, an, sites):
    """Discharge remaining sites through the reviewed table; returns (requirement results, unused entry ids)."""
    import re
    from . import obligations, requires
    R = requires.Req(F, A, an)
    used = set()
    quota = {}
    for s in sorted(sites, key=lambda x: x.key):
        if s.status is not None:
            continue
        # a site inside a closure is also offered to the obligations of the function the closure belongs to
        fkeys = [s.f.key, re.sub(r"(::\{closure#\d+\})+$", "", s.f.key)]
        for ob in obligations.OBL:
            if not any(re.search(ob["fn"], k) for k in fkeys):
                continue
            if not re.search(ob["site"], s.desc):
                continue
            if ob.get("operand") and not re.search(ob["operand"], s.operand):
                continue
            if ob.get("max_sites") is not None:
                qk = (ob["id"], ob["fn"], ob["site"])
                if quota.get(qk, 0) >= ob["max_sites"]:
                    continue   # more sites of this kind than were reviewed: the extra one is not covered
                quota[qk] = quota.get(qk, 0) + 1
            res = [(r,) + R.check(r) for r in ob["requires"]]
            bad = [r for r in res if not r[1]]
            if bad and ob.get("alt"):
                # an alternative, equally reviewed, set of dependencies
                res2 = [(r,) + R.check(r) for r in ob["alt"]]
                if all(r[1] for r in res2):
                    res, bad = res2, []
                else:
                    b2 = [r for r in res2 if not r[1]][0]
                    bad = bad + [("%s [alternative set: %s does not hold (%s)]" % (bad[0][0], b2[0], b2[2][:200]), False, bad[0][2])]
                    bad = bad[-1:] + bad[:-1]
            if bad:
                s.detail = "reviewed obligation %s no longer applies: dependency %s does not hold (%s) | %s" % (ob["id"], bad[0][0], bad[0][2][:200], s.detail)
                s.failed_req = bad[0][0]
            else:
                s.status = "obl"
                s.detail = "obligation %s: %s [requires %s]" % (ob["id"], ob["reason"], ", ".join(r[0] for r in res))
                used.add(ob["id"])
            break
    return R, used


def sites_in_blocks(F, an, f, blocks):
    """Sites of function f lying in `blocks`, analysed by a finished run (statuses are those of the last run(); used for
    the tail of a function whose other sites belong to another property)."""
    return [s for s in getattr(an, "_last_sites", []) if s.f.path == f.path and s.bb in blocks]


def run(chk, F, A, entries, label, allow_recursion=(), tag="", partitions=True, only_fns=None, only_sites=None):
    """Full PF pass for one configuration and entry set; records obligations / violations on chk.
    only_fns: restrict the *reported* sites, loops and recursion to these functions (the analysis context is
    still the whole tree below the entries)."""
    an = ia.Analyzer(F)
    tree = F.reachable(entries)
    all_sites = enumerate_sites(F, tree)
    sites = all_sites
    if only_fns is not None:
        sites = [s for s in sites if s.f.path in only_fns]
    work = all_sites if only_sites is not None else sites
    # IA and the budget idioms run per partition inside discharge_with_ia (the observations they use - trip counts,
    # increments, operand intervals - belong to one partition; after the loop only the last partition's are left)
    discharge_with_ia(F, an, entries, work, tree, partitions)
    R, used = apply_obligations(F, A, an, work)
    an._last_sites = all_sites
    by = {}
    for s in sites:
        by[s.status or "open"] = by.get(s.status or "open", 0) + 1
    chk.count("functions_reachable[%s]" % label, len(tree))
    chk.count("panic_sites[%s]" % label, len(sites))
    for k, v in by.items():
        chk.count("sites_%s[%s]" % (k, label), v)
    chk.count("panic_sites", len(sites))
    chk.count("functions_reachable", len(tree))
    for s in sites:
        ok = s.status is not None
        chain = " <- ".join(reversed(F.chain(tree, s.f.path)[-6:]))
        chk.ob("P2.site-discharged", "%s%s" % (s.key, tag), ok,
               "panic-capable site not discharged: %s in %s\n  operand: %s\n  %s\n  call chain: %s" % (s.desc, s.f.path, s.operand, s.detail, chain),
               where=s.where(), sample=(s.status == "obl" and len(chk.samples) < 30))
        if ok and len(chk.samples) < 50 and s.status in ("budget", "obl"):
            chk.samples.append({"site": s.key, "status": s.status, "how": s.detail[:220]})
    # P3 termination
    rec, loops = loops_and_recursion(F, tree)
    if only_fns is not None:
        rec = [c for c in rec if any(p in only_fns for p in c)]
        loops = [l for l in loops if l[0].path in only_fns]
    for comp in rec:
        allowed = all(any(core.strip_generics(p) == a for a in allow_recursion) for p in comp)
        okr = False
        if allowed:
            okr, det = R.check("tree-recursion-bounded")
        chk.ob("P3.no-unbounded-recursion", "%s%s" % ("+".join(core.strip_generics(p) for p in comp), tag), allowed and okr,
               "recursion among %s reachable from the entry points%s" % (comp, "" if not allowed else " is not visibly bounded (guarded doubling of the node index)"))
    nl = 0
    for f, comp, driver in loops:
        nl += 1
        chk.ob("P3.loop-terminates", "%s@%d%s" % (f.key, min(comp), tag), driver is not None,
               "loop in %s (blocks %s) is neither driven by a finite iterator nor has a strictly decreasing measure" % (f.path, sorted(comp)[:6]), where=f.loc(min(comp)))
    chk.count("loops[%s]" % label, nl)
    chk.count("loops", nl)
    # extern callee classes (P4)
    seen = sorted(an.extern_seen.items(), key=lambda kv: -kv[1])
    chk.note("%s: %d sites: %s; extern callees seen by IA: %d (partial per rules/summaries.py: enumerated as sites; others assumed total)"
             % (label, len(sites), by, len(seen)))
    return sites, an
