"""Shared program model over the JSON facts: functions, CFG, dominators, call graph, def-use.

All analyses here are static: they walk the serialised MIR of the type-checked crate.
"""
import re
from collections import defaultdict, deque

from . import mirpp

LOCAL_CRATE = "hbs_lms"


class AnchorLost(Exception):
    """A function / field / type that a rule is about could not be found (fail closed)."""


# ------------------------------------------------------------------------------------------
# helpers on JSON MIR pieces


def place_is_local(p, l=None):
    return not p["proj"] and (l is None or p["local"] == l)


def op_place(o):
    return o["place"] if o["k"] in ("copy", "move") else None


def op_local(o):
    """Local read by an operand when it is a bare local, else None."""
    p = op_place(o)
    if p is not None and not p["proj"]:
        return p["local"]
    return None


def op_const_val(o):
    if o["k"] == "const" and "val" in o:
        return o["val"]
    return None


def callee_of(term):
    """Return the callee descriptor dict of a call terminator (or None for indirect calls)."""
    if term["k"] not in ("call", "tailcall"):
        return None
    f = term["func"]
    if f["k"] == "const" and "fn" in f:
        return f["fn"]
    return None


def callee_path(term):
    """Best resolved path of the callee (resolved instance path if any, else declared path)."""
    c = callee_of(term)
    if c is None:
        return None
    r = c.get("resolved")
    if r and r["kind"] in ("item", "closure_once_shim", "reify_shim"):
        return r["path"]
    return c["path"]


def callee_crate(term):
    c = callee_of(term)
    if c is None:
        return None
    r = c.get("resolved")
    if r and r["kind"] == "item":
        return r["crate"]
    return c["crate"]


def is_u8_slice_ref(ty):
    """`&[u8]` / `&'a [u8]` (any lifetime spelling)."""
    return ty.get("k") == "ref" and not ty.get("mut") and ty["ty"].get("k") == "slice" and ty["ty"]["elem"].get("s") == "u8"


def strip_generics(path):
    """`a::B::<H>::f` -> `a::B::f` (table keys must not depend on generic spelling)."""
    out = []
    i = 0
    n = len(path)
    while i < n:
        if path.startswith("::<", i):
            d = 0
            j = i + 2
            while j < n:
                c = path[j]
                if c == "<":
                    d += 1
                elif c == ">" and path[j - 1] != "-":
                    d -= 1
                    if d == 0:
                        break
                j += 1
            i = j + 1
            continue
        out.append(path[i])
        i += 1
    return "".join(out)


# ------------------------------------------------------------------------------------------


class Func:
    """One MIR body with CFG utilities."""

    def __init__(self, facts, j, body=None, promoted_idx=None):
        self.facts = facts
        self.j = j
        self.path = j["path"] if promoted_idx is None else "%s::promoted[%d]" % (j["path"], promoted_idx)
        self.key = strip_generics(self.path)
        self.kind = j["kind"]
        self.body = body or j["body"]
        self.blocks = self.body["blocks"]
        self.locals = self.body["locals"]
        self.arg_count = self.body["arg_count"]
        self.span = j["span"]
        self._succ = None
        self._pred = None
        self._idom = None
        self._ipdom = None
        self._names = None
        self._defs = None

    # --- naming
    @property
    def names(self):
        if self._names is None:
            self._names = {}
            for d in self.body["debug"]:
                if "place" in d and not d["place"]["proj"]:
                    self._names.setdefault(d["place"]["local"], d["name"])
        return self._names

    def local_by_name(self, name):
        return [l for l, n in self.names.items() if n == name]

    def arg_local(self, name):
        for l, n in self.names.items():
            if n == name and 1 <= l <= self.arg_count:
                return l
        return None

    def local_ty(self, l):
        return self.locals[l]["ty"]

    def loc(self, bb=None):
        if bb is None:
            return "%s:%d" % (self.span["file"], self.span["line"])
        sp = self.blocks[bb]["term"]["span"]
        return "%s:%d" % (sp["file"], sp["line"])

    # --- CFG
    def succ_edges(self, bb, include_unwind=False):
        t = self.blocks[bb]["term"]
        k = t["k"]
        out = []
        if k == "goto":
            out.append(t["target"])
        elif k == "switch":
            out.extend(b for _, b in t["targets"])
            out.append(t["otherwise"])
        elif k in ("call", "drop", "assert"):
            if t.get("target") is not None:
                out.append(t["target"])
            if include_unwind and t.get("unwind") is not None:
                out.append(t["unwind"])
        return out

    @property
    def succ(self):
        if self._succ is None:
            self._succ = [list(dict.fromkeys(self.succ_edges(b))) for b in range(len(self.blocks))]
        return self._succ

    @property
    def pred(self):
        if self._pred is None:
            self._pred = [[] for _ in self.blocks]
            for b, ss in enumerate(self.succ):
                for s in ss:
                    self._pred[s].append(b)
        return self._pred

    def reachable_blocks(self, start=0, avoid=()):
        seen = set()
        avoid = set(avoid)
        if start in avoid:
            return seen
        dq = deque([start])
        seen.add(start)
        while dq:
            b = dq.popleft()
            for s in self.succ[b]:
                if s not in seen and s not in avoid:
                    seen.add(s)
                    dq.append(s)
        return seen

    def reachable_from_edge(self, src, dst, avoid=()):
        """Blocks reachable starting by taking edge src->dst."""
        return self.reachable_blocks(dst, avoid)

    def return_blocks(self):
        return [b for b, blk in enumerate(self.blocks) if blk["term"]["k"] == "return"]

    def _dom(self, succ, pred, roots):
        n = len(self.blocks)
        # iterative dataflow on sets (graphs are small)
        reach = set()
        dq = deque(roots)
        reach.update(roots)
        while dq:
            b = dq.popleft()
            for s in succ[b]:
                if s not in reach:
                    reach.add(s)
                    dq.append(s)
        allset = set(reach)
        dom = {b: set(allset) for b in reach}
        for r in roots:
            dom[r] = {r}
        changed = True
        order = sorted(reach)
        while changed:
            changed = False
            for b in order:
                if b in roots:
                    continue
                ps = [p for p in pred[b] if p in reach]
                if ps:
                    new = set.intersection(*(dom[p] for p in ps))
                else:
                    new = set()
                new = new | {b}
                if new != dom[b]:
                    dom[b] = new
                    changed = True
        return dom

    @property
    def dom(self):
        """dom[b] = set of blocks dominating b (normal edges only, from bb0)."""
        if self._idom is None:
            self._idom = self._dom(self.succ, self.pred, [0])
        return self._idom

    @property
    def pdom(self):
        """pdom[b] = set of blocks post-dominating b w.r.t. normal return exits."""
        if self._ipdom is None:
            n = len(self.blocks)
            # virtual exit = n
            exits = self.return_blocks()
            succ = [list(p) for p in self.pred] + [list(exits)]
            pred = [list(s) for s in self.succ] + [[]]
            for e in exits:
                pred[e] = pred[e] + [n]
            # run generic dominance on the reversed graph rooted at the virtual exit
            reach = set()
            dq = deque([n])
            reach.add(n)
            while dq:
                b = dq.popleft()
                for s in succ[b]:
                    if s not in reach:
                        reach.add(s)
                        dq.append(s)
            dom = {b: set(reach) for b in reach}
            dom[n] = {n}
            changed = True
            while changed:
                changed = False
                for b in sorted(reach):
                    if b == n:
                        continue
                    ps = [p for p in pred[b] if p in reach]
                    new = set.intersection(*(dom[p] for p in ps)) if ps else set()
                    new = new | {b}
                    if new != dom[b]:
                        dom[b] = new
                        changed = True
            for b in dom:
                dom[b].discard(n)
            self._ipdom = dom
        return self._ipdom

    def dominates(self, a, b):
        return b in self.dom and a in self.dom[b]

    def natural_loops(self):
        """[(header, frozenset(blocks))] from back edges u->h with h dominating u (normal edges)."""
        loops = {}
        for u in self.reachable_blocks(0):
            for h in self.succ[u]:
                if self.dominates(h, u):
                    body = loops.setdefault(h, {h})
                    work = [u]
                    while work:
                        x = work.pop()
                        if x in body:
                            continue
                        body.add(x)
                        work.extend(self.pred[x])
        return [(h, frozenset(b)) for h, b in loops.items()]

    def in_cycle(self, bb):
        """Is block bb on a CFG cycle (normal edges)?"""
        seen = set()
        dq = deque(self.succ[bb])
        while dq:
            b = dq.popleft()
            if b == bb:
                return True
            if b in seen:
                continue
            seen.add(b)
            dq.extend(self.succ[b])
        return False

    def sccs(self):
        """Tarjan SCCs; returns list of sets with size>1 or self-loop."""
        index = {}
        low = {}
        stack = []
        on = set()
        res = []
        counter = [0]

        def strong(v):
            # iterative Tarjan
            work = [(v, 0)]
            while work:
                node, i = work[-1]
                if i == 0:
                    index[node] = low[node] = counter[0]
                    counter[0] += 1
                    stack.append(node)
                    on.add(node)
                recurse = False
                succs = self.succ[node]
                while i < len(succs):
                    w = succs[i]
                    i += 1
                    if w not in index:
                        work[-1] = (node, i)
                        work.append((w, 0))
                        recurse = True
                        break
                    elif w in on:
                        low[node] = min(low[node], index[w])
                if recurse:
                    continue
                if low[node] == index[node]:
                    comp = set()
                    while True:
                        w = stack.pop()
                        on.discard(w)
                        comp.add(w)
                        if w == node:
                            break
                    if len(comp) > 1 or node in self.succ[node]:
                        res.append(comp)
                work.pop()
                if work:
                    parent = work[-1][0]
                    low[parent] = min(low[parent], low[node])

        for b in self.reachable_blocks(0):
            if b not in index:
                strong(b)
        return res

    # --- statements
    def iter_stmts(self):
        for b, blk in enumerate(self.blocks):
            for i, s in enumerate(blk["stmts"]):
                yield b, i, s

    def iter_terms(self):
        for b, blk in enumerate(self.blocks):
            yield b, blk["term"]

    def calls(self):
        for b, t in self.iter_terms():
            if t["k"] in ("call", "tailcall"):
                yield b, t

    def defs_of(self, local):
        """All definition sites of a bare local: list of (bb, idx|'term', rvalue-or-term)."""
        if self._defs is None:
            d = defaultdict(list)
            for b, i, s in self.iter_stmts():
                if s["k"] == "assign":
                    d[s["place"]["local"]].append((b, i, s))
                elif s["k"] == "setdiscr":
                    d[s["place"]["local"]].append((b, i, s))
            for b, t in self.iter_terms():
                if t["k"] == "call":
                    d[t["dest"]["local"]].append((b, "term", t))
            self._defs = d
        return self._defs.get(local, [])

    def pp(self):
        return mirpp.pp_fn(self.j, self.body)


# ------------------------------------------------------------------------------------------


class Facts:
    def __init__(self, j, config="default"):
        self.j = j
        self.config = config
        self.fns = {}
        self.by_key = defaultdict(list)
        for fj in j["functions"]:
            f = Func(self, fj)
            self.fns[f.path] = f
            self.by_key[f.key].append(f)
        self.adts = {a["path"]: a for a in j["adts"]}
        self.consts = {c["path"]: c for c in j["consts"]}
        self.impls = j["impls"]
        self.traits = {t["path"]: t for t in j["traits"]}
        self._cg = None
        self._closures = defaultdict(list)
        for f in self.fns.values():
            if f.kind == "Closure":
                parent = f.j.get("parent_fn")
                if parent:
                    self._closures[parent].append(f.path)
        # trait impl index: (trait, method) -> [fn paths]
        self.trait_impls = defaultdict(list)
        for im in self.impls:
            if im.get("trait"):
                for it in im["items"]:
                    if it["kind"] == "Fn":
                        self.trait_impls[(im["trait"], it["name"])].append(it["path"])
        # local trait -> set of ADT paths implementing it; extern-trait impls per ADT
        self.local_trait_impls = defaultdict(set)
        self.extern_trait_impl_fns = defaultdict(list)
        for im in self.impls:
            tr = im.get("trait")
            st = im["self_ty"]
            if not tr or st.get("k") != "adt":
                continue
            if tr in self.traits:
                self.local_trait_impls[tr].add(st["path"])
            elif im.get("trait_crate") != LOCAL_CRATE:
                # local ADTs named in the trait's own arguments (e.g. PartialEq<Other>) must also be
                # among the instantiating types for extern generic code to be able to call the impl
                needs = set()
                for a in im.get("trait_args", [])[1:]:
                    if isinstance(a, dict):
                        self.local_adts_in_type(a, needs)
                needs = {n for n in needs if n in self.adts}
                for it in im["items"]:
                    if it["kind"] == "Fn" and it["path"] in self.fns:
                        self.extern_trait_impl_fns[st["path"]].append((it["path"], frozenset(needs)))
        # drop impls: adt path -> drop fn path
        self.drop_impls = {}
        for im in self.impls:
            if im.get("trait") == "core::ops::drop::Drop" and im["self_ty"]["k"] == "adt":
                for it in im["items"]:
                    if it["name"] == "drop":
                        self.drop_impls[im["self_ty"]["path"]] = it["path"]

    # --- lookup
    def fn(self, path):
        if path in self.fns:
            return self.fns[path]
        k = strip_generics(path)
        c = self.by_key.get(k, [])
        if len(c) == 1:
            return c[0]
        raise AnchorLost("function %s not found" % path)

    def find_fns(self, pred):
        return [f for f in self.fns.values() if pred(f)]

    def has_fn(self, path):
        try:
            self.fn(path)
            return True
        except AnchorLost:
            return False

    def const_val(self, path):
        c = self.consts.get(path)
        if c is None:
            raise AnchorLost("const %s not found" % path)
        return c.get("val")

    def const_array(self, path):
        """Decode an integer array constant from its raw little-endian bytes."""
        c = self.consts.get(path)
        if c is None:
            raise AnchorLost("const %s not found" % path)
        if "bytes" not in c:
            return None
        ty = c["ty"]
        if ty["k"] != "array":
            return None
        n = ty["len"]
        raw = c["bytes"]
        if not n:
            return []
        w = len(raw) // n
        return [int.from_bytes(bytes(raw[i * w : (i + 1) * w]), "little") for i in range(n)]

    # --- type helpers
    def local_adts_in_type(self, ty, acc=None):
        """All ADT paths mentioned in a type JSON, by value (not through refs/pointers)."""
        acc = acc if acc is not None else set()
        k = ty.get("k")
        if k == "adt":
            acc.add(ty["path"])
            for a in ty.get("args", []):
                if isinstance(a, dict) and a.get("k") != "const":
                    self.local_adts_in_type(a, acc)
        elif k in ("array", "slice"):
            self.local_adts_in_type(ty["elem"], acc)
        elif k == "tuple":
            for e in ty["elems"]:
                self.local_adts_in_type(e, acc)
        return acc

    def contained_adts(self, ty):
        """Transitive by-value containment closure over local ADT definitions."""
        seen = set()
        work = list(self.local_adts_in_type(ty))
        while work:
            p = work.pop()
            if p in seen:
                continue
            seen.add(p)
            a = self.adts.get(p)
            if a:
                for v in a["variants"]:
                    for f in v["fields"]:
                        for q in self.local_adts_in_type(f["ty"]):
                            if q not in seen:
                                work.append(q)
        return seen

    # --- call graph
    def call_targets(self, f, term):
        """Local function paths a call terminator may invoke (resolved, or every local impl of
        an unresolved trait method plus the trait's default body)."""
        c = callee_of(term)
        if c is None:
            return []
        r = c.get("resolved")
        out = []
        if r and r["kind"] in ("item", "closure_once_shim", "reify_shim"):
            if r["crate"] == LOCAL_CRATE and r["path"] in self.fns:
                out.append(r["path"])
            elif r["crate"] == LOCAL_CRATE:
                k = strip_generics(r["path"])
                out.extend(x.path for x in self.by_key.get(k, []))
            return out
        if r and r["kind"] == "virtual":
            return []
        # unresolved: trait method on a generic type
        tr = c.get("trait")
        if tr:
            m = c.get("method")
            cands = [p for p in self.trait_impls.get((tr, m), []) if p in self.fns]
            # receiver is a type parameter: only impls for types satisfying its local trait bounds
            bounds = c.get("self_bounds")
            if bounds is not None:
                need = [b for b in bounds if b in self.traits]
                need_copy = "core::marker::Copy" in bounds

                def ok(p):
                    im = self.fns[p].j.get("impl") or {}
                    st = im.get("self_ty", {})
                    if st.get("k") != "adt":
                        return not need
                    if any(st["path"] not in self.local_trait_impls[b] for b in need):
                        return False
                    if need_copy and not (self.adts.get(st["path"]) or {}).get("is_copy", True):
                        return False
                    return True
                cands = [p for p in cands if ok(p)]
            out.extend(cands)
            dflt = "%s::%s" % (tr, m)
            if dflt in self.fns:
                out.append(dflt)
        elif c["crate"] == LOCAL_CRATE:
            k = strip_generics(c["path"])
            out.extend(x.path for x in self.by_key.get(k, []))
        return out

    @property
    def cg(self):
        if self._cg is None:
            cg = {}
            for f in self.fns.values():
                edges = []  # (target path, bb, kind)
                for b, t in f.calls():
                    tps = self.call_targets(f, t)
                    for tp in tps:
                        edges.append((tp, b, "call"))
                    if not tps and not f.blocks[b]["cleanup"]:
                        # extern generic code may call back into local impls of extern traits
                        # (Default, Clone, PartialEq, Zeroize, ...) of the local types it is instantiated with
                        c = callee_of(t)
                        if c is not None:
                            seen_adts = set()
                            for a in (c.get("resolved") or c).get("args", []) or []:
                                if isinstance(a, dict):
                                    self.local_adts_in_type(a, seen_adts)
                            for a in c.get("args", []) or []:
                                if isinstance(a, dict):
                                    self.local_adts_in_type(a, seen_adts)
                            for ap in seen_adts:
                                for ip, needs in self.extern_trait_impl_fns.get(ap, []):
                                    if needs <= seen_adts:
                                        edges.append((ip, b, "callback"))
                for b, t in f.iter_terms():
                    if t["k"] == "drop":
                        # drop glue -> local Drop impls of contained ADTs
                        pty = self._place_type_json(f, t["place"])
                        if pty is not None:
                            for a in self.contained_adts(pty):
                                if a in self.drop_impls:
                                    edges.append((self.drop_impls[a], b, "drop"))
                for cl in self._closures.get(f.path, []):
                    edges.append((cl, None, "closure"))
                cg[f.path] = edges
            self._cg = cg
        return self._cg

    def _place_type_json(self, f, place):
        ty = f.locals[place["local"]]["ty"]
        for e in place["proj"]:
            k = e["k"]
            if k == "deref":
                ty = ty.get("ty")
            elif k == "field":
                ty = e.get("ty")
            elif k == "index" or k == "constidx":
                ty = ty.get("elem") if ty else None
            elif k == "downcast":
                pass
            else:
                return None
            if ty is None:
                return None
        return ty

    def reachable(self, entries):
        """Returns {fn path: (parent path, bb)} BFS tree from the entry paths."""
        tree = {}
        dq = deque()
        for e in entries:
            if e in self.fns and e not in tree:
                tree[e] = None
                dq.append(e)
        while dq:
            p = dq.popleft()
            for tp, b, _k in self.cg.get(p, []):
                if tp not in tree:
                    tree[tp] = (p, b)
                    dq.append(tp)
        return tree

    def chain(self, tree, path):
        out = [path]
        while tree.get(out[-1]):
            out.append(tree[out[-1]][0])
        return list(reversed(out))

    def callers_of(self, path):
        res = []
        for src, edges in self.cg.items():
            for tp, b, k in edges:
                if tp == path:
                    res.append((src, b, k))
        return res

    def recursive_fns(self, within=None):
        """Functions on a call-graph cycle (restricted to `within` if given)."""
        nodes = set(within) if within is not None else set(self.fns)
        # cycles through extern-callback edges are artefacts of the over-approximation, not recursion
        adj = {n: [t for t, _, k in self.cg.get(n, []) if t in nodes and k != "callback"] for n in nodes}
        index, low, on, stack, res = {}, {}, set(), [], []
        counter = [0]
        for root in sorted(nodes):
            if root in index:
                continue
            work = [(root, 0)]
            while work:
                node, i = work[-1]
                if i == 0:
                    index[node] = low[node] = counter[0]
                    counter[0] += 1
                    stack.append(node)
                    on.add(node)
                recurse = False
                succs = adj[node]
                while i < len(succs):
                    w = succs[i]
                    i += 1
                    if w not in index:
                        work[-1] = (node, i)
                        work.append((w, 0))
                        recurse = True
                        break
                    elif w in on:
                        low[node] = min(low[node], index[w])
                if recurse:
                    continue
                if low[node] == index[node]:
                    comp = []
                    while True:
                        w = stack.pop()
                        on.discard(w)
                        comp.append(w)
                        if w == node:
                            break
                    if len(comp) > 1 or node in adj[node]:
                        res.append(sorted(comp))
                work.pop()
                if work:
                    parent = work[-1][0]
                    low[parent] = min(low[parent], low[node])
        return res


# ------------------------------------------------------------------------------------------
# intraprocedural backward data slice


class Slice:
    """Backward data-dependence over one function: which locals / constants / calls / fields
    feed a given operand.  Flow-insensitive over definitions of temporaries (MIR temporaries at
    mir-opt-level 0 have one or few definitions); conservative: includes every definition."""

    def __init__(self, f):
        self.f = f
        self._mutdefs = None

    def mutdefs(self):
        """local -> calls that receive a mutable reference to it (they may write it)."""
        if self._mutdefs is None:
            from . import flow
            m = defaultdict(list)
            for b, t in self.f.calls():
                if self.f.blocks[b]["cleanup"]:
                    continue
                for a in t["args"]:
                    if a["k"] not in ("copy", "move"):
                        continue
                    ty = a["place"]["ty"]
                    if not ty.startswith("&mut "):
                        continue
                    o = flow.resolve_owner(self.f, a, want_mut=True)
                    if o is not None:
                        m[o].append((b, t))
            self._mutdefs = m
        return self._mutdefs

    def deps(self, start_locals, max_steps=10000):
        """Returns dict with: locals, consts (values), calls (terms), fields (set of (adt,name)),
        args (argument locals reached)."""
        f = self.f
        seen = set()
        work = list(start_locals)
        res = {"locals": seen, "consts": [], "calls": [], "fields": set(), "args": set(), "binops": []}
        steps = 0
        while work and steps < max_steps:
            steps += 1
            l = work.pop()
            if l in seen:
                continue
            seen.add(l)
            if 1 <= l <= f.arg_count:
                res["args"].add(l)
            for b, t in self.mutdefs().get(l, []):
                res["calls"].append((b, t))
                for a in t["args"]:
                    self._op(a, work, res)
            for b, i, d in f.defs_of(l):
                if i == "term":
                    res["calls"].append((b, d))
                    for a in d["args"]:
                        self._op(a, work, res)
                else:
                    if d["k"] != "assign":
                        continue
                    self._place_fields(d["place"], res, work)
                    self._rv(d["rv"], work, res)
        return res

    def _place_fields(self, p, res, work):
        for e in p["proj"]:
            if e["k"] == "field" and "name" in e:
                res["fields"].add((e.get("adt"), e["name"]))
            if e["k"] == "index":
                work.append(e["local"])

    def _op(self, o, work, res):
        if o["k"] in ("copy", "move"):
            work.append(o["place"]["local"])
            self._place_fields(o["place"], res, work)
        elif o["k"] == "const":
            res["consts"].append(o)

    def _rv(self, rv, work, res):
        k = rv["k"]
        if k in ("use", "repeat", "cast"):
            self._op(rv["op"], work, res)
        elif k in ("ref", "rawptr", "discr"):
            work.append(rv["place"]["local"])
            self._place_fields(rv["place"], res, work)
        elif k == "binop":
            res["binops"].append(rv)
            self._op(rv["a"], work, res)
            self._op(rv["b"], work, res)
        elif k == "unop":
            self._op(rv["a"], work, res)
        elif k == "aggregate":
            for o in rv["ops"]:
                self._op(o, work, res)


def operand_deps(f, operand):
    s = Slice(f)
    p = op_place(operand)
    if p is None:
        r = {"locals": set(), "consts": [operand], "calls": [], "fields": set(), "args": set(), "binops": []}
        return r
    r = s.deps([p["local"]])
    s._place_fields(p, r, [])
    return r
