"""C09 - key generation and signing are pure functions of their inputs.

Effect analysis over the resolved call graph (no code is executed):
  E1  crate-level: no unsafe code, no statics / thread-locals, no interior-mutability fields
  E2  every callee invoked from crate-local code reachable from keygen / sign / verify /
      lifetime resolves into an allow-listed crate and none resolves to a deny-listed effect
      (RNG, clock, environment, threads, fs/io/net, atomics, cells, address exposure)
  E4  the in-memory signing key runs the same signing core as the byte-level `sign`, holds no state but the key blob
      (one byte vector and zero-sized markers), and its update closure stores the complete successor key
  E5  (fast_verify builds) the RNG / thread effects are reachable only with a mutable message:
      constant propagation of `message_mut = None` from `sign` shows them dead for `sign`.
  E6  the seed's raw container is touched only by the seed type's own methods (everything else sees its first n bytes)
In safe Rust without statics, interior mutability and without calls that observe the
environment, a function's results are determined by its arguments: that is the argument.
"""
import re

from . import c04, core, nonecp
from .api import Api

LEVEL = "proof"
TECHNIQUE = "effect analysis over the resolved MIR call graph (who-may-call + crate-level absence rules)"

ALLOW_CRATES = {
    "hbs_lms", "core", "tinyvec", "subtle", "zeroize", "signature", "digest", "crypto_common",
    "generic_array", "typenum", "block_buffer", "sha2", "sha3", "keccak", "cpufeatures", "alloc",
}
# effects that would make results depend on something other than the arguments
DENY = [
    (r"^rand", "random number generator"),
    (r"^rand_core", "random number generator"),
    (r"^getrandom", "random number generator"),
    (r"^std::time", "clock"),
    (r"^std::env", "process environment"),
    (r"^std::thread", "threads"),
    (r"^std::fs|^std::io|^std::net|^std::process|^std::os", "I/O"),
    (r"^std::sync", "shared state primitives"),
    (r"^std::collections::hash|^std::hash::random", "randomised hasher state"),
    (r"^core::sync::atomic", "atomics (shared state)"),
    (r"^core::cell", "interior mutability"),
    (r"^crossbeam", "threads / channels"),
    (r"^core::ptr::.*::(addr|expose_provenance)$", "address exposure"),
    (r"^<.* as core::fmt::Pointer>::fmt", "address formatting"),
    (r"^core::intrinsics::", "compiler intrinsic"),
    (r"^std::panic::Location|^core::panic::location", "caller location"),
]
INTERIOR = re.compile(
    r"\b(core::cell::|std::cell::|core::sync::atomic::|std::sync::|once_cell::|lazy_static|spin::)"
)


def denied(path):
    for rx, why in DENY:
        if re.search(rx, path):
            return why
    return None


def crate_level(chk, F):
    j = F.j
    chk.ob("E1.no-unsafe", F.config, not j["unsafe_items"],
           "unsafe code present: %s" % [(u["kind"], u["path"]) for u in j["unsafe_items"]][:5],
           where=j["unsafe_items"][0].get("span", {}).get("file") if j["unsafe_items"] else None)
    # `#[derive(Clone, Copy)]` expands to `unsafe impl TrivialClone` (compiler-generated marker);
    # only hand-written unsafe impls count.
    unsafe_impls = [im for im in F.impls if im.get("unsafe")
                    and not (im.get("trait") == "core::clone::TrivialClone" and im["span"].get("exp"))]
    chk.ob("E1.no-unsafe-impl", F.config, not unsafe_impls,
           "unsafe trait impls: %s" % [im["trait_s"] for im in unsafe_impls][:5])
    chk.ob("E1.no-statics", F.config, not j["statics"],
           "static items (global state) defined: %s" % [s["path"] for s in j["statics"]][:5],
           where="%s:%s" % (j["statics"][0]["span"]["file"], j["statics"][0]["span"]["line"]) if j["statics"] else None)
    chk.ob("E1.no-thread-locals", F.config, not j["thread_locals"],
           "thread-local state: %s" % j["thread_locals"][:5])
    bad = []
    nfields = 0
    for a in j["adts"]:
        for v in a["variants"]:
            for f in v["fields"]:
                nfields += 1
                if INTERIOR.search(f["ty"]["s"]):
                    bad.append("%s.%s: %s" % (a["path"], f["name"], f["ty"]["s"]))
    chk.count("adt_fields", nfields)
    chk.ob("E1.no-interior-mutability", F.config, not bad,
           "fields with interior mutability / shared-state types: %s" % bad[:5])
    # thread-local access / address exposure anywhere in reachable code is checked in E2


def scan_function(chk, F, f, tree, live_blocks=None, tag=""):
    """Check every call / cast in (the live blocks of) one function."""
    n = 0
    for b, blk in enumerate(f.blocks):
        if blk["cleanup"]:
            continue
        if live_blocks is not None and b not in live_blocks:
            continue
        for s in blk["stmts"]:
            if s["k"] == "assign":
                rv = s["rv"]
                if rv["k"] == "cast" and "ExposeProvenance" in rv["cast"]:
                    chk.ob("E2.no-address-exposure", "%s@cast" % f.key, False,
                           "pointer-to-integer cast exposes an address in %s" % f.path,
                           where="%s:%s" % (s["span"]["file"], s["span"]["line"]))
                if rv["k"] == "threadlocal":
                    chk.ob("E2.no-thread-local", "%s@tls" % f.key, False,
                           "thread-local access in %s: %s" % (f.path, rv["path"]))
        t = blk["term"]
        if t["k"] not in ("call", "tailcall"):
            continue
        n += 1
        c = core.callee_of(t)
        where = "%s:%s" % (t["span"]["file"], t["span"]["line"])
        chain = " <- ".join(reversed(F.chain(tree, f.path)))
        if c is None:
            chk.ob("E2.known-callee", "%s@indirect" % f.key, False,
                   "indirect call through a function pointer in %s (callee unknown) [%s]" % (f.path, chain), where=where)
            continue
        r = c.get("resolved")
        if r and r["kind"] == "virtual":
            # only the caller-supplied key-update callback may be called virtually
            ok = "FnMut" in c["path"] or "FnOnce" in c["path"] or "Fn" in c["path"]
            chk.ob("E2.virtual-is-callback", "%s@virtual" % f.key, ok,
                   "virtual call to %s in %s is not the update callback" % (c["s"], f.path), where=where)
            continue
        path = (r or c)["path"]
        crate = (r or c)["crate"]
        why = denied(path) or denied(c["path"])
        key = "%s->%s" % (f.key, core.strip_generics(path))
        if why:
            chk.ob("E2.no-denied-effect", key, False,
                   "%s: %s calls %s%s  [call chain: %s]" % (why, f.path, path, tag, chain), where=where)
        elif crate not in ALLOW_CRATES and not (crate == "std" and path.startswith("std::panicking")):
            chk.ob("E2.allow-listed-crate", key, False,
                   "%s calls into crate `%s` (%s), which is not in the reviewed allow-list%s [call chain: %s]"
                   % (f.path, crate, path, tag, chain), where=where)
        else:
            chk.obligations.append(("E2.callee-allowed", key, True))
    return n


def run_config(chk, ctx, name):
    F = ctx.facts(name)
    A = Api(F)
    chk.configs.append(name)
    crate_level(chk, F)
    fast = A.has("sign_mut")
    entries = A.entries_keygen() + A.entries_sign_plain() + A.entries_verify() + A.entries_lifetime() \
        + A.entries_constructors() + A.entries_key_constructors()
    if not fast:
        tree = F.reachable(entries)
        ncalls = 0
        for p in sorted(tree):
            ncalls += scan_function(chk, F, F.fns[p], tree)
        chk.count("reachable_functions[%s]" % name, len(tree))
        chk.count("call_sites[%s]" % name, ncalls)
        chk.count("reachable_functions", len(tree))
        chk.count("call_sites", ncalls)
    else:
        # E5: context-sensitive reachability with Option::None constant propagation.  The plain
        # entry points pass `message_mut = None`; blocks that are dead under that fact are not
        # part of what `sign`/`keygen`/`verify` can execute.
        cp = nonecp.NoneCP(F)
        live = cp.run(entries)
        tree = F.reachable(entries)
        ncalls = 0
        for p in sorted(live):
            ncalls += scan_function(chk, F, F.fns[p], tree, live_blocks=live[p], tag=" (fast_verify build)")
        chk.count("reachable_functions[%s]" % name, len(live))
        chk.count("call_sites[%s]" % name, ncalls)
        chk.count("reachable_functions", len(live))
        chk.count("call_sites", ncalls)
        pruned = sorted(set(tree) - set(live))
        chk.note("fast_verify: %d functions dead for the plain entry points under message_mut=None, e.g. %s"
                 % (len(pruned), pruned[:4]))
        # positive control: the RNG *is* reachable from sign_mut, so the deny rule is alive and
        # the pruning above is what removes it (not a blind spot of the call graph).
        t2 = F.reachable([A.fn("sign_mut")])
        rng = False
        for p in t2:
            for b, t in F.fns[p].calls():
                cp_ = core.callee_path(t)
                if cp_ and denied(cp_):
                    rng = True
        chk.ob("E5.control-rng-visible-from-sign_mut", name, rng,
               "expected the RNG/thread calls of the fast-verify search to be visible from sign_mut; "
               "the deny rule matched nothing there, so pruning proves nothing")
    # E4: single producer of Signature for the in-memory key
    sign_fn = A.fn("sign")
    # the byte-level function and the in-memory key must run the same signing core (the function holding the callback call):
    # whether the key method calls `sign` or that core directly is a matter of style
    _t, _sites = c04.find_core(F, [sign_fn])
    core_fn = _sites[0][0] if len(_sites) == 1 else None
    for m in A.method("SigningKey", "try_sign_with_aux") + A.method("SigningKey", "try_sign", "signature::signer::SignerMut"):
        t = F.reachable([m])
        _t2, s2 = c04.find_core(F, [m])
        same = core_fn is not None and len(s2) == 1 and s2[0][0] == core_fn
        chk.ob("E4.signing-key-delegates-to-sign", "%s[%s]" % (core.strip_generics(m), name), same,
               "%s does not run the signing core of the byte-level sign function (%s): the in-memory key could diverge from a reloaded key" % (m, core_fn))
    # ... and the in-memory key has no state but the key blob: its fields are one byte vector and zero-sized markers, so nothing
    # can be carried from one signing call to the next except through the bytes a reloaded key would also have
    sk = A.type_path("SigningKey")
    from . import zz
    extra_state = []
    nbytes = 0
    for fl in zz.fields_of(F, sk):
        ts = fl["ty"].get("s", "")
        if "PhantomData" in ts:
            continue
        if "ArrayVec<[u8;" in ts or ts.startswith("[u8;"):
            nbytes += 1
            continue
        extra_state.append("%s: %s" % (fl["name"], ts))
    chk.ob("E4.signing-key-state-is-the-key-blob", "%s[%s]" % (sk, name), nbytes == 1 and not extra_state,
           "%s carries state besides the key blob (%s; %d byte fields): a second signing call could depend on the first" % (sk, extra_state, nbytes),
           where="%s:%s" % (F.adts[sk]["span"]["file"], F.adts[sk]["span"]["line"]))
    # the in-memory key stores the complete successor key the byte-level function hands out
    c04.in_memory_key_rules(chk, F, A, "" if name == "default" else "[%s]" % name, "E4")
    # who constructs `Signature`?
    sig_ty = A.type_path("Signature")
    producers = set()
    for f in F.fns.values():
        for b, i, s in f.iter_stmts():
            if s["k"] == "assign" and s["rv"]["k"] == "aggregate" and s["rv"].get("agg") == "adt" and s["rv"]["path"] == sig_ty:
                producers.add(f.path)
    chk.ob("E4.single-signature-constructor", name, len(producers) == 1,
           "Signature values are built in %s (expected exactly one constructor function)" % sorted(producers))
    # E6: the seed input is its first n bytes (that is what the key blob stores and what `Seed::as_slice` hands out).  The raw
    # container behind it is wider for the short hashes; reading it anywhere but in the seed type's own methods makes keygen /
    # signing depend on bytes that are not part of (hash, parameters, seed) and that a reloaded key does not have (c09-m7)
    def _walk(o, cb):
        if isinstance(o, dict):
            if isinstance(o.get("proj"), list):
                cb(o)
            for v in o.values():
                _walk(v, cb)
        elif isinstance(o, list):
            for v in o:
                _walk(v, cb)
    inside, outside = set(), set()
    for p, f in F.fns.items():
        def cb(pl, p=p):
            for pr in pl["proj"]:
                if pr.get("k") == "field" and (pr.get("adt") or "").endswith("::Seed"):
                    own = core.strip_generics(p).startswith(pr["adt"] + "::") or ("<" + pr["adt"]) in p.replace(" ", "")
                    (inside if own else outside).add((p, pr.get("name")))
        _walk(f.blocks, cb)
    chk.count("raw_seed_container_accessors", len(inside))
    chk.ob("E6.raw-seed-container-accessors-found", name, len(inside) >= 2, "expected the seed type's own accessors to touch its raw container (found %d): anchor lost" % len(inside))
    for p, fld in sorted(outside):
        chk.ob("E6.seed-read-only-through-its-n-byte-accessors", "%s|%s[%s]" % (core.strip_generics(p), fld, name), False,
               "%s reads the seed's raw container field `%s` directly: for hashes shorter than the container the bytes beyond n are not part of the "
               "seed input (not stored in the key blob), so key generation / signing would depend on more than (hash, parameters, seed)" % (p, fld), where=F.fns[p].loc())
    return F


def canary(chk):
    """The deny rules must fire on a fixture containing each denied construct."""
    from . import extract
    import os
    fx = os.path.join(extract.VERIF, "fixtures", "canary")
    j = extract.load("canary", {"features": [], "env": {}}, repo=fx, crate="canary")
    F = core.Facts(j, "canary")
    found = set()
    for f in F.fns.values():
        for b, t in f.calls():
            p = core.callee_path(t)
            c = core.callee_of(t)
            for cand in (p, c["path"] if c else None):
                if cand and denied(cand):
                    found.add(denied(cand))
        for b, i, s in f.iter_stmts():
            if s["k"] == "assign" and s["rv"]["k"] == "cast" and "ExposeProvenance" in s["rv"]["cast"]:
                found.add("address exposure (cast)")
    need = {"clock", "process environment", "threads", "atomics (shared state)", "interior mutability", "address exposure (cast)"}
    chk.ob("canary.effects", "fixtures/canary", need <= found,
           "effect deny-list did not fire on the canary fixture: missing %s" % sorted(need - found))
    chk.ob("canary.statics", "fixtures/canary", len(j["statics"]) >= 1 and len(j["unsafe_items"]) >= 1,
           "static / unsafe detection did not fire on the canary fixture")
    bad = [1 for a in j["adts"] for v in a["variants"] for f in v["fields"] if INTERIOR.search(f["ty"]["s"])]
    chk.ob("canary.interior", "fixtures/canary", len(bad) >= 1, "interior-mutability field rule did not fire on the canary")


def run(chk, ctx):
    chk.explanation = (
        "Purity is decided as absence of effects: the crate has no unsafe code, statics, thread-locals or "
        "interior-mutability fields, and no call site reachable from keygen/sign/verify/lifetime (resolved "
        "through the type checker, generic hash calls expanded to all six provided impls) reaches an RNG, clock, "
        "environment, thread, I/O, atomic or address-exposing operation."
    )
    chk.not_decided = "byte equality of outputs across calls is a consequence of the effect argument, not separately computed"
    chk.trusted_base = [
        "rustc nightly front end / MIR construction / Instance resolution",
        "internals of allow-listed crates (core, tinyvec, digest, sha2, sha3, subtle, zeroize, signature, ...): cpufeatures' cached CPU probe cannot change outputs",
        "HashChain is user-implementable; purity is shown for the six provided hashers",
    ]
    chk.assumptions = ["64-bit host target", "message_mut=None propagation models Option::is_some / discriminant tests only"]
    configs = ["default", "fast_verify"] if ctx.tier == "quick" else ["default", "std", "verbose", "fast_verify", "fast_verify_verbose"]
    for name in configs:
        run_config(chk, ctx, name)
    canary(chk)
    chk.floor("reachable_functions", 200)
    chk.floor("call_sites", 900)
