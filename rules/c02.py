"""C02 - verification accepts exactly what RFC 8554 accepts (clause level: rejection structure).

Guard facts in the functions reachable from the three verification entry points:
  GF-LEVEL   Nspk+1 == L : comparison on signature.level and public_key.level guards every LMS verify call
  GF-TYPES   both type-code comparisons guard the candidate computation (RFC Alg. 6a step 2)
  GF-LEAF    leaf index < 2^h guards the path walk (in the parser or in the candidate generator)
  GF-ROOT    `Ok` is control-dependent on equality of the *whole* candidate with the *whole* key root
  GF-CHAIN   every LMS verify result is tested; key/message of level i+1 come from signed public key i
  GF-EXACT   every `Some` of the two top-level parsers is control-dependent on consumed == data.len()
  FUNNEL     all entry points obtain Ok only from the HSS verify routine; parse failures map to Err
  PROV       no other ok-capable return definition exists in the HSS / LMS verify routines
Not decided: that the hashes computed between the guards are the RFC's (C07), nor the 'if' direction.
"""
from . import core, expr, flow, gf
from .api import Api
from .c04 import ret_defs
from .core import AnchorLost

LEVEL = "other"
TECHNIQUE = "guard-fact analysis: data-dependence located branches + edge dominance over MIR CFGs; return-place provenance"

# field names used to pick a field of an already-anchored type (a rename = anchor-lost, never a silent pass)
FIELDS = {
    "sig.level": "level", "pk.level": "level", "sig.signed": "signed_public_keys", "sig.bottom": "signature",
    "pk.lms": "public_key", "spk.sig": "sig", "spk.pk": "public_key",
    "lmssig.ots": "lmots_signature", "lmssig.lms_param": "lms_parameter", "lmssig.leaf": "lms_leaf_identifier",
    "otssig.param": "lmots_parameter", "lmspk.ots_param": "lmots_parameter", "lmspk.lms_param": "lms_parameter", "lmspk.key": "key",
}


def adt_has_field(F, adt, name):
    a = F.adts.get(adt)
    if not a:
        return False
    return any(f["name"] == name for v in a["variants"] for f in v["fields"])


def field_ty(F, adt, name):
    a = F.adts.get(adt)
    for v in a["variants"]:
        for f in v["fields"]:
            if f["name"] == name:
                return f["ty"]
    raise AnchorLost("field %s of %s not found" % (name, adt))


def inner_adt(ty):
    """Peel refs / Option / ArrayVec<[T;N]> to the first local ADT."""
    for _ in range(8):
        k = ty.get("k")
        if k == "ref":
            ty = ty["ty"]
        elif k == "array":
            ty = ty["elem"]
        elif k == "adt" and ty.get("crate") != core.LOCAL_CRATE and ty.get("args"):
            ty = ty["args"][0]
        else:
            break
    return ty.get("path") if ty.get("k") == "adt" else None


class Anchors:
    def __init__(self, F, A):
        self.F, self.A = F, A
        vf = F.fn(A.fn("verify"))
        self.entry = vf
        parsers = {}
        hss_call = None
        for b, t in vf.calls():
            tps = F.call_targets(vf, t)
            if not tps:
                continue
            g = F.fns[tps[0]]
            out = g.j.get("output", {})
            ins = g.j.get("inputs", [])
            if out.get("path") == flow.OPTION and len(ins) == 1 and core.is_u8_slice_ref(ins[0]):
                org = flow.origin(vf, t["args"][0])
                if org[0] == "arg":
                    parsers[org[1]] = (g, out["args"][0]["path"], b)
            elif out.get("path") == flow.RESULT and len(ins) == 3:
                hss_call = (g, b, t)
        if 2 not in parsers or 3 not in parsers:
            raise AnchorLost("top-level parsers of signature (arg 2) and public key (arg 3) not found in %s" % vf.path)
        if hss_call is None:
            raise AnchorLost("HSS verify routine (3-argument Result fn called by %s) not found" % vf.path)
        self.sig_parser, self.T_sig, _ = parsers[2]
        self.pk_parser, self.T_pk, _ = parsers[3]
        self.hss_verify, self.hss_call_bb, self.hss_call = hss_call
        for key, adt in (("sig.level", self.T_sig), ("pk.level", self.T_pk), ("sig.signed", self.T_sig), ("sig.bottom", self.T_sig), ("pk.lms", self.T_pk)):
            if not adt_has_field(F, adt, FIELDS[key]):
                raise AnchorLost("field `%s` of %s" % (FIELDS[key], adt))
        self.T_lmssig = inner_adt(field_ty(F, self.T_sig, FIELDS["sig.bottom"]))
        self.T_lmspk = inner_adt(field_ty(F, self.T_pk, FIELDS["pk.lms"]))
        self.T_spk = inner_adt(field_ty(F, self.T_sig, FIELDS["sig.signed"]))
        for key, adt in (("lmssig.ots", self.T_lmssig), ("lmssig.lms_param", self.T_lmssig), ("lmssig.leaf", self.T_lmssig),
                         ("lmspk.ots_param", self.T_lmspk), ("lmspk.lms_param", self.T_lmspk), ("lmspk.key", self.T_lmspk),
                         ("spk.sig", self.T_spk), ("spk.pk", self.T_spk)):
            if adt is None or not adt_has_field(F, adt, FIELDS[key]):
                raise AnchorLost("field `%s` of %s" % (FIELDS[key], adt))
        self.T_otssig = inner_adt(field_ty(F, self.T_lmssig, FIELDS["lmssig.ots"]))
        if not adt_has_field(F, self.T_otssig, FIELDS["otssig.param"]):
            raise AnchorLost("field `%s` of %s" % (FIELDS["otssig.param"], self.T_otssig))
        # LMS verify routine(s): 3-argument Result<(),()> callees of the HSS verify routine
        hv = self.hss_verify
        self.lms_calls = []
        lms = set()
        for b, t in hv.calls():
            tps = F.call_targets(hv, t)
            if tps and F.fns[tps[0]].j.get("output", {}).get("s", "").startswith("core::result::Result<()") and len(t["args"]) == 3:
                self.lms_calls.append((b, t))
                lms.add(tps[0])
        if len(lms) != 1:
            raise AnchorLost("LMS verify routine not unique among callees of %s: %s" % (hv.path, sorted(lms)))
        self.lms_verify = F.fns[lms.pop()]
        # candidate generator: Result<ArrayVec,..> callee of the LMS verify routine
        cands = []
        for b, t in self.lms_verify.calls():
            tps = F.call_targets(self.lms_verify, t)
            if tps and F.fns[tps[0]].j.get("output", {}).get("path") == flow.RESULT and len(t["args"]) == 3:
                cands.append((b, t, tps[0]))
        if len(cands) != 1:
            raise AnchorLost("public-key candidate generator not unique in %s" % self.lms_verify.path)
        self.cand_bb, self.cand_call, cp = cands[0]
        self.cand_fn = F.fns[cp]


def has_fields(deps, *pairs):
    fs = deps["fields"]
    return all(p in fs for p in pairs)


def run_config(chk, ctx, name):
    F = ctx.facts(name)
    A = Api(F)
    chk.configs.append(name)
    tag = "" if name == "default" else "[%s]" % name
    an = Anchors(F, A)
    chk.note("%s: sig parser %s -> %s; pk parser %s -> %s; HSS verify %s; LMS verify %s; candidate %s"
             % (name, an.sig_parser.path, an.T_sig, an.pk_parser.path, an.T_pk, an.hss_verify.path, an.lms_verify.path, an.cand_fn.path))

    # FUNNEL ---------------------------------------------------------------------------
    entries = A.entries_verify()
    vf = an.entry
    for e in entries:
        ef = F.fns[e]
        if e == vf.path:
            continue
        def delegates(g, depth=0):
            """g returns exactly the result of one call - of the exported verify, or of a crate function that itself does"""
            prod = [F.call_targets(g, t) for b, t in g.calls() if t["dest"]["local"] == 0 and not t["dest"]["proj"] and not g.blocks[b]["cleanup"]]
            if len(prod) != 1 or len(prod[0]) != 1 or len(ret_defs(g)) != 1:
                return False
            return prod[0] == [vf.path] or (depth < 3 and prod[0][0] in F.fns and delegates(F.fns[prod[0][0]], depth + 1))
        ok = delegates(ef)
        chk.ob("FUNNEL.entry-delegates", core.strip_generics(e) + tag, ok,
               "%s does not return exactly the result of %s" % (e, vf.path), where=ef.loc())
    # in the exported verify: every ok-capable return def is (an adaptor of) the HSS verify routine's result
    for b, d, e in ret_defs(vf):
        if e:
            continue
        t = vf.blocks[b]["term"]
        org = None
        if t["k"] == "call" and flow.decl_path(t) in flow.RESULT_PRESERVING:
            org = flow.origin(vf, t["args"][0])
        elif t["k"] == "call":
            org = ("call", b, t)
        ok = org is not None and org[0] == "call" and F.call_targets(vf, org[2]) == [an.hss_verify.path]
        if not ok:
            # ... or a fresh success value built only on the Ok edge of a test of the HSS verify routine's result (`match`)
            calls = [(cb, ct) for cb, ct in vf.calls() if F.call_targets(vf, ct) == [an.hss_verify.path] and not vf.blocks[cb]["cleanup"]]
            if len(calls) == 1 and not calls[0][1]["dest"]["proj"]:
                for rc in flow.result_checks(vf, calls[0][1]["dest"]["local"]):
                    if any(flow.edge_dominates(vf, rc.block, okt, b) for okt in rc.ok_targets):
                        ok = True
        chk.ob("FUNNEL.ok-only-from-hss-verify", "%s@%s%s" % (vf.key, d, tag), ok,
               "%s can return a value (%s) that is not the HSS verify routine's result" % (vf.path, d), where=vf.loc(b))
    # parse failures: both parser results are tested and their failure edge cannot reach the verify call
    for which, (g, b_) in (("signature", (an.sig_parser, None)), ("public-key", (an.pk_parser, None))):
        for b, t in vf.calls():
            if F.call_targets(vf, t) == [g.path]:
                cs = flow.result_checks(vf, t["dest"]["local"])
                leak = [c for c in cs for et in c.err_targets if vf.blocks[et]["term"]["k"] != "unreachable" and an.hss_call_bb in flow.reach_from(vf, et)]
                chk.ob("FUNNEL.parse-failure-is-error", which + tag, bool(cs) and not leak,
                       "a failed %s parse in %s is not turned into an error before verification" % (which, vf.path), where=vf.loc(b))

    # GF-NSPK completeness: the parser's bound on the number of signed public keys lets through every count the container
    # can hold (capacity = MAX_ALLOWED_HSS_LEVELS - 1); a tighter bound rejects genuine signatures of maximum-depth keys
    from . import requires as _rq
    rq = _rq.Req(F, A, None)
    if rq is not None:
        okn, _why = rq.r_GF_NSPK()
        bounds = getattr(rq, "nspk_bounds", [])
        chk.count("nspk_bounds_evaluated", len(bounds))
        if okn:
            chk.ob("GF-NSPK.admits-every-storable-count", an.sig_parser.key + tag, bool(bounds) and all(bd == cp for bd, cp in bounds),
                   "the signature parser %s lets through at most %s signed public keys although %s fit (and are legal for a key of maximum depth): "
                   "valid signatures of keys with the maximum number of levels are rejected" % (an.sig_parser.path, [bd for bd, _ in bounds], [cp for _, cp in bounds]), where=an.sig_parser.loc())
    # GF-LEVEL ---------------------------------------------------------------------------
    hv = an.hss_verify
    lms_blocks = [b for b, t in an.lms_calls]
    chk.count("lms_verify_call_sites", len(lms_blocks))
    lvl = gf.find_guards(hv, lambda d: has_fields(d, (an.T_sig, FIELDS["sig.level"]), (an.T_pk, FIELDS["pk.level"])), lms_blocks)
    chk.ob("GF-LEVEL", hv.key + tag, len(lvl) >= 1,
           "no branch comparing signature.level with public_key.level rejects before the LMS verifications in %s "
           "(RFC 8554 Alg. 6a step 2: Nspk+1 must equal L)" % hv.path, where=hv.loc())
    # and the comparison is an equality test of level+1 against L: check operator and constant
    if lvl:
        ex = expr.Expr(F, hv)
        t = hv.blocks[lvl[0].block]["term"]
        e = ex.of_operand(t["discr"])
        eqs = [x for x in expr.walk(e) if x[0] == "bin" and x[1] in ("Eq", "Ne")]
        plus1 = any(y[0] == "bin" and y[1] in ("Add", "Sub") and ("const", 1) in (y[2], y[3]) for x in eqs for y in expr.walk(x))
        chk.ob("GF-LEVEL.equality-with-offset-one", hv.key + tag, bool(eqs) and plus1,
               "the level comparison is not an (in)equality of level+1 and L: %s" % (e,), where=hv.loc(lvl[0].block))

    # GF-CHAIN ---------------------------------------------------------------------------
    ex = expr.Expr(F, hv)
    for b, t in an.lms_calls:
        direct = t["dest"]["local"] == 0 and not t["dest"]["proj"]
        cs = [] if direct else flow.result_checks(hv, t["dest"]["local"])
        ok = direct
        if cs:
            ok = all(gf.error_only_from(hv, et) for c in cs for et in c.err_targets if hv.blocks[et]["term"]["k"] != "unreachable")
        chk.ob("GF-CHAIN.result-tested", "%s@%s%s" % (hv.key, "final" if direct else "level", tag), ok,
               "the result of an LMS verification in %s is neither returned nor tested with its failure leading to Err" % hv.path, where=hv.loc(b))
        sig_e = ex.of_operand(t["args"][0])
        key_e = ex.of_operand(t["args"][1])
        msg_e = ex.of_operand(t["args"][2])
        if hv.in_cycle(b):
            # intermediate level i: signature and message are the i-th signed public key's two halves
            s_ok = sig_e[0] == "field" and sig_e[2] == FIELDS["spk.sig"]
            m_ok = msg_e[0] == "field" and msg_e[2] == FIELDS["spk.pk"] or (msg_e[0] == "call" and any(x[0] == "field" and x[2] == FIELDS["spk.pk"] for x in expr.walk(msg_e)))
            m_root = [x for x in expr.walk(msg_e) if x[0] == "field" and x[2] == FIELDS["spk.pk"]]
            same_elem = bool(m_root) and s_ok and m_root[0][1] == sig_e[1]
            idx_ok = same_elem and any(x[0] == "field" and x[2] == FIELDS["sig.signed"] for x in expr.walk(sig_e[1]))
            chk.ob("GF-CHAIN.level-inputs", hv.key + tag, s_ok and m_ok and same_elem and idx_ok,
                   "intermediate verification does not check signed_public_keys[i].sig over signed_public_keys[i].public_key with one index: sig=%s msg=%s" % (sig_e, msg_e),
                   where=hv.loc(b))
            # key for next level is that same public key; first key is the HSS public key's LMS key
            kl = core.op_place(t["args"][1])
            kroot = key_e
            if kroot[0] == "var":
                defs = ex.defs_exprs(kroot[1])
                first = [d for d in defs if d[0] == "field" and d[2] == FIELDS["pk.lms"] and d[1] == ("arg", 2)]
                nxt = [d for d in defs if d[0] == "field" and d[2] == FIELDS["spk.pk"] and m_root and d[1] == m_root[0][1]]
                chk.ob("GF-CHAIN.key-chain", hv.key + tag, len(first) == 1 and len(nxt) == 1 and len(defs) == 2,
                       "the verifying key of level i+1 is not (only) the public key signed at level i, starting from the HSS public key: %s" % (defs,), where=hv.loc(b))
            else:
                chk.ob("GF-CHAIN.key-chain", hv.key + tag, False, "the per-level key is not a loop-carried variable: %s" % (key_e,), where=hv.loc(b))
        else:
            s_ok = sig_e == ("field", ("arg", 1), FIELDS["sig.bottom"])
            m_ok = msg_e == ("arg", 3)
            chk.ob("GF-CHAIN.final-inputs", hv.key + tag, s_ok and m_ok,
                   "the final verification does not check signature.signature over the message: sig=%s msg=%s" % (sig_e, msg_e), where=hv.loc(b))
    # loop runs over 0..L-1 (every signed public key is verified)
    loop_calls = [b for b, t in an.lms_calls if hv.in_cycle(b)]
    chk.ob("GF-CHAIN.has-level-loop", hv.key + tag, len(loop_calls) == 1 and len(an.lms_calls) == 2,
           "expected one in-loop and one final LMS verification in %s, found %d/%d" % (hv.path, len(loop_calls), len(an.lms_calls)), where=hv.loc())
    if loop_calls:
        idx = [x for x in expr.walk(ex.of_operand(hv.blocks[loop_calls[0]]["term"]["args"][0])) if x[0] == "adt" and x[1] == "core::ops::range::Range"]
        rng_ok = bool(idx) and idx[0][3][0] == ("const", 0) and any(
            y[0] == "field" and y[2] in (FIELDS["pk.level"], FIELDS["sig.level"]) for y in expr.walk(idx[0][3][1]))
        chk.ob("GF-CHAIN.loop-covers-all-levels", hv.key + tag, rng_ok,
               "the level loop is not 0..(L-1) derived from the level fields: %s" % (idx[:1],), where=hv.loc(loop_calls[0]))
    # PROV: ok-capable defs in the HSS verify routine are exactly the final LMS verify call
    for b, d, e in ret_defs(hv):
        if e:
            continue
        ok = b in lms_blocks
        chk.ob("PROV.hss-ok-only-from-lms-verify", "%s@%s%s" % (hv.key, d, tag), ok,
               "%s can return %s without a final LMS verification" % (hv.path, d), where=hv.loc(b))

    # GF-TYPES / GF-ROOT / PROV in the LMS verify routine -----------------------------------
    lv = an.lms_verify
    prot = [an.cand_bb] + gf.ok_def_blocks(lv)
    g1 = gf.find_guards(lv, lambda d: has_fields(d, (an.T_otssig, FIELDS["otssig.param"]), (an.T_lmspk, FIELDS["lmspk.ots_param"])), prot)
    g2 = gf.find_guards(lv, lambda d: has_fields(d, (an.T_lmssig, FIELDS["lmssig.lms_param"]), (an.T_lmspk, FIELDS["lmspk.lms_param"])), prot)
    chk.ob("GF-TYPES.lmots", lv.key + tag, len(g1) >= 1,
           "no rejecting comparison of the signature's LM-OTS type with the key's LM-OTS type guards the candidate computation in %s" % lv.path, where=lv.loc())
    chk.ob("GF-TYPES.lms", lv.key + tag, len(g2) >= 1,
           "no rejecting comparison of the signature's LMS type with the key's LMS type guards the candidate computation in %s" % lv.path, where=lv.loc())
    # the parameter comparison must be full structural equality (derived PartialEq over all fields)
    for pty in ("lm_ots", "lms"):
        pass
    okb = gf.ok_def_blocks(lv)
    chk.count("lms_ok_defs", len(okb))
    cand_local = an.cand_call["dest"]["local"]

    def root_dep(d):
        calls = {id(t) for b, t in d["calls"]}
        return id(an.cand_call) in calls and (an.T_lmspk, FIELDS["lmspk.key"]) in d["fields"]

    gr = gf.find_guards(lv, root_dep, okb)
    chk.ob("GF-ROOT", lv.key + tag, len(gr) >= 1 and len(okb) >= 1,
           "Ok is not control-dependent on a comparison of the computed candidate with public_key.key in %s" % lv.path, where=lv.loc())
    if gr:
        # whole-value equality: the compared operands are views of the candidate call result and of the key field
        sw = lv.blocks[gr[0].block]["term"]
        cmp_calls = [(b, t) for b, t in core.operand_deps(lv, sw["discr"])["calls"]
                     if (flow.decl_path(t) or "").split("::")[-1] in ("eq", "ne", "ct_eq") and len(t["args"]) == 2]
        whole = False
        for b, t in cmp_calls:
            o1, o2 = flow.origin(lv, t["args"][0]), flow.origin(lv, t["args"][1])
            kinds = {o[0] for o in (o1, o2)}
            c_ok = any(o[0] == "call" and o[2] is an.cand_call or (o[0] == "field" and o[2] == "0" and False) for o in (o1, o2)) or \
                any(traces_to_candidate(lv, o, an) for o in (o1, o2))
            k_ok = any(o[0] == "field" and o[2] == FIELDS["lmspk.key"] for o in (o1, o2))
            if c_ok and k_ok:
                whole = True
        chk.ob("GF-ROOT.whole-value-equality", lv.key + tag, whole,
               "the root comparison does not compare the whole candidate with the whole key (a sliced / partial comparison weakens the check): %s"
               % [(flow.origin(lv, t["args"][0])[:2], flow.origin(lv, t["args"][1])[:2]) for b, t in cmp_calls], where=lv.loc(gr[0].block))
    for b, d, e in ret_defs(lv):
        if e:
            continue
        chk.ob("PROV.lms-ok-only-after-root-check", "%s@%s%s" % (lv.key, d, tag), d.startswith("Ok") and bool(gr),
               "%s has an ok-capable return definition %s outside the root comparison" % (lv.path, d), where=lv.loc(b))

    # GF-LEAF ------------------------------------------------------------------------------
    cf = an.cand_fn
    walk_blocks = [b for b, t in cf.calls() if cf.in_cycle(b) and not cf.blocks[b]["cleanup"]]

    def leaf_dep(T):
        def pred(d):
            fs = d["fields"]
            has_leaf = (T, FIELDS["lmssig.leaf"]) in fs or any(n == FIELDS["lmssig.leaf"] for a, n in fs)
            callees = gf.dep_callees(d)
            has_h = any(n in ("tree_height",) for a, n in fs) or any("LmsParameter" in c for c in callees)
            return has_leaf and has_h and any(r["op"] in ("Lt", "Le", "Gt", "Ge") for r in d["binops"])
        return pred

    g_c = gf.find_guards(cf, leaf_dep(an.T_lmssig), walk_blocks) if walk_blocks else []
    # in the parser the leaf identifier is a local read from the input, compared with number_of_lm_ots_keys
    lp = None
    for f in F.fns.values():
        out = f.j.get("output", {})
        if out.get("path") == flow.OPTION and out["args"][0].get("path") == an.T_lmssig and len(f.j.get("inputs", [])) == 1 and core.is_u8_slice_ref(f.j["inputs"][0]):
            lp = f
    g_p = []
    if lp is not None:
        somes = [b for b, d, e in ret_defs(lp) if not e]

        def pdep(d):
            callees = gf.dep_callees(d)
            return (any("LmsParameter" in c for c in callees) and any("from_be_bytes" in c for c in callees)
                    and any(r["op"] in ("Lt", "Le", "Gt", "Ge") for r in d["binops"]))
        g_p = gf.find_guards(lp, pdep, somes)
    chk.ob("GF-LEAF", an.T_lmssig + tag, len(g_c) + len(g_p) >= 1,
           "the leaf index is compared with 2^h neither in the LMS signature parser nor before the authentication-path walk", where=cf.loc())
    chk.note("%s: GF-LEAF instances: candidate generator %d, parser %d" % (name, len(g_c), len(g_p)))
    chk.count("leaf_guards", len(g_c) + len(g_p))

    # GF-EXACT -----------------------------------------------------------------------------
    for which, pf in (("SIG", an.sig_parser), ("PK", an.pk_parser)):
        somes = [b for b, d, e in ret_defs(pf) if not e]

        def ldep(d, pf=pf):
            lens = [t for b, t in d["calls"] if (flow.decl_path(t) or "").endswith("core::slice::len") or core.strip_generics(core.callee_path(t) or "") == "core::slice::len"]
            on_data = any(is_data_or_suffix(pf, t["args"][0]) for t in lens)
            eq = any(r["op"] in ("Eq", "Ne") for r in d["binops"])
            return on_data and eq
        g = gf.find_guards(pf, ldep, somes)
        chk.ob("GF-EXACT-" + which, pf.key + tag, len(g) >= 1 and bool(somes),
               "%s accepts input without comparing the consumed length with data.len(): trailing bytes are accepted (RFC 8554 requires exact lengths)" % pf.path, where=pf.loc())
        if g:
            # the consumed length must depend on the parsed sub-structure(s), not on a constant only
            d = g[0].deps
            chk.ob("GF-EXACT-%s.depends-on-parsed-lengths" % which, pf.key + tag, len(d["calls"]) >= 2,
                   "the exact-length comparison in %s does not depend on the lengths of the parsed parts" % pf.path, where=pf.loc(g[0].block))


def is_data_or_suffix(pf, operand, depth=0):
    """The parser's input slice itself, or a suffix `data[i..]` / `data.get(i..)?` of it (then `suffix.len() == last.len()` is the
    same exact-length test as `i + last.len() == data.len()`)."""
    o = flow.origin(pf, operand)
    if o == ("arg", 1):
        return True
    if depth > 6:
        return False
    if o[0] == "call":
        t = o[2]
        last = core.strip_generics(core.callee_path(t) or "").rsplit("::", 1)[-1]
        if last in ("get", "index") and len(t["args"]) == 2 and "RangeFrom" in (core.op_place(t["args"][1]) or {}).get("ty", ""):
            return is_data_or_suffix(pf, t["args"][0], depth + 1)
        if last in ("branch", "unwrap", "expect", "ok_or", "ok") and t["args"]:
            return is_data_or_suffix(pf, t["args"][0], depth + 1)
    if o[0] in ("local", "field") and o[1] is not None:
        # payload of `?` on an Option<&[u8]>: (x as Continue).0 / (x as Some).0
        ds = [d for d in pf.defs_of(o[1]) if not pf.blocks[d[0]]["cleanup"]]
        if len(ds) == 1 and ds[0][1] != "term" and ds[0][2]["k"] == "assign" and ds[0][2]["rv"]["k"] == "use":
            p = core.op_place(ds[0][2]["rv"]["op"])
            if p is not None and p["proj"]:
                return is_data_or_suffix(pf, {"k": "copy", "place": {"local": p["local"], "proj": [], "ty": ""}}, depth + 1)
        if len(ds) == 1 and ds[0][1] == "term":
            return is_data_or_suffix(pf, {"k": "copy", "place": {"local": o[1], "proj": [], "ty": ""}}, depth + 1) if False else _call_suffix(pf, ds[0][2], depth)
    return False


def _call_suffix(pf, t, depth):
    last = core.strip_generics(core.callee_path(t) or "").rsplit("::", 1)[-1]
    if last in ("get", "index") and len(t["args"]) == 2 and "RangeFrom" in (core.op_place(t["args"][1]) or {}).get("ty", ""):
        return is_data_or_suffix(pf, t["args"][0], depth + 1)
    if last in ("branch", "unwrap", "expect", "ok_or", "ok") and t["args"]:
        return is_data_or_suffix(pf, t["args"][0], depth + 1)
    return False


def leaf_guard_count(F, A):
    """Number of leaf-range guards (candidate generator + LMS signature parser); used by the PF engine."""
    an = Anchors(F, A)
    cf = an.cand_fn
    walk_blocks = [b for b, t in cf.calls() if cf.in_cycle(b) and not cf.blocks[b]["cleanup"]]

    def cdep(d):
        fs = d["fields"]
        has_leaf = any(n == FIELDS["lmssig.leaf"] for a, n in fs)
        has_h = any(n == "tree_height" for a, n in fs) or any("LmsParameter" in c for c in gf.dep_callees(d))
        return has_leaf and has_h and any(r["op"] in ("Lt", "Le", "Gt", "Ge") for r in d["binops"])
    n = len(gf.find_guards(cf, cdep, walk_blocks)) if walk_blocks else 0
    for f in F.fns.values():
        out = f.j.get("output", {})
        if out.get("path") == flow.OPTION and out["args"][0].get("path") == an.T_lmssig and len(f.j.get("inputs", [])) == 1 and core.is_u8_slice_ref(f.j["inputs"][0]):
            somes = [b for b, d, e in ret_defs(f) if not e]

            def pdep(d):
                callees = gf.dep_callees(d)
                return (any("LmsParameter" in c for c in callees) and any("from_be_bytes" in c for c in callees)
                        and any(r["op"] in ("Lt", "Le", "Gt", "Ge") for r in d["binops"]))
            n += len(gf.find_guards(f, pdep, somes))
    return n


def traces_to_candidate(lv, org, an):
    """origin() stops at multi-step temporaries: accept `copy of (Continue payload of branch(candidate call))`."""
    if org[0] == "local" and org[1] is not None:
        s = core.Slice(lv).deps([org[1]])
        return any(t is an.cand_call for b, t in s["calls"])
    if org[0] == "field":
        s = core.Slice(lv).deps([org[1]])
        return any(t is an.cand_call for b, t in s["calls"])
    return False


def run(chk, ctx):
    chk.explanation = (
        "The rejection structure of RFC 8554 Algorithms 6a/6 is checked as guard facts: each rejecting comparison is located by the "
        "fields its condition depends on, its failing edge must lead only to error returns, and it must lie on every path to the code it "
        "protects (edge dominance). Acceptance provenance: the only ok-capable return definitions are the propagated final LMS verification "
        "and the Ok guarded by the whole-value root comparison; all entry points funnel into that routine."
    )
    chk.not_decided = ("the 'if' direction (valid triples are accepted) and that the values compared are the RFC's hashes (layouts are C07's subject); "
                       "this check decides necessary conditions of 'rejects everything else'")
    chk.trusted_base = ["rustc MIR construction", "derived PartialEq on the parameter structs compares all fields", "field-name table in rules/c02.py (fails closed on rename)"]
    configs = ["default"] if ctx.tier == "quick" else ["default", "std", "verbose", "fast_verify"]
    for name in configs:
        run_config(chk, ctx, name)
    chk.floor("lms_verify_call_sites", 2)
    chk.floor("lms_ok_defs", 1)
    chk.floor("leaf_guards", 1)
