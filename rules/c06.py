"""C06 - verification is total on arbitrary bytes (panic-freedom + termination).

Every panic-capable site (MIR Assert terminators, calls to partial callees, explicit panics) in every
function reachable from the verification entry points and the byte-level constructors is enumerated and
must be discharged: by interval analysis (one pass per (hash size, LM-OTS row) partition), by the
capacity / accumulator budget idioms, or by a reviewed obligation whose dependencies hold today.  No
recursion; every loop needs a finite iterator or a strictly decreasing measure."""
from . import pf
from .api import Api

LEVEL = "proof"
TECHNIQUE = "abstract interpretation (intervals + lengths + variant facts, partitioned by parameter row) over MIR; budget idioms; reviewed obligations with MIR-checked dependencies; CFG loop/recursion analysis"


def run(chk, ctx):
    chk.explanation = (
        "All panic-capable sites reachable from verify / Verifier::verify / Signature::from_bytes / VerifierSignature::from_ref / "
        "VerifyingKey::from_bytes are enumerated from the MIR and each is discharged; all loops have a finite driver or measure and there is no recursion. "
        "Untrusted bytes and lengths are modelled as unknown; parameter-table values as the extracted rows.")
    chk.not_decided = "totality of the callee crates' internals (core, tinyvec, digest, sha2, sha3): by summary, listed in the evidence notes"
    chk.trusted_base = ["rustc MIR construction (overflow checks enabled as in the repo's profiles)", "rules/summaries.py (partial callee table and models)",
                        "rules/obligations.py (reviewed entries; each tied to MIR-checked dependencies)", "64-bit usize"]
    chk.assumptions = ["hash compression functions are total", "usize = u64"]
    configs = ["default"] if ctx.tier == "quick" else ["default", "std", "verbose", "fast_verify"]
    for name in configs:
        F = ctx.facts(name)
        A = Api(F)
        chk.configs.append(name)
        tag = "" if name == "default" else "[%s]" % name
        entries = A.entries_verify() + A.entries_constructors()
        pf.run(chk, F, A, entries, "verify:" + name, allow_recursion=(), tag=tag)
    chk.floor("panic_sites", 70)
    chk.floor("functions_reachable", 65)
    chk.floor("loops", 3)
