"""C14 - build-time limits only restrict what is accepted (clause level, per build configuration).

The fact extractor is run once per configuration of the HBS_LMS_* environment (matrix below); per configuration:
  V1  every use of a configuration-dependent named constant (the five generated ones and every constant whose
      evaluated value differs from the default build) in a function reachable from the public API is a *limit use*:
      operand of a comparison, a limit table that is only indexed and compared, or the bound of a loop whose index only
      selects array elements.  Any other use (a length handed to a parser or serialiser, an offset, a value) makes
      keys / signatures depend on the build.
  V2  cross-configuration identity: for every function the sequence of constant operand values, callee paths and
      byte-array lengths viewed as slices is identical to the default build's, except at V1's limit uses - same code,
      same constants, hence same bytes for every accepted parameter list.
  V3  limits are enforced where parameters enter (GF-LIMITS: the decoder appends a parameter only on the success edge of
      the per-level predicate, which is a conjunction of height <= TREE_HEIGHTS[level] and w >= WINTERNITZ_PARAMETERS[level];
      parameters below keygen / sign / lifetime come only from the decoder) and the capacities cover the limits (table facts
      evaluated from this configuration's constants: authentication path, Winternitz chains, HSS signature length incl.
      the u16 length field)
  V4  usable and crash-free: the panic-freedom engine (C11's and C06's entry points) discharges every site with this
      configuration's capacities - refusals are error returns, never overflowing pushes
  V5  the crate type-checks in the configuration (the extraction itself), the generated constants are the requested ones, and the
      derived MAX_TREE_HEIGHT / MIN_WINTERNITZ_PARAMETER are the numeric extrema of the per-level lists
Not decided: byte equality of keys / signatures across builds as a runtime fact (V1+V2 give "same code, same constants").
"""
import concurrent.futures as cf
import os

from . import core, extract, flow, pf, requires, ia
from .api import Api
from .core import AnchorLost

LEVEL = "other"
TECHNIQUE = ("per-configuration fact extraction (build matrix); use-classification of configuration-dependent constants by forward def-use; "
             "cross-configuration comparison of MIR skeletons; guard facts; reference-table evaluation; panic-freedom engine (abstract interpretation) per configuration")

GENERATED = ("MAX_ALLOWED_HSS_LEVELS", "TREE_HEIGHTS", "WINTERNITZ_PARAMETERS", "MAX_TREE_HEIGHT", "MIN_WINTERNITZ_PARAMETER")

# (levels, heights, winternitz): limits that differ per level, single level, mixed, uniform, minimum heights with 8 levels
# the third quick configuration has a smaller number after a larger one in both lists (the derived MAX / MIN constants must be
# numeric extrema, whatever the order and the textual form)
MATRIX_QUICK = [(2, [5, 5], [4, 2]), (1, [5], [8]), (2, [10, 5], [8, 4])]
MATRIX_THOROUGH = MATRIX_QUICK + [(2, [5, 5], [4, 4]), (3, [10, 5, 5], [2, 4, 8]), (8, [5] * 8, [8] * 8), (4, [15, 10, 10, 5], [1, 2, 4, 8])]

CMP = ("Lt", "Le", "Gt", "Ge", "Eq", "Ne")


class Collect:
    """Picklable stand-in for report.Check used inside worker processes."""

    def __init__(self):
        self.obs, self.counts, self.notes, self.samples = [], {}, [], []

    def ob(self, rule, key, ok, msg, where=None, sample=False):
        self.obs.append((rule, key, bool(ok), msg, where))

    def count(self, k, n):
        self.counts[k] = self.counts.get(k, 0) + n

    def note(self, s):
        self.notes.append(s)


def rv_operands(rv):
    k = rv["k"]
    if k in ("use", "cast", "repeat"):
        return [rv["op"]]
    if k == "binop":
        return [rv["a"], rv["b"]]
    if k == "unop":
        return [rv["a"]]
    if k == "aggregate":
        return list(rv["ops"])
    return []


def walk_consts(o, out):
    """Constant *operands* of an rvalue / terminator / operand list (types and their const generics are not operands)."""
    if isinstance(o, list):
        for x in o:
            walk_consts(x, out)
        return
    if not isinstance(o, dict):
        return
    k = o.get("k")
    if k == "const":
        out.append(o)
    elif k in ("copy", "move"):
        return
    elif k in ("use", "cast", "repeat", "binop", "unop", "aggregate", "ref", "rawptr", "discr", "len"):
        for x in rv_operands(o):
            walk_consts(x, out)
    elif k in ("call", "tailcall"):
        walk_consts(o["args"], out)
    elif k == "switch":
        walk_consts(o["discr"], out)
    elif k == "assert":
        m = o["msg"]
        for nm in ("a", "b", "len", "index"):
            if isinstance(m.get(nm), dict):
                walk_consts(m[nm], out)


def const_path(o):
    u = o.get("unevaluated")
    return u.get("path") if u and "promoted" not in u else None


def dep_consts(F, F0):
    dep = {p for p in F.consts if p.rsplit("::", 1)[-1] in GENERATED}
    if F0 is not None:
        for p, c in F.consts.items():
            c0 = F0.consts.get(p)
            if c0 is not None and (c.get("val"), c.get("bytes")) != (c0.get("val"), c0.get("bytes")):
                dep.add(p)
    return dep


def uses_of(f, l):
    return [u for u in flow.uses_of_local(f, l) if not f.blocks[u[0]]["cleanup"]]


def limit_use(F, f, b, holder, depth=0):
    """Classify what a value derived from a configuration-dependent constant, now held in local `holder`, is used
    for.  Returns None if every use is a limit use, else a description of the offending use."""
    if depth > 6:
        return "use chain too long"
    for ub, ui, kind, item in uses_of(f, holder):
        if kind == "stmt":
            rv = item["rv"]
            dst = item["place"]
            if rv["k"] == "binop" and rv["op"] in CMP:
                continue
            if rv["k"] in ("use", "cast") and not dst["proj"]:
                # copy / widening, or an element read `tbl[i]` of a limit table
                r = limit_use(F, f, ub, dst["local"], depth + 1)
                if r:
                    return r
                continue
            if rv["k"] == "ref" and not dst["proj"]:
                r = limit_use(F, f, ub, dst["local"], depth + 1)
                if r:
                    return r
                continue
            if rv["k"] == "aggregate" and "ops::range::Range" in rv.get("path", "") and not dst["proj"]:
                r = range_is_selector_only(F, f, dst["local"])
                if r:
                    return r
                continue
            if rv["k"] == "unop" and rv["op"] == "PtrMetadata":
                continue
            if rv["k"] == "binop" and rv["op"].replace("WithOverflow", "") in ("Add", "Sub") and not dst["proj"] and \
                    (core.op_const_val(rv["a"]) is not None or core.op_const_val(rv["b"]) is not None):
                # the limit shifted by a literal (`MAX - 1`, `MAX + 1`): still a limit if the result is only used as one
                r = limit_use(F, f, ub, dst["local"], depth + 1)
                if r:
                    return r
                continue
            return "%s at %s" % (rv["k"] + (":" + rv.get("op", "") if rv.get("op") else ""), f.loc(ub))
        elif kind == "assert":
            continue
        elif kind == "switch":
            continue
        elif kind == "call":
            cp = core.strip_generics(core.callee_path(item) or "?")
            if cp.rsplit("::", 1)[-1] in ("into_iter", "iter") and not item["dest"]["proj"]:
                r = range_is_selector_only(F, f, item["dest"]["local"], already_iter=True)
                if r:
                    return r
                continue
            return "argument of %s at %s" % (cp, f.loc(ub))
        elif kind == "drop":
            continue
        else:
            return "%s at %s" % (kind, f.loc(ub))
    return None


def range_is_selector_only(F, f, rng_local, already_iter=False):
    """A range bounded by a limit constant may drive a loop whose index only selects array / vector elements
    (index projections, index calls) or is compared; the index must not be an operand of arithmetic or a call."""
    # find the `next` call fed (through moves / into_iter) by this range
    seen = set()
    work = [rng_local]
    nexts = []
    while work:
        l = work.pop()
        if l in seen:
            continue
        seen.add(l)
        for ub, ui, kind, item in uses_of(f, l):
            if kind == "stmt" and item["rv"]["k"] in ("use", "ref") and not item["place"]["proj"]:
                work.append(item["place"]["local"])
            elif kind == "call":
                cp = core.strip_generics(core.callee_path(item) or "?").rsplit("::", 1)[-1]
                if cp in ("into_iter", "iter", "rev", "by_ref"):
                    work.append(item["dest"]["local"])
                elif cp == "next":
                    nexts.append(item)
                else:
                    return "range handed to %s" % core.callee_path(item)
            elif kind in ("drop",):
                continue
            elif kind == "stmt":
                return "range used in %s at %s" % (item["rv"]["k"], f.loc(ub))
    if not nexts:
        return "range bounded by a limit constant is not a loop driver"
    for n in nexts:
        # the item: (dest as Some).0 copied into locals
        items = set()
        for ub, ui, kind, item in uses_of(f, n["dest"]["local"]):
            if kind == "stmt" and item["rv"]["k"] == "use" and core.op_place(item["rv"]["op"]) and [e["k"] for e in core.op_place(item["rv"]["op"])["proj"]] == ["downcast", "field"]:
                items.add(item["place"]["local"])
        work = list(items)
        seen2 = set()
        while work:
            l = work.pop()
            if l in seen2:
                continue
            seen2.add(l)
            for ub, ui, kind, item in uses_of(f, l):
                if kind == "stmt":
                    rv = item["rv"]
                    reads_as_index = any(e["k"] == "index" and e["local"] == l for p in rv_places(rv) for e in p["proj"]) or \
                        any(e["k"] == "index" and e["local"] == l for e in item["place"]["proj"])
                    if reads_as_index:
                        continue
                    if rv["k"] == "binop" and rv["op"] in CMP:
                        continue
                    if rv["k"] in ("use", "cast") and not item["place"]["proj"]:
                        work.append(item["place"]["local"])
                        continue
                    return "loop index bounded by a limit constant is used in %s at %s" % (rv["k"] + ":" + str(rv.get("op", "")), f.loc(ub))
                elif kind == "call":
                    cp = core.strip_generics(core.callee_path(item) or "?").rsplit("::", 1)[-1]
                    if cp in ("index", "index_mut", "get", "get_mut"):
                        continue
                    return "loop index bounded by a limit constant is passed to %s at %s" % (core.callee_path(item), f.loc(ub))
                elif kind in ("assert", "switch", "drop"):
                    continue
    return None


def rv_places(rv):
    out = []

    def op(o):
        p = core.op_place(o)
        if p is not None:
            out.append(p)
    k = rv["k"]
    if k in ("use", "cast", "repeat"):
        op(rv["op"])
    elif k in ("ref", "rawptr", "discr", "len"):
        out.append(rv["place"])
    elif k == "binop":
        op(rv["a"])
        op(rv["b"])
    elif k == "unop":
        op(rv["a"])
    elif k == "aggregate":
        for o in rv["ops"]:
            op(o)
    return out


def v1_limit_uses(chk, F, F0, tree, tag):
    dep = dep_consts(F, F0)
    chk.note("configuration-dependent constants: %s" % sorted(p.rsplit("::", 1)[-1] for p in dep))
    n = 0
    for p in sorted(tree):
        f = F.fns[p]
        for b, blk in enumerate(f.blocks):
            if blk["cleanup"]:
                continue
            for si, s in enumerate(blk["stmts"]):
                if s["k"] != "assign":
                    continue
                cs = []
                walk_consts(s["rv"], cs)
                for c in cs:
                    cp = const_path(c)
                    if cp not in dep:
                        continue
                    n += 1
                    rv = s["rv"]
                    bad = None
                    if rv["k"] == "binop" and rv["op"] in CMP:
                        bad = None
                    elif s["place"]["proj"]:
                        bad = "stored into %s" % f.loc(b)
                    elif rv["k"] in ("use", "cast"):
                        bad = limit_use(F, f, b, s["place"]["local"])
                    elif rv["k"] == "aggregate" and "ops::range::Range" in rv.get("path", ""):
                        bad = range_is_selector_only(F, f, s["place"]["local"])
                    elif rv["k"] == "binop" and rv["op"].replace("WithOverflow", "") in ("Add", "Sub") and \
                            (core.op_const_val(rv["a"]) is not None and core.op_const_val(rv["b"]) is not None):
                        # `LIMIT - 1` / `LIMIT + 1` with a literal: a limit if the result is only used as one
                        bad = limit_use(F, f, b, s["place"]["local"])
                    else:
                        bad = "%s at %s" % (rv["k"] + ":" + str(rv.get("op", "")), f.loc(b))
                    chk.ob("V1.build-limit-used-only-as-limit", "%s|%s|%d%s" % (f.key, cp.rsplit("::", 1)[-1], n_in_fn(f, cp, b, si), tag), bad is None,
                           "in %s the build-time limit %s is not used as a limit (comparison / indexed limit table / element-selecting loop bound) but: %s - "
                           "keys, signatures or accepted encodings would differ between builds" % (f.path, cp, bad), where=f.loc(b))
            t = blk["term"]
            cs = []
            walk_consts(t, cs)
            for c in cs:
                cp = const_path(c)
                if cp in dep:
                    n += 1
                    ok = t["k"] in ("assert",)
                    if t["k"] == "call" and core.strip_generics(core.callee_path(t) or "").endswith("RangeInclusive::new") and not t["dest"]["proj"]:
                        ok = range_is_selector_only(F, f, t["dest"]["local"]) is None
                    chk.ob("V1.build-limit-used-only-as-limit", "%s|%s|term%s" % (f.key, cp.rsplit("::", 1)[-1], tag), ok,
                           "in %s the build-time limit %s is passed directly to %s" % (f.path, cp, core.callee_path(t) if t["k"] == "call" else t["k"]), where=f.loc(b))
    chk.count("limit_constant_uses", n)
    return dep


def n_in_fn(f, cp, b, si):
    k = 0
    for bb, blk in enumerate(f.blocks):
        for i, s in enumerate(blk["stmts"]):
            if (bb, i) == (b, si):
                return k
            if s["k"] == "assign":
                cs = []
                walk_consts(s["rv"], cs)
                k += sum(1 for c in cs if const_path(c) == cp)
    return k


def skeleton(F, f, dep):
    """Configuration-independent view of a body: constants (value), callees, switch values and the lengths of byte
    arrays that are viewed as slices.  Named limit constants are replaced by their name (V1 judges their use)."""
    out = []
    for b, blk in enumerate(f.blocks):
        if blk["cleanup"]:
            continue
        row = []
        for s in blk["stmts"]:
            if s["k"] != "assign":
                continue
            rv = s["rv"]
            cs = []
            walk_consts(rv, cs)
            for c in cs:
                cp = const_path(c)
                if cp in dep:
                    row.append(("limit", cp))
                elif c.get("tyconst"):
                    continue  # array length in a bounds check: type-level
                else:
                    row.append(("c", c.get("val"), tuple(c["bytes"]) if isinstance(c.get("bytes"), list) and len(c["bytes"]) <= 64 else None))
            if rv["k"] == "cast" and "Unsize" in rv.get("cast", ""):
                p = core.op_place(rv["op"])
                ty = p["ty"] if p else ""
                if ty.lstrip("&").replace("mut ", "").startswith("[u8; "):
                    row.append(("unsize-u8", ty))
            if rv["k"] == "repeat" and s["place"]["ty"].startswith("[u8; "):
                row.append(("repeat-u8", rv.get("n")))
        t = blk["term"]
        if t["k"] == "call":
            row.append(("call", core.strip_generics(core.callee_path(t) or "?")))
            cs = []
            walk_consts(t["args"], cs)
            for c in cs:
                cp = const_path(c)
                row.append(("limit", cp) if cp in dep else ("c", c.get("val")))
        elif t["k"] == "switch":
            row.append(("switch", tuple(v for v, _ in t["targets"])))
        elif t["k"] == "assert":
            m = t["msg"]
            row.append(("assert", m["kind"], m.get("op")))
        out.append(tuple(row))
    return tuple(out)


def v2_identity(chk, F, F0, tree, dep, tag):
    n = 0
    for p in sorted(tree):
        f = F.fns[p]
        c0 = F0.by_key.get(f.key, [])
        if len(c0) != 1:
            chk.ob("V2.same-functions-in-every-build", f.key + tag, False, "%s exists only in the constrained build" % p, where=f.loc())
            continue
        a, b_ = skeleton(F, f, dep), skeleton(F0, c0[0], dep)
        n += 1
        if a == b_:
            continue
        # first differing entry
        diff = None
        for i, (x, y) in enumerate(zip(a, b_)):
            if x != y:
                dx = [e for e in x if e not in y][:2]
                dy = [e for e in y if e not in x][:2]
                diff = "block %d: this build %s, default build %s" % (i, dx, dy)
                break
        if diff is None:
            diff = "different number of blocks (%d vs %d)" % (len(a), len(b_))
        chk.ob("V2.body-identical-to-default-build", f.key + tag, False,
               "%s differs from the default build beyond container capacities (%s): a value, length or byte-array size depends on the build limits" % (p, diff), where=f.loc())
    chk.ob("V2.bodies-compared", "all" + tag, n >= 150, "only %d function bodies compared with the default build" % n)
    chk.count("bodies_compared", n)


def run_one(args):
    """Worker: everything for one configuration.  Returns (name, Collect) - facts are loaded inside the worker."""
    lv, hs, ws, repo_env = args
    for k, v in repo_env.items():
        os.environ[k] = v
    name = extract.env_config_name(lv, hs, ws)
    cfg = extract.env_config(lv, hs, ws)
    chk = Collect()
    tag = "[%s]" % name
    try:
        F = core.Facts(extract.load(name, cfg), name)
        F0 = core.Facts(extract.load("default", None), "default")
    except Exception as e:  # extraction failure = the crate does not build in this configuration
        chk.ob("V5.builds-in-configuration", name, False, "the crate does not build / extract with %s: %s" % (cfg["env"], str(e)[-600:]))
        return name, chk
    chk.ob("V5.builds-in-configuration", name, True, "")
    A = Api(F)
    # the constants really are this configuration's
    L = F.const_val("constants::MAX_ALLOWED_HSS_LEVELS")
    chk.ob("V5.configuration-applied", name, L == lv and list(F.const_array("constants::TREE_HEIGHTS") or []) == list(hs) and list(F.const_array("constants::WINTERNITZ_PARAMETERS") or []) == list(ws),
           "extracted constants do not match the requested configuration (levels %s)" % L)
    mh, mw = F.const_val("constants::MAX_TREE_HEIGHT"), F.const_val("constants::MIN_WINTERNITZ_PARAMETER")
    chk.ob("V5.derived-limits-are-the-extrema", name, mh == max(hs) and mw == min(ws),
           "the build script derived MAX_TREE_HEIGHT = %s / MIN_WINTERNITZ_PARAMETER = %s from heights %s / Winternitz parameters %s (expected %d / %d): "
           "buffers sized by them are too small for keys the per-level limits accept" % (mh, mw, hs, ws, max(hs), min(ws)))
    api_entries = A.entries_keygen() + A.entries_sign_plain() + A.entries_lifetime() + A.entries_key_constructors() + A.entries_verify() + A.entries_constructors()
    tree = F.reachable(api_entries)
    dep = v1_limit_uses(chk, F, F0, tree, tag)
    v2_identity(chk, F, F0, tree, dep, tag)
    # V3
    an = ia.Analyzer(F)
    R = requires.Req(F, A, an)
    # (the loop-shape facts some capacity obligations depend on are checked where such an obligation is actually used, not here)
    for r in ("GF-LIMITS", "params-only-from-decoder", "T-LIMIT-HEIGHT", "T-LIMIT-CHAINS", "T-LIMIT-SIGLEN"):
        ok, why = R.check(r)
        chk.ob("V3." + r, name, ok, "%s does not hold in configuration %s: %s" % (r, name, why))
        chk.note("%s: %s: %s" % (name, r, why[:200]))
    # V4
    sign_entries = A.entries_keygen() + A.entries_sign_plain() + A.entries_lifetime() + A.entries_key_constructors()
    pf.run(chk, F, A, sign_entries, "sign:" + name, allow_recursion=("lms::helper::get_tree_element",), tag=tag)
    pf.run(chk, F, A, A.entries_verify() + A.entries_constructors(), "verify:" + name, allow_recursion=(), tag=tag)
    return name, chk


def run(chk, ctx):
    chk.explanation = __doc__.split("per configuration:", 1)[1].split("Not decided")[0].strip()
    chk.not_decided = "byte equality of keys and signatures between builds as a runtime fact; configurations outside the matrix (the rules are per configuration)"
    chk.trusted_base = ["rustc MIR construction and const evaluation", "rules/summaries.py", "rules/obligations.py (dependencies re-checked per configuration)", "RFC 8554 length formulas transcribed in rules/requires.py (T-LIMIT-SIGLEN)"]
    matrix = MATRIX_QUICK if ctx.tier == "quick" else MATRIX_THOROUGH
    # the default build is the reference for V2 and is itself subject to V1 / V3
    F0 = ctx.facts("default")
    A0 = Api(F0)
    chk.configs.append("default")
    tree0 = F0.reachable(A0.entries_keygen() + A0.entries_sign_plain() + A0.entries_lifetime() + A0.entries_key_constructors() + A0.entries_verify() + A0.entries_constructors())
    v1_limit_uses(chk, F0, None, tree0, "")
    an0 = ia.Analyzer(F0)
    R0 = requires.Req(F0, A0, an0)
    for r in ("GF-LIMITS", "params-only-from-decoder", "T-LIMIT-HEIGHT", "T-LIMIT-CHAINS"):
        ok, why = R0.check(r)
        chk.ob("V3." + r, "default", ok, "%s does not hold in the default build: %s" % (r, why))
    env = {k: os.environ[k] for k in ("LMS_REPO", "LMS_OUT", "LMS_FACTS_DIR") if k in os.environ}
    jobs = [(lv, hs, ws, env) for lv, hs, ws in matrix]
    # extraction of the default facts must be complete before the workers start (they only read it)
    with cf.ProcessPoolExecutor(max_workers=min(len(jobs), 6)) as ex:
        results = list(ex.map(run_one, jobs))
    for name, c in results:
        chk.configs.append(name)
        for rule, key, ok, msg, where in c.obs:
            chk.ob(rule, key, ok, msg, where=where)
        for k, v in c.counts.items():
            chk.count(k, v)
        for n in c.notes:
            chk.note(n)
    chk.floor("limit_constant_uses", 5)
    chk.floor("bodies_compared", 300)
    chk.floor("panic_sites", 600)
