"""HL: hash-preimage layouts and append sequences.

*Sessions*: for every function (outside the primitive hash wrappers) the sequences of operands absorbed by one hasher
value between its creation and its finalisation / escape, enumerated over the acyclic paths of the MIR CFG (loop bodies
once, their operands marked as repeated).  *Tokens* describe an operand by what is statically known: evaluated
constants, big-endian integer encodings with their width, arrays with their length, hash outputs, and locally assembled
buffers with their layout (constant-offset writes collected across the functions that receive the buffer mutably).
The same machinery yields *append sequences* of byte serialisers (extend_from_slice / push on a byte vector).

Nothing here is matched against names or positions in the source: tokens carry widths, constants and coarse provenance
(field / parameter name only as a tie-breaker used by the reference tables in c07 / c08)."""
from . import core, expr, flow
from .core import AnchorLost

ABSORB = ("update", "chain")
FINAL = ("finalize", "finalize_reset")
VIEW_LAST = ("deref", "deref_mut", "as_slice", "as_mut_slice", "as_ref", "as_mut", "borrow", "into", "from", "clone", "as_mut_ptr")
PRIMITIVE_MODS = ("hasher::sha256", "hasher::shake256")


def last_seg(t):
    return core.strip_generics(core.callee_path(t) or "?").rsplit("::", 1)[-1]


def full_path(t):
    c = core.callee_of(t)
    if not c:
        return "?"
    return c["path"]


def is_hasher_ty(ty):
    """Type json of a hasher value: the generic parameter bounded by the hash trait, `Self` in the trait's default
    methods, or a reference to one."""
    if ty.get("k") == "ref":
        return is_hasher_ty(ty["ty"])
    if ty.get("k") == "param":
        return True
    return ty.get("k") == "adt" and any(ty.get("path", "").startswith(m) for m in PRIMITIVE_MODS)


def u8_static_len(ty_s):
    """Static byte length of `[u8; N]` / `&[u8; N]` / `&mut [u8; N]`, else None."""
    import re
    m = re.match(r"^(&(mut )?)*\[u8; (\d+)\]$", ty_s.replace("'_ ", ""))
    return int(m.group(3)) if m else None


class Tokens:
    def __init__(self, F):
        self.F = F
        self._layout_memo = {}
        # `len` methods of the type of a member called `seed` (the seed container is created with n bytes)
        for a in F.adts.values():
            for v in a.get("variants", []):
                for fl in v["fields"]:
                    if fl.get("name") == "seed" and fl.get("ty", {}).get("path"):
                        SEED_LEN_FNS.add(fl["ty"]["path"] + "::len")

    # ------------------------------------------------------------------ symbolic sizes
    def sym(self, f, operand):
        """Integer operand -> canonical text: a number, 'n' (hash output size), sums like '23+n', or '?'."""
        ex = expr.Expr(self.F, f)
        return sym_expr(ex.of_operand(operand))

    # ------------------------------------------------------------------ operand tokens
    def token(self, f, operand, depth=0, at=None):
        """Describe the bytes of an operand handed to update / chain / extend_from_slice / copy_from_slice
        (`at`: block of the consuming call, for flow-sensitive buffer layouts)."""
        if depth > 12:
            return ("BYTES", None, "?")
        if operand["k"] == "const":
            return const_token(operand, f)
        p = core.op_place(operand)
        if p is None:
            return ("BYTES", None, "?")
        l = p["local"]
        ty = f.locals[l]["ty"]
        # a field / element read in place
        fl = [e for e in p["proj"] if e["k"] == "field"]
        if fl and is_wrapper_ty(ty["s"]) and is_buffer_local(f, l):
            lay = self.full_layout(f, l, at)
            if lay:
                return ("BUF", None, tuple(lay))
        if fl:
            name = fl[-1].get("name", str(fl[-1]["i"]))
            return ("ARR" if u8_static_len(p["ty"]) else "BYTES", u8_static_len(p["ty"]), "field:" + name)
        ds = [d for d in f.defs_of(l) if not f.blocks[d[0]]["cleanup"]]
        if 1 <= l <= f.arg_count and is_buffer_local(f, l) and ty["s"].startswith("&mut"):
            lay = self.full_layout(f, l, at)
            if lay:
                return ("BUF", None, tuple(lay))
        if 1 <= l <= f.arg_count and not [d for d in ds if not (d[1] != "term" and d[2]["place"]["proj"])]:
            return ("ARR" if u8_static_len(ty["s"]) else "BYTES", u8_static_len(ty["s"]), "param:%s" % param_name(f, l))
        whole = [d for d in ds if (d[1] == "term" and not d[2]["dest"]["proj"]) or (d[1] != "term" and not d[2]["place"]["proj"])]
        partial = [d for d in ds if d not in whole]
        if is_buffer_local(f, l) and (partial or self.mut_users(f, l)):
            cat = self.append_only(f, l, at)
            if cat is not None:
                return ("CAT", None, tuple(cat))
            lay = self.full_layout(f, l, at)
            if lay:
                return ("BUF", u8_static_len(ty["s"]), tuple(lay))
        if len(whole) != 1:
            return ("ARR" if u8_static_len(ty["s"]) else "BYTES", u8_static_len(ty["s"]), "local")
        b, i, d = whole[0]
        if i == "term":
            last = last_seg(d)
            if last in ("to_be_bytes", "to_le_bytes", "to_ne_bytes"):
                a = d["args"][0]
                aty = a["ty"]["s"] if a["k"] == "const" else (core.op_place(a) or {}).get("ty", "?")
                bits = {"u8": 8, "u16": 16, "u32": 32, "u64": 64, "usize": 64, "u128": 128}.get(aty)
                kind = {"to_be_bytes": "BE", "to_le_bytes": "LE", "to_ne_bytes": "NE"}[last]
                return (kind, bits // 8 if bits else None, self.int_src(f, a))
            if last in FINAL:
                return ("DIGEST", None, "hash")
            if last in VIEW_LAST and d["args"]:
                return self.token(f, d["args"][0], depth + 1, at)
            if last in ("index", "index_mut", "get", "get_mut") and len(d["args"]) == 2:
                base = self.token(f, d["args"][0], depth + 1, at)
                rng = self.range_of(f, d["args"][1])
                return ("SUB", None, (base, rng))
            tps = self.F.call_targets(f, d)
            if tps:
                return ("BYTES", u8_static_len(ty["s"]), "call:" + tps[0])
            return ("BYTES", u8_static_len(ty["s"]), "call:" + last)
        if d["k"] != "assign":
            return ("BYTES", None, "?")
        rv = d["rv"]
        if rv["k"] in ("use", "cast"):
            return self.token(f, rv["op"], depth + 1, at)
        if rv["k"] in ("ref", "rawptr"):
            pl = rv["place"]
            return self.token(f, {"k": "copy", "place": pl}, depth + 1, at)
        if rv["k"] == "aggregate" and rv.get("agg") == "array":
            parts = [self.byte_src(f, o) for o in rv["ops"]]
            return ("ARRLIT", len(parts), tuple(parts))
        if rv["k"] == "repeat":
            v = core.op_const_val(rv["op"])
            if v is None:
                # `[x; N]` with x a parameter of this function: resolved where a caller's session is stitched to this one
                o = flow.origin(f, rv["op"])
                if o[0] == "arg":
                    v = ("param", o[1])
            return ("FILL", rv.get("n"), v)
        return ("BYTES", None, "?")

    def int_src(self, f, a):
        ex = expr.Expr(self.F, f)
        e = ex.of_operand(a)
        return int_role(e)

    def byte_src(self, f, o):
        v = core.op_const_val(o)
        if v is not None:
            return "0x%02x" % v
        ex = expr.Expr(self.F, f)
        e = ex.of_operand(o)
        c = fold_const(e)
        if c is not None:
            return "0x%02x" % (c & 0xff)
        return byte_role(e)

    def range_of(self, f, operand):
        l = core.op_local(operand)
        if l is None:
            return "?"
        ds = [d for d in f.defs_of(l) if not f.blocks[d[0]]["cleanup"]]
        if len(ds) == 1 and ds[0][1] != "term" and ds[0][2]["rv"]["k"] == "aggregate" and "ops::range::Range" in ds[0][2]["rv"].get("path", ""):
            rv = ds[0][2]["rv"]
            nm = rv["path"].rsplit("::", 1)[-1]
            ops = [self.sym(f, o) for o in rv["ops"]]
            if nm == "Range":
                return "%s..%s" % tuple(ops)
            if nm == "RangeTo":
                return "..%s" % ops[0]
            if nm == "RangeFrom":
                return "%s.." % ops[0]
            if nm == "RangeFull":
                return ".."
            if nm == "RangeToInclusive":
                return "..=%s" % ops[0]
        if len(ds) == 1 and ds[0][1] == "term" and last_seg(ds[0][2]) == "new" and "RangeInclusive" in full_path(ds[0][2]):
            a, b_ = [self.sym(f, o) for o in ds[0][2]["args"]]
            return "%s..=%s" % (a, b_)
        return "idx:" + self.sym(f, operand)

    # ------------------------------------------------------------------ buffer layouts
    def mut_users(self, f, l):
        """Calls that receive a mutable view of local l."""
        out = []
        for b, t in f.calls():
            if f.blocks[b]["cleanup"]:
                continue
            for i, a in enumerate(t["args"]):
                p = core.op_place(a)
                if p is not None and p["ty"].startswith("&mut ") and flow.resolve_owner(f, a, want_mut=True) == l:
                    out.append((b, t, i))
        return out

    def layout(self, f, root, depth=0):
        """Flow-insensitive layout (all writes anywhere in f and its callees)."""
        return sorted({(pos, w, tok) for pos, w, tok, wb in self.layout_events(f, root)}, key=lambda x: (pos_key(x[0]), str(x)))

    def _layout_events(self, f, root, depth=0):
        """Write events into buffer `root`: (position text, width or None, token, block or None)."""
        key = ("ev", f.path, root)
        self._layout_memo[key] = []
        out = []
        ds = [d for d in f.defs_of(root) if not f.blocks[d[0]]["cleanup"]]
        for b, i, d in ds:
            if i == "term" and not d["dest"]["proj"]:
                tps = self.F.call_targets(f, d)
                if tps:
                    g = self.F.fns[tps[0]]
                    for pos, w, tok, wb in self.layout_events(g, 0):
                        out.append((pos, w, tok, b))
                elif last_seg(d) == "from_array_len" and d["args"]:
                    out.append(("init", None, self.token(f, d["args"][0]), b))
            elif i != "term" and d["k"] == "assign" and not d["place"]["proj"]:
                rv = d["rv"]
                if rv["k"] == "repeat":
                    out.append(("init", rv.get("n"), ("FILL", rv.get("n"), core.op_const_val(rv["op"])), b))
                elif rv["k"] == "aggregate" and rv.get("agg") == "adt" and rv["ops"]:
                    for o in rv["ops"]:
                        ol = core.op_local(o)
                        if ol is not None and is_buffer_local(f, ol):
                            for pos, w, tok, wb in self.layout_events(f, ol):
                                out.append((pos, w, tok, b if wb is None else wb))
                elif rv["k"] == "use" and core.op_local(rv["op"]) is not None and is_buffer_local(f, core.op_local(rv["op"])) and core.op_local(rv["op"]) != root:
                    for pos, w, tok, wb in self.layout_events(f, core.op_local(rv["op"])):
                        out.append((pos, w, tok, b if wb is None else wb))
        for b, i, s in f.iter_stmts():
            if s["k"] != "assign" or f.blocks[b]["cleanup"]:
                continue
            pl = s["place"]
            if not pl["proj"]:
                continue
            idx = [e for e in pl["proj"] if e["k"] in ("index", "constindex")]
            base = pl["local"]
            src = self.byte_src(f, s["rv"]["op"]) if s["rv"]["k"] in ("use", "cast") else "?"
            if idx and (base == root or self.view_root(f, base) == root):
                e = idx[0]
                pos = str(e["offset"]) if e["k"] == "constindex" else self.sym(f, {"k": "copy", "place": {"local": e["local"], "proj": [], "ty": "usize"}})
                out.append((pos, 1, ("BYTE", 1, src), b))
            elif not idx and [e["k"] for e in pl["proj"]] == ["deref"]:
                ds2 = [d for d in f.defs_of(base) if not f.blocks[d[0]]["cleanup"] and ((d[1] == "term" and not d[2]["dest"]["proj"]) or (d[1] != "term" and not d[2]["place"]["proj"]))]
                if len(ds2) == 1 and ds2[0][1] == "term" and last_seg(ds2[0][2]) in ("index_mut",) and flow.resolve_owner(f, ds2[0][2]["args"][0], want_mut=True) == root:
                    ia = ds2[0][2]["args"][1]
                    pos = str(core.op_const_val(ia)) if core.op_const_val(ia) is not None else self.range_of(f, ia)
                    out.append((pos.replace("idx:", ""), 1, ("BYTE", 1, src), b))
        for b, t in f.calls():
            if f.blocks[b]["cleanup"]:
                continue
            last = last_seg(t)
            if last in ("copy_from_slice", "clone_from_slice") and len(t["args"]) == 2:
                dst = t["args"][0]
                if flow.resolve_owner(f, dst, want_mut=True) != root:
                    continue
                out.append((self.dest_range(f, dst), None, self.token(f, t["args"][1], at=b), b))
            elif last in ("fill",) and t["args"] and flow.resolve_owner(f, t["args"][0], want_mut=True) == root:
                out.append((self.dest_range(f, t["args"][0]), None, ("FILL", None, core.op_const_val(t["args"][1]) if len(t["args"]) > 1 else None), b))
            elif last in ("extend_from_slice", "push") and t["args"] and flow.resolve_owner(f, t["args"][0], want_mut=True) == root and len(t["args"]) == 2:
                out.append(("append", None, self.token(f, t["args"][1], at=b), b))
            else:
                tps = self.F.call_targets(f, t)
                if not tps:
                    continue
                for i, a in enumerate(t["args"]):
                    p = core.op_place(a)
                    if p is not None and p["ty"].startswith("&mut ") and flow.resolve_owner(f, a, want_mut=True) == root:
                        g = self.F.fns[tps[0]]
                        if i + 1 <= g.arg_count and self.dest_range(f, a) in ("..", None):
                            for pos, w, tok, wb in self.layout_events(g, i + 1):
                                out.append((pos, w, tok, b))
        return out

    def append_only(self, f, root, at):
        """If `root` is a byte vector created empty and filled only by extend_from_slice / push calls that are totally ordered
        by dominance and all dominate the consumer `at`, the list of appended tokens in order; else None."""
        ds = [d for d in f.defs_of(root) if not f.blocks[d[0]]["cleanup"]]
        whole = [d for d in ds if (d[1] == "term" and not d[2]["dest"]["proj"]) or (d[1] != "term" and not d[2]["place"]["proj"])]
        if len(whole) != 1 or whole[0][1] != "term" or last_seg(whole[0][2]) not in ("new", "default"):
            return None
        apps = []
        for b, t, i in self.mut_users(f, root):
            last = last_seg(t)
            if last in ("extend_from_slice", "push") and i == 0 and len(t["args"]) == 2:
                apps.append((b, t))
            elif last in ("as_mut_slice", "deref_mut", "index_mut", "copy_from_slice", "clone_from_slice", "fill", "set_len", "truncate", "clear", "insert", "remove", "pop"):
                return None
            elif self.F.call_targets(f, t):
                return None
        if not apps or at is None:
            return None
        for b, t in apps:
            if not f.dominates(b, at) or f.in_cycle(b) != f.in_cycle(at):
                return None
        apps.sort(key=lambda x: sum(1 for y in apps if f.dominates(y[0], x[0])))
        for (b1, _), (b2, _) in zip(apps, apps[1:]):
            if not f.dominates(b1, b2):
                return None
        return [self.token(f, t["args"][1], at=b) for b, t in apps]

    def full_layout(self, f, root, at=None, depth=0):
        """Layout of buffer `root` as seen by a consumer in block `at`: the writes of this function that can reach `at`
        (a later write to the same position that lies on every path kills an earlier one), the writes of callees that
        received the buffer mutably before, and - for a parameter - the layouts the callers hand in."""
        evs = self.layout_events(f, root)
        if at is not None:
            reach = {}
            keep = []
            for ev in evs:
                pos, w, tok, wb = ev
                if wb is None:
                    keep.append(ev)
                    continue
                if wb not in reach:
                    reach[wb] = flow.reach_from(f, wb)
                if wb == at or at in reach[wb]:
                    keep.append(ev)
            # kill: same position, a later write that dominates the consumer
            out = []
            for ev in keep:
                pos, w, tok, wb = ev
                killed = False
                if wb is not None:
                    for ev2 in keep:
                        if ev2 is ev or ev2[0] != pos or ev2[3] is None or ev2[3] == wb:
                            continue
                        if f.dominates(wb, ev2[3]) and f.dominates(ev2[3], at) and not (f.in_cycle(ev2[3]) and f.in_cycle(wb) and f.dominates(ev2[3], wb)):
                            killed = True
                if not killed:
                    out.append(ev)
            evs = out
        lay = [(pos, w, tok) for pos, w, tok, wb in evs]
        if 1 <= root <= f.arg_count and depth < 4:
            for cp, cb, k in self.F.callers_of(f.path):
                if k != "call":
                    continue
                g = self.F.fns[cp]
                t = g.blocks[cb]["term"]
                if root - 1 >= len(t["args"]):
                    continue
                a = t["args"][root - 1]
                o = flow.resolve_owner(g, a, want_mut=True)
                if o is None:
                    o = flow.resolve_owner(g, a)
                if o is not None and is_buffer_local(g, o):
                    lay.extend(self.full_layout(g, o, cb, depth + 1))
        return sorted(set(lay), key=lambda x: (pos_key(x[0]), str(x)))

    def layout_events(self, f, root):
        key = ("ev", f.path, root)
        if key not in self._layout_memo:
            self._layout_memo[key] = self._layout_events(f, root)
        return self._layout_memo[key]

    def view_root(self, f, l):
        return flow.resolve_owner(f, {"k": "copy", "place": {"local": l, "proj": [], "ty": f.locals[l]["ty"]["s"]}}, want_mut=True)

    def dest_range(self, f, operand, depth=0):
        """Range text of a destination slice obtained by index_mut(view(buffer), range); '..' for the whole buffer."""
        p = core.op_place(operand)
        if p is None or depth > 10:
            return "?"
        ds = [d for d in f.defs_of(p["local"]) if not f.blocks[d[0]]["cleanup"]]
        if len(ds) != 1:
            return ".."
        b, i, d = ds[0]
        if i == "term":
            last = last_seg(d)
            if last in ("index_mut", "index", "get_mut") and len(d["args"]) == 2:
                inner = self.dest_range(f, d["args"][0], depth + 1)
                r = self.range_of(f, d["args"][1])
                return r if inner in ("..", None) else compose_range(inner, r)
            if last in VIEW_LAST and d["args"]:
                return self.dest_range(f, d["args"][0], depth + 1)
            return ".."
        if d["k"] == "assign" and d["rv"]["k"] in ("ref", "rawptr"):
            return self.dest_range(f, {"k": "copy", "place": {"local": d["rv"]["place"]["local"], "proj": []}}, depth + 1) if [e["k"] for e in d["rv"]["place"]["proj"]] in ([], ["deref"]) else "?"
        if d["k"] == "assign" and d["rv"]["k"] in ("use", "cast"):
            op = core.op_place(d["rv"]["op"])
            if op is not None and len(op["proj"]) == 1 and op["proj"][0]["k"] == "field" and f.locals[op["local"]]["ty"].get("k") == "tuple":
                # one half of split_at_mut(view, k)
                ds2 = [x for x in f.defs_of(op["local"]) if not f.blocks[x[0]]["cleanup"]]
                if len(ds2) == 1 and ds2[0][1] == "term" and last_seg(ds2[0][2]) in ("split_at_mut", "split_at") and len(ds2[0][2]["args"]) == 2:
                    inner = self.dest_range(f, ds2[0][2]["args"][0], depth + 1)
                    k = self.sym(f, ds2[0][2]["args"][1])
                    half = "..%s" % k if op["proj"][0].get("i", 0) == 0 else "%s.." % k
                    return half if inner in ("..", None) else compose_range(inner, half)
                return "?"
            return self.dest_range(f, d["rv"]["op"], depth + 1)
        return ".."


def sym_add(a, b):
    if not a or a == "0":
        return b
    if not b or b == "0":
        return a
    if a.isdigit() and b.isdigit():
        return str(int(a) + int(b))
    # keep the constant part first: 23 + n
    if b.isdigit() and not a.isdigit():
        a, b = b, a
    if a.isdigit() and "+" in b and b.split("+", 1)[0].isdigit():
        h, t = b.split("+", 1)
        return "%d+%s" % (int(a) + int(h), t)
    return "%s+%s" % (a, b)


def compose_range(inner, r):
    """Absolute range of `view[inner][r]` (both `a..b` texts with optional ends); '?' when not composable."""
    if ".." not in str(inner) or ".." not in str(r) or "[" in str(inner) or "?" in str(inner) or "?" in str(r):
        return "%s[%s]" % (inner, r)
    a, b = str(inner).split("..", 1)
    c, d = str(r).split("..", 1)
    start = sym_add(a, c)
    end = sym_add(a, d) if d else b
    return "%s..%s" % (start or "0" if (start or end) else "", end)


def pos_key(p):
    import re
    m = re.match(r"^(\d+)", str(p))
    if m:
        return (0, int(m.group(1)))
    return (1, 0) if p == "init" else (2, 0)


def is_buffer_local(f, l):
    s = f.locals[l]["ty"]["s"]
    return u8_static_len(s) is not None or s.startswith("tinyvec::arrayvec::ArrayVec<[u8;") or "HashChainData" in s or s.startswith("&mut [u8") or s.startswith("&mut tinyvec::arrayvec::ArrayVec<[u8;") \
        or s.startswith("&mut hasher::HashChainData")


def is_wrapper_ty(ty_s):
    """Struct that only wraps a byte buffer (accessed through Deref / a single field)."""
    return "HashChainData" in ty_s


def param_name(f, l):
    dbg = f.j.get("body", {}).get("debug") or []
    for d in dbg:
        if d.get("local") == l and not d.get("proj"):
            return d.get("name")
    return "arg%d" % l


def const_token(o, f=None):
    u = o.get("unevaluated") or {}
    if "promoted" in u and f is not None:
        # `&CONST` / `&[..]` promoted to a static: read the value out of the promoted body
        try:
            pb = f.j["promoted"][u["promoted"]]
            for blk in pb["blocks"]:
                for st in blk["stmts"]:
                    if st["k"] == "assign":
                        rv = st["rv"]
                        if rv["k"] == "use" and rv["op"]["k"] == "const" and (isinstance(rv["op"].get("bytes"), list) or "val" in rv["op"]):
                            return const_token(rv["op"])
                        if rv["k"] == "repeat" and core.op_const_val(rv["op"]) is not None:
                            return ("FILL", rv.get("n"), core.op_const_val(rv["op"]))
                        if rv["k"] == "aggregate" and rv.get("agg") == "array" and all(core.op_const_val(x) is not None for x in rv["ops"]):
                            return ("CONST", len(rv["ops"]), "".join("%02x" % core.op_const_val(x) for x in rv["ops"]))
        except (KeyError, IndexError, TypeError):
            pass
    if isinstance(o.get("bytes"), list):
        return ("CONST", len(o["bytes"]), "".join("%02x" % b for b in o["bytes"]))
    if "val" in o:
        return ("CONST", o.get("size"), o["val"])
    return ("CONST", None, str(o.get("s"))[:40])


SEED_LEN_FNS = set()


def sym_expr(e):
    if not isinstance(e, tuple):
        return "?"
    k = e[0]
    if k == "const":
        return str(e[1])
    if k == "cast":
        return sym_expr(e[1])
    if k == "assoc":
        return "n" if e[1].endswith("OUTPUT_SIZE") else ("B" if e[1].endswith("BLOCK_SIZE") else "?")
    if k == "call":
        last = e[1].rsplit("::", 1)[-1]
        if last in ("get_hash_function_output_size", "get_output_size"):
            return "n"
        if last in ("into", "from", "try_into", "unwrap") and e[2]:
            return sym_expr(e[2][0])
        if last == "len" and e[2]:
            inner = e[2][0]
            raw = any(x[0] == "field" and x[2] == "data" for x in expr.walk(inner))
            # `seed.len()` / `seed.as_slice().len()` is n; the length of the raw container behind it (`seed.data`) is the
            # container capacity, not n (c09-m7)
            if (any(x[0] == "field" and x[2] == "seed" for x in expr.walk(inner)) and not raw) or core.strip_generics(e[1]) in SEED_LEN_FNS:
                return "n"
            return "len(%s)" % short_src(inner)
        if last in ("iter_len", "prng_len") and e[2]:
            return "23+%s" % sym_expr(e[2][0])
        return "%s()" % last
    if k == "bin":
        a, b = sym_expr(e[2]), sym_expr(e[3])
        op = {"Add": "+", "Sub": "-", "Mul": "*", "Div": "/", "AddWithOverflow": "+", "SubWithOverflow": "-", "MulWithOverflow": "*"}.get(e[1], e[1])
        if a.isdigit() and b.isdigit():
            try:
                return str({"+": lambda x, y: x + y, "-": lambda x, y: x - y, "*": lambda x, y: x * y, "/": lambda x, y: x // y}[op](int(a), int(b)))
            except Exception:
                pass
        return "%s%s%s" % (a, op, b)
    if k == "field":
        if e[2] in ("0", "1") and isinstance(e[1], tuple):
            return sym_expr(e[1]) if e[1][0] in ("bin", "variant", "field") else "?"
        return "field:%s" % e[2]
    if k == "variant":
        return sym_expr(e[1])
    if k == "arg":
        return "arg%d" % e[1]
    if k == "var":
        return "var"
    return "?"


def short_src(e):
    for x in expr.walk(e):
        if x[0] == "field" and not x[2].isdigit():
            return x[2]
        if x[0] == "arg":
            return "arg%d" % x[1]
    return "?"


def int_role(e):
    """Coarse provenance of an integer that is encoded big-endian: which field / parameter / constant it comes from and the
    narrowing casts on the way (a truncating cast is part of the encoding)."""
    casts = []
    cur = e
    while isinstance(cur, tuple) and cur[0] == "cast":
        casts.append(cur[2] if len(cur) > 2 else "?")
        cur = cur[1]
    src = "?"
    if isinstance(cur, tuple):
        if cur[0] == "const":
            src = "const:%s" % (cur[1],)
        elif cur[0] == "arg":
            src = "arg%d" % cur[1]
        else:
            names = [x[2] for x in expr.walk(cur) if x[0] == "field" and not str(x[2]).isdigit()]
            args = ["arg%d" % x[1] for x in expr.walk(cur) if x[0] == "arg"]
            ops = [x[1] for x in expr.walk(cur) if x[0] == "bin"]
            src = ",".join(sorted(set(names + args))) + ("|" + ",".join(sorted(set(ops))) if ops else "")
    return src + ("" if not casts else " as " + ">".join(str(c) for c in casts))


_BITS = {"u8": 8, "u16": 16, "u32": 32, "u64": 64, "usize": 64, "i32": 32, "i64": 64}


def fold_const(e):
    """Value of an expression built from constants only (the arithmetic of a compile-time constant byte such as
    `(D >> 8) as u8`), else None."""
    if not isinstance(e, tuple):
        return None
    if e[0] == "const":
        return e[1] if isinstance(e[1], int) else None
    if e[0] == "cast":
        v = fold_const(e[1])
        if v is None:
            return None
        bits = _BITS.get(e[2] if len(e) > 2 else "", 64)
        return v & ((1 << bits) - 1)
    if e[0] == "bin":
        a, b = fold_const(e[2]), fold_const(e[3])
        if a is None or b is None:
            return None
        op = e[1]
        try:
            return {"Shr": a >> b, "Shl": a << b, "BitAnd": a & b, "BitOr": a | b, "BitXor": a ^ b, "Add": a + b, "Sub": a - b, "Mul": a * b}.get(op)
        except Exception:
            return None
    return None


def byte_role(e):
    if not isinstance(e, tuple):
        return "?"
    if e[0] == "const":
        return "0x%02x" % e[1] if isinstance(e[1], int) and 0 <= e[1] < 256 else str(e[1])
    x = e
    while x[0] == "cast":
        x = x[1]
    if x[0] == "index" and isinstance(x[1], tuple) and x[1][0] == "call" and x[1][1].rsplit("::", 1)[-1] == "to_be_bytes" and x[2][0] == "const":
        # byte i of the big-endian encoding of an integer (merged into BE<n> when all bytes are stored next to each other)
        return "be[%s]:%s" % (x[2][1], sym_expr(x[1][2][0]) if x[1][2] else "?")
    s = sym_expr(e)
    names = [x[2] for x in expr.walk(e) if x[0] == "field" and not str(x[2]).isdigit()]
    args = ["arg%d" % x[1] for x in expr.walk(e) if x[0] == "arg"]
    ops = [x[1] for x in expr.walk(e) if x[0] == "bin"]
    consts = [str(x[1]) for x in expr.walk(e) if x[0] == "const"]
    return "%s(%s%s)" % ("".join(sorted(set(ops))) or "v", ",".join(sorted(set(names + args))), ("|" + ",".join(consts)) if consts else "")


# ---------------------------------------------------------------------------------------------- sessions
class Sessions:
    def __init__(self, F, tokens=None):
        self.F = F
        self.T = tokens or Tokens(F)

    def hasher_fns(self):
        out = []
        for p, f in sorted(self.F.fns.items()):
            if any(core.strip_generics(p).startswith(m) or ("<" + m) in p for m in PRIMITIVE_MODS):
                continue
            if any((last_seg(t) in ABSORB and "digest::Update" in full_path(t)) or (last_seg(t) in FINAL and "HashChain" in full_path(t)) for b, t in f.calls() if not f.blocks[b]["cleanup"]):
                out.append(f)
            elif f.locals and is_hasher_ty(f.locals[0]["ty"]) and any(is_hasher_ty(f.locals[t["dest"]["local"]]["ty"]) and self.F.call_targets(f, t)
                                                                      for b, t in f.calls() if not f.blocks[b]["cleanup"]):
                out.append(f)  # passes on a hasher prepared by another local function
        return out

    def classes(self, f):
        """Union of locals that carry the same hasher value (moves, chain(self) -> self, reborrows)."""
        parent = {}

        def find(x):
            while parent.get(x, x) != x:
                parent[x] = parent.get(parent[x], parent[x])
                x = parent[x]
            return x

        def union(a, b):
            ra, rb = find(a), find(b)
            if ra != rb:
                parent[ra] = rb
        hl = [l for l, d in enumerate(f.locals) if is_hasher_ty(d["ty"])]
        for l in hl:
            parent[l] = l
        for b, i, s in f.iter_stmts():
            if s["k"] != "assign" or f.blocks[b]["cleanup"] or s["place"]["proj"]:
                continue
            d = s["place"]["local"]
            if d not in parent:
                continue
            rv = s["rv"]
            src = None
            cap = None
            if rv["k"] in ("use", "cast"):
                p = core.op_place(rv["op"])
                src = p["local"] if p and not [e for e in p["proj"] if e["k"] != "deref"] else None
                cap = p
            elif rv["k"] in ("ref", "rawptr"):
                pl = rv["place"]
                src = pl["local"] if not [e for e in pl["proj"] if e["k"] != "deref"] else None
                cap = pl
            if src is not None and src in parent:
                union(d, src)
            elif cap is not None and cap["local"] == 1 and f.j.get("parent_fn") and any(e["k"] == "field" for e in cap["proj"]):
                # a hasher captured by a closure: `(*_1).k` is one value for the whole closure body
                k = [e for e in cap["proj"] if e["k"] == "field"][0].get("i", 0)
                pseudo = -1000 - k
                if pseudo not in parent:
                    parent[pseudo] = pseudo
                    hl.append(pseudo)
                union(d, pseudo)
        for b, t in f.calls():
            if f.blocks[b]["cleanup"]:
                continue
            if last_seg(t) == "chain" and "digest::Update" in full_path(t) and t["args"]:
                a = core.op_local(t["args"][0])
                d = t["dest"]["local"]
                if a in parent and d in parent:
                    union(a, d)
        return find, hl

    def sessions(self, f, max_states=4000):
        """List of (tokens tuple, end kind, end block) for f; tokens are ('ABS', token, repeated?) / ('START', how) /
        ('DELEGATE', fn)."""
        find, hl = self.classes(f)
        if not hl:
            return []
        loops = f.natural_loops()
        in_loop = set()
        for h, body in loops:
            in_loop |= set(body)
        headers = {h: body for h, body in loops}
        results = []
        seen = set()
        stack = [(0, (), {})]
        # state: block, path header-visit counts (tuple of (header,count)), sessions dict class->tuple
        init = {}
        for l in hl:
            if 1 <= l <= f.arg_count:
                init[find(l)] = (("START", "param:%s" % param_name(f, l)),)
            elif l < 0:
                init[find(l)] = (("START", "captured"),)
        stack = [(0, (), tuple(sorted(init.items())), frozenset())]
        n = 0
        while stack:
            b, hv, st, onpath = stack.pop()
            key = (b, hv, st)
            if key in seen:
                continue
            seen.add(key)
            n += 1
            if n > max_states:
                raise AnchorLost("too many hasher states in %s" % f.path)
            cur = dict(st)
            blk = f.blocks[b]
            t = blk["term"]
            rep = b in in_loop
            if t["k"] == "call" and not blk["cleanup"]:
                last = last_seg(t)
                fp = full_path(t)
                dl = t["dest"]["local"]
                a0 = core.op_place(t["args"][0]) if t["args"] else None
                c0 = find(flow.resolve_owner(f, t["args"][0]) if a0 is not None and a0["local"] not in hl else a0["local"]) if a0 is not None and (a0["local"] in hl or (flow.resolve_owner(f, t["args"][0]) in hl)) else None
                if last in ABSORB and "digest::Update" in fp and c0 is not None:
                    tok = self.T.token(f, t["args"][1], at=b)
                    cur[c0] = cur.get(c0, (("START", "?"),)) + (("ABS", tok, rep),)
                    if last == "chain" and dl in hl:
                        cur[find(dl)] = cur[c0]
                elif last in FINAL and "HashChain" in fp and c0 is not None:
                    results.append((cur.get(c0, (("START", "?"),)), last, b))
                    cur[c0] = (("START", "reset"),) if last == "finalize_reset" else ()
                elif dl in hl and not t["dest"]["proj"]:
                    # creation of a hasher value
                    tps = self.F.call_targets(f, t)
                    if last == "clone" and c0 is not None:
                        cur[find(dl)] = cur.get(c0, (("START", "?"),)) + (("CLONE",),)
                    elif last == "default":
                        cur[find(dl)] = (("START", "fresh"),)
                    elif tps:
                        cur[find(dl)] = (("START", "from:" + core.strip_generics(tps[0]).rsplit("::", 1)[-1], (tps[0], b)),)
                    else:
                        cur[find(dl)] = (("START", "from:" + last),)
                else:
                    # hasher handed to another function
                    for a in t["args"]:
                        p = core.op_place(a)
                        if p is None:
                            continue
                        o = p["local"] if p["local"] in hl else flow.resolve_owner(f, a)
                        if o in hl:
                            tps = self.F.call_targets(f, t)
                            nm = core.strip_generics(tps[0]).rsplit("::", 1)[-1] if tps else last
                            mut = p["ty"].startswith("&mut") or not p["ty"].startswith("&")
                            cur[find(o)] = cur.get(find(o), (("START", "?"),)) + (("DELEGATE", nm, "mut" if mut else "shared"),)
                            if mut:
                                results.append((cur[find(o)], "delegate:" + nm, b))
                                cur[find(o)] = (("START", "after:" + nm),)
            elif t["k"] == "return":
                rl = 0
                if rl in hl or is_hasher_ty(f.locals[0]["ty"]):
                    c = find(0) if 0 in hl else None
                    if c is not None and cur.get(c):
                        results.append((cur[c], "return", b))
                # a hasher borrowed mutably from the caller must not be left with absorbed data
                for l in hl:
                    if 1 <= l <= f.arg_count and f.locals[l]["ty"].get("k") == "ref" and f.locals[l]["ty"].get("mut"):
                        ss = cur.get(find(l)) or ()
                        if any(e[0] == "ABS" for e in ss):
                            results.append((ss, "open-at-return", b))
            nst = tuple(sorted((k, v) for k, v in cur.items() if v))
            for s in f.succ[b]:
                if f.blocks[s]["cleanup"]:
                    continue
                hv2 = dict(hv)
                if s in headers:
                    cnt = hv2.get(s, 0)
                    if cnt >= 2:
                        continue
                    hv2[s] = cnt + 1
                stack.append((s, tuple(sorted(hv2.items())), nst, onpath))
        # dedupe
        out = []
        for r in results:
            if r not in out:
                out.append(r)
        return out


def render_token(tok):
    k = tok[0]
    if k == "CONST":
        return "C(%s)" % (tok[2],)
    if k in ("BE", "LE", "NE"):
        return "%s%s(%s)" % (k, (tok[1] or 0) * 8, tok[2])
    if k == "ARR":
        return "A%s(%s)" % (tok[1], tok[2])
    if k == "BYTES":
        src = tok[2]
        if isinstance(src, str) and src.startswith("call:"):
            src = "call:" + "::".join(core.strip_generics(src[5:]).rsplit("::", 2)[-2:])
        return "V(%s)" % (src,)
    if k == "DIGEST":
        return "DIGEST"
    if k == "SUB":
        return "%s[%s]" % (render_token(tok[2][0]), tok[2][1])
    if k == "BUF":
        return "BUF%s{%s}" % (tok[1] or "", "; ".join("%s:%s" % (p, render_token(t)) for p, w, t in tok[2]))
    if k == "CAT":
        return "(%s)" % " ++ ".join(render_token(t) for t in tok[2])
    if k == "ARRLIT":
        return "[%s]" % ",".join(tok[2])
    if k == "FILL":
        return "FILL(%s x %s)" % (tok[1], tok[2])
    if k == "BYTE":
        return "u8(%s)" % tok[2]
    return str(tok)


def render_session(sess):
    parts = []
    for e in sess:
        if e[0] == "START":
            parts.append("<%s>" % e[1])
        elif e[0] == "ABS":
            parts.append(render_token(e[1]) + ("*" if e[2] else ""))
        elif e[0] == "DELEGATE":
            parts.append("->%s(%s)" % (e[1], e[2]))
        elif e[0] == "CLONE":
            parts.append("<clone>")
    return " | ".join(parts)


# ---------------------------------------------------------------------------------------------- append sequences
def byte_vec_fns(F):
    """Functions that build and return a byte vector (serialisers)."""
    out = []
    for p, f in sorted(F.fns.items()):
        o = f.j.get("output", {}).get("s", "")
        ins = f.j.get("inputs", [])
        # a serialiser renders a value of a crate type: its first parameter is a reference to a local struct / enum
        # (helpers that merely build some byte vector - hash outputs, scratch buffers - are not wire formats)
        selfish = bool(ins) and ins[0].get("k") == "ref" and ins[0]["ty"].get("k") == "adt" and ins[0]["ty"].get("crate") == core.LOCAL_CRATE
        if selfish and o.startswith("tinyvec::arrayvec::ArrayVec<[u8;") and any(last_seg(t) in ("extend_from_slice", "push") for b, t in f.calls() if not f.blocks[b]["cleanup"]):
            out.append(f)
    return out


def append_sequences(F, T, f, max_states=3000):
    """Sequences of tokens appended to the byte vector that f returns, over the acyclic paths (loops once, marked)."""
    # the vector: origin of the returned value
    vecs = set()
    for b, i, s in f.iter_stmts():
        if s["k"] == "assign" and s["place"]["local"] == 0 and not s["place"]["proj"] and s["rv"]["k"] == "use" and not f.blocks[b]["cleanup"]:
            l = core.op_local(s["rv"]["op"])
            if l is not None:
                vecs.add(l)
    if not vecs:
        vecs = {0}
    loops = f.natural_loops()
    in_loop = set()
    for h, body in loops:
        in_loop |= set(body)
    headers = {h for h, body in loops}
    results = []
    seen = set()
    stack = [(0, (), ())]
    n = 0
    while stack:
        b, hv, seq = stack.pop()
        if (b, hv, seq) in seen:
            continue
        seen.add((b, hv, seq))
        n += 1
        if n > max_states:
            raise AnchorLost("too many append states in %s" % f.path)
        blk = f.blocks[b]
        t = blk["term"]
        if t["k"] == "call" and last_seg(t) in ("extend_from_slice", "push") and len(t["args"]) == 2 and flow.resolve_owner(f, t["args"][0], want_mut=True) in vecs:
            seq = seq + ((T.token(f, t["args"][1], at=b), b in in_loop),)
        if t["k"] == "return":
            results.append(seq)
        for s in f.succ[b]:
            if f.blocks[s]["cleanup"]:
                continue
            hv2 = dict(hv)
            if s in headers:
                if hv2.get(s, 0) >= 2:
                    continue
                hv2[s] = hv2.get(s, 0) + 1
            stack.append((s, tuple(sorted(hv2.items())), seq))
    out = []
    for r in results:
        if r not in out:
            out.append(r)
    return out


def render_seq(seq):
    return " | ".join(render_token(t) + ("*" if rep else "") for t, rep in seq)
