"""C07 - released signatures are byte-exact RFC 8554 HSS signatures (clause level).

  H1  every hash invocation of the library (all sessions on hasher values, enumerated over the MIR CFG paths, buffers resolved to
      their layouts across the functions that fill them) is one of the reference preimages written from RFC 8554 4.3-4.5 / 5.3
      (and the hash-sigs derivation, C08): order, static widths, big-endian integer widths (u32 q/r, u16 chain index, u8 step),
      domain separator values, buffer offsets; no hasher is left half-absorbed; wire preimages start on a fresh hasher
  H2  each RFC preimage is present where it must be: K (key generation and verification), Q (signing and verification), leaf and
      interior node (tree construction and verification), chain iteration
  H3  serialisation: every byte serialiser matches a reference layout, composed bottom-up - LM-OTS signature, LMS public key,
      LMS signature, signed public key, HSS signature, HSS public key - in RFC field order and with u32 type / count fields
  H4  the count field of the HSS signature is (number of levels - 1) and one signed public key is emitted per upper level
  H5  randomizer provenance: every C handed to the LM-OTS signer comes from the seed-derive routine keyed with the randomizer
      index constant (0xfffd) and the current leaf; inside the level loop it depends, within the same iteration, on that
      iteration's child seed derivation (not on the previous level's)
  H6  parameter tables (type -> w, p, ls per hash; type -> h) equal Appendix B / section 5.1 (shared with C12-T1; the ls deviation
      F7 is a known finding here as well)
  H7  level i is signed with its own leaf and its own parameter set: the per-level key generation receives element i of the counter
      decomposition and element i of the decoded parameter list (C03's provenance rules P1)
      (C03's P1) and the counter decomposition rules (C03's P2: 'by that level's current leaf')
Not decided: byte equality with an independent signer for concrete inputs; the chain and checksum arithmetic (C12).
"""
from . import c12, c13, core, expr, flow, hl, hlref, ia, paramtable as pt
from .api import Api
from .core import AnchorLost

LEVEL = "other"
TECHNIQUE = ("hash-session extraction over MIR CFG paths with interprocedural buffer layouts, matched against RFC 8554 reference preimages; bottom-up "
             "classification of serialiser append sequences; expression-DAG and intra-iteration dependence rules; reference tables evaluated by interval analysis")


def randomizer_rules(chk, F, A, tag):
    """H5."""
    # the randomizer routine: local fn whose body sets the child-seed index to the constant 0xfffd and returns seed_derive output
    cands = []
    for p, f in F.fns.items():
        consts = []
        for b, t in f.calls():
            for a in t["args"]:
                v = core.op_const_val(a)
                if v == 0xfffd:
                    consts.append(b)
        if consts and f.j.get("output", {}).get("s", "").startswith("tinyvec::arrayvec::ArrayVec<[u8;"):
            cands.append(f)
    chk.ob("H5.randomizer-routine-found", "randomizer" + tag, len(cands) == 1,
           "expected one routine deriving a value with the seed index constant 0xfffd (SEED_SIGNATURE_RANDOMIZER_SEED), found %s" % [f.path for f in cands])
    if len(cands) != 1:
        return
    R = cands[0]
    # LM-OTS signing entry points below sign: functions that receive the randomizer (ArrayVec<[u8;32]> by ref) and the LMS private key
    sites = []
    for p, f in F.fns.items():
        for b, t in f.calls():
            if f.blocks[b]["cleanup"]:
                continue
            tps = F.call_targets(f, t)
            if not tps or tps[0] not in F.fns:
                continue
            g = F.fns[tps[0]]
            if g.j.get("name") not in ("sign", "sign_fast_verify") or "LmsSignature" not in core.strip_generics(g.path):
                continue
            sites.append((f, b, t, g))
    chk.count("lms_sign_call_sites", len(sites))
    for f, b, t, g in sites:
        # the randomizer argument: the one whose type is (a reference to) a hash-sized byte vector
        ridx = [i for i, ty in enumerate(g.j["inputs"]) if "ArrayVec<[u8;" in ty["s"] and ty.get("k") == "ref"]
        if len(ridx) != 1:
            chk.ob("H5.randomizer-argument-found", "%s->%s%s" % (f.key, g.key, tag), False, "cannot identify the randomizer parameter of %s" % g.path, where=f.loc(b))
            continue
        a = t["args"][ridx[0]]
        o = flow.origin(f, a)
        own = flow.resolve_owner(f, a)
        src = None
        if own is not None:
            ds = [d for d in f.defs_of(own) if not f.blocks[d[0]]["cleanup"] and d[1] == "term"]
            if len(ds) == 1 and F.call_targets(f, ds[0][2]) == [R.path]:
                src = ds[0]
        chk.ob("H5.randomizer-is-the-seed-derived-value", "%s->%s%s" % (f.key, g.key, tag), src is not None,
               "the randomizer handed to %s in %s is not the result of %s (origin %s)" % (g.path, f.path, R.path, o[:2]), where=f.loc(b))
        if src is None:
            continue
        rb, _, rt = src
        # in a level loop: the seed argument depends, within the iteration, on the child derivation of this iteration
        loops = [(h, body) for h, body in f.natural_loops() if rb in body]
        if loops:
            h, body = max(loops, key=lambda x: len(x[1]))
            srcs = c13.intra_iteration_sources(F, f, h, body, rt["args"][0], rb)
            derive = [s for s in srcs if s[0] == "call" and F.call_targets(f, s[1]) and any(F.fns[tp].j.get("output", {}).get("s") == f.locals[flow.resolve_owner(f, rt["args"][0])]["ty"]["s"] for tp in F.call_targets(f, s[1]))]
            chk.ob("H5.loop-randomizer-uses-this-iterations-child-seed", f.key + tag, bool(derive),
                   "in the level loop of %s the randomizer is derived from a seed value that is not produced in the same iteration (the child seed/identifier derivation must "
                   "precede it): the C of every signed public key would come from the previous level's tree" % f.path, where=f.loc(rb))


def level_rules(chk, F, roles, tag):
    """H4: HssSignature { level: n_levels - 1, signed_public_keys: one per upper level }."""
    ser = [p for p, r in roles.items() if r == "hss-signature"]
    if len(ser) != 1:
        return
    sf = F.fns[ser[0]]
    adt = sf.j["impl"]["self_ty"].get("path")
    builders = []
    for p, f in F.fns.items():
        for b, i, s in f.iter_stmts():
            if s["k"] == "assign" and s["rv"]["k"] == "aggregate" and s["rv"].get("path") == adt and not f.blocks[b]["cleanup"] and not f.span.get("exp"):
                builders.append((f, b, s))
    chk.ob("H4.hss-signature-built-once", adt + tag, len(builders) == 1, "expected one place constructing %s, found %d" % (adt, len(builders)))
    for f, b, s in builders[:1]:
        ex = expr.Expr(F, f)
        fields = dict(zip(s["rv"]["fields"], s["rv"]["ops"]))
        # the serialised count field
        ss = hl.append_sequences(F, hl.Tokens(F), sf)
        first = ss[0][0][0] if ss and ss[0] else None
        cnt_field = None
        if first and first[0] == "BE":
            names = [n for n in fields if n in str(first[2])]
            cnt_field = names[0] if names else None
        ok = False
        detail = "count field not identified (%s)" % (first,)
        if cnt_field:
            e = ex.of_operand(fields[cnt_field])
            ok = e[0] == "bin" and e[1] == "Sub" and e[3] == ("const", 1) and (expr.has_call(e[2], "get_length") or expr.has_call(e[2], "::len"))
            detail = "%s = %s" % (cnt_field, str(e)[:200])
        chk.ob("H4.count-field-is-levels-minus-one", f.key + tag, ok,
               "the count field serialised first in the HSS signature is not (number of levels - 1): %s" % detail, where=f.loc(b))


def run_config(chk, ctx, name):
    F = ctx.facts(name)
    A = Api(F)
    chk.configs.append(name)
    tag = "" if name == "default" else "[%s]" % name
    S, sessions = hlref.analyse_sessions(F)
    hlref.closed_world(chk, F, sessions, tag, "H1")
    hlref.presence(chk, sessions, {"PBLC": 2, "MESG": 2, "LEAF": 2, "INTR": 2, "CHAIN": 1}, tag, "H2")
    roles = hlref.serialiser_rules(chk, F, ["lmots-signature", "lms-public-key", "lms-signature", "signed-public-key", "hss-signature", "hss-public-key"], tag, "H3")
    level_rules(chk, F, roles, tag)
    randomizer_rules(chk, F, A, tag)
    # H6
    an = ia.Analyzer(F)

    class OnlyT1:
        """C12's table rules, restricted to the table = Appendix B comparison (coverage of checksum bits is C12's clause)."""

        def __getattr__(self, nm):
            return getattr(chk, nm)

        def ob(self, rule, instance, ok, detail="", where=None, key=None, sample=False):
            if rule.startswith("T1."):
                chk.ob("H6." + rule, instance, ok, detail, where=where, key=key)
    c12.table_rules(OnlyT1(), F, A, an, tag)
    # (the digit / checksum / chain-range role rules stay with C12: they are tied to the present shape of the checksum routine, and
    # a behaviour-preserving rewrite of it must not make C07 alarm as well)

    class OnlyP1:
        """C03's provenance rules for the per-level key generation (level i signs with its own leaf and its own parameter set:
        'an RFC 8554 LMS signature by that level's current leaf', 'the Appendix-B parameters of its type code')."""
        configs = []

        def ob(self, rule, instance, ok, detail="", where=None, key=None, sample=False):
            # P2 (decomposition of the counter into per-level leaves): 'by that level's current leaf' for counter c
            if rule.startswith("P1.") or rule.startswith("P2."):
                chk.ob("H7." + rule, instance, ok, detail, where=where, key=key)

        def count(self, *a, **k):
            pass

        def note(self, *a, **k):
            pass

        def floor(self, *a, **k):
            pass
    from . import c03
    c03.run_config(OnlyP1(), ctx, name)
    f, padt, order, rows = pt.constructor_table(F, an, A.type_path("LmsAlgorithm"))
    ev = pt.eval_rows(F, an, f, order, rows, {})
    got = {}
    for disc, r in ev.items():
        if r and r.get("type_id") and r.get("tree_height") and r["type_id"][0] == r["type_id"][1]:
            got[r["type_id"][0]] = r["tree_height"][0]
    chk.ob("H6.lms-type-table", "lms" + tag, got == pt.LMS_TYPE_H, "LMS (type -> height) table in the source is %s; RFC 8554 section 5.1 gives %s" % (got, pt.LMS_TYPE_H))


def run(chk, ctx):
    chk.explanation = __doc__.split("\n\n", 1)[1].split("Not decided")[0].strip()
    chk.not_decided = "byte equality with an independent RFC 8554 signer on concrete inputs; the hash-chain / digit arithmetic (C12 decides its structural part)"
    chk.trusted_base = ["rustc MIR construction and const evaluation", "RFC 8554 preimages and layouts as transcribed in rules/hlref.py", "Appendix B formula in rules/paramtable.py",
                        "the digest crate's update/chain absorb their argument in order"]
    configs = ["default"] if ctx.tier == "quick" else ["default", "std", "fast_verify"]
    for name in configs:
        run_config(chk, ctx, name)
    chk.floor("hash_sessions", 15)
    chk.floor("reference_patterns_checked", 5)
    chk.floor("serialisers_checked", 6)
    chk.floor("lms_sign_call_sites", 2)
