"""Fact extraction: runs the lmsfacts driver over /repo's *current working tree* under
`cargo +nightly check` for a named build configuration and caches the JSON by source digest.

Nothing here executes library code; the driver only type-checks and serialises MIR.
"""
import fcntl
import hashlib
import json
import os
import shutil
import subprocess
import sys
import time

VERIF = os.path.dirname(os.path.dirname(os.path.abspath(__file__)))
REPO = os.environ.get("LMS_REPO", "/repo")
CACHE = os.path.join(VERIF, ".cache")
DRIVER = os.path.join(VERIF, "driver", "target", "release", "lmsfacts")
# scratch / mutant runs keep their facts elsewhere so the main cache is not pruned
FACTS_DIR = os.environ.get("LMS_FACTS_DIR", os.path.join(CACHE, "facts"))

# Build configurations.  `env` overrides the defaults of /repo/.cargo/config.toml.
CONFIGS = {
    "default": {"features": [], "env": {}},
    "std": {"features": ["std"], "env": {}},
    "verbose": {"features": ["verbose"], "env": {}},
    "fast_verify": {"features": ["fast_verify"], "env": {}},
    "fast_verify_verbose": {"features": ["fast_verify", "verbose"], "env": {}},
}


def env_config(levels, heights, winternitz, features=()):
    """A constrained-build configuration (C14)."""
    assert len(heights) == levels and len(winternitz) == levels
    return {
        "features": list(features),
        "env": {
            "HBS_LMS_MAX_ALLOWED_HSS_LEVELS": str(levels),
            "HBS_LMS_TREE_HEIGHTS": ", ".join(str(h) for h in heights),
            "HBS_LMS_WINTERNITZ_PARAMETERS": ", ".join(str(w) for w in winternitz),
        },
    }


def env_config_name(levels, heights, winternitz, features=()):
    n = "env_L%d_H%s_W%s" % (
        levels,
        "-".join(str(h) for h in heights),
        "-".join(str(w) for w in winternitz),
    )
    if features:
        n += "_" + "+".join(features)
    return n


def _iter_source_files(root):
    for dirpath, dirnames, filenames in os.walk(root):
        rel = os.path.relpath(dirpath, root)
        parts = rel.split(os.sep)
        if parts[0] in ("target", ".git"):
            dirnames[:] = []
            continue
        dirnames[:] = sorted(d for d in dirnames if not (rel == "." and d in ("target", ".git")))
        for f in sorted(filenames):
            yield os.path.join(dirpath, f)


_digest_cache = {}


def source_digest(root=None):
    root = root or REPO
    if root in _digest_cache:
        return _digest_cache[root]
    h = hashlib.sha256()
    for p in _iter_source_files(root):
        rel = os.path.relpath(p, root)
        if not (
            rel.endswith(".rs")
            or rel.endswith(".toml")
            or rel.endswith(".lock")
            or rel.startswith(".cargo")
        ):
            continue
        h.update(rel.encode())
        h.update(b"\0")
        try:
            with open(p, "rb") as fh:
                h.update(fh.read())
        except OSError:
            pass
        h.update(b"\0")
    # the driver binary is part of the key: a rebuilt driver invalidates cached facts
    try:
        st = os.stat(DRIVER)
        h.update(("%d:%d" % (st.st_size, int(st.st_mtime))).encode())
    except OSError:
        pass
    d = h.hexdigest()[:20]
    _digest_cache[root] = d
    return d


def _sysroot():
    return subprocess.check_output(["rustc", "+nightly", "--print", "sysroot"], text=True).strip()


def ensure_driver():
    if not os.path.exists(DRIVER):
        subprocess.check_call(
            ["cargo", "+nightly", "build", "--release", "--offline"],
            cwd=os.path.join(VERIF, "driver"),
        )
    return DRIVER


class ExtractionError(Exception):
    pass


def extract(name, cfg=None, repo=None, crate="hbs_lms", slot=0):
    """Return the path of the facts JSON for configuration `name` of the current tree.

    Raises ExtractionError (with the compiler output) if the tree does not build in this
    configuration."""
    repo = repo or REPO
    cfg = cfg or CONFIGS[name]
    digest = source_digest(repo)
    outdir = os.path.join(FACTS_DIR, digest)
    os.makedirs(outdir, exist_ok=True)
    out = os.path.join(outdir, name + ".json")
    errf = os.path.join(outdir, name + ".err")
    if os.path.exists(out):
        return out
    if os.path.exists(errf):
        raise ExtractionError(open(errf).read())
    ensure_driver()
    # group target dirs by feature set so dependencies stay warm; `slot` lets parallel
    # extractions use distinct directories (cargo locks a target dir).
    tname = "target-%s-%d" % ("+".join(cfg["features"]) or "nofeat", slot)
    tdir = os.path.join(CACHE, tname)
    os.makedirs(tdir, exist_ok=True)
    os.makedirs(CACHE, exist_ok=True)
    lock = open(os.path.join(CACHE, tname + ".lock"), "w")
    fcntl.flock(lock, fcntl.LOCK_EX)
    try:
        if os.path.exists(out):
            return out
        # cargo's freshness cache would skip the wrapper: drop the member's fingerprints
        fp = os.path.join(tdir, "debug", ".fingerprint")
        if os.path.isdir(fp):
            for d in os.listdir(fp):
                if d.startswith(crate.replace("_", "-") + "-") or d.startswith(crate + "-"):
                    shutil.rmtree(os.path.join(fp, d), ignore_errors=True)
        nonce = "%s-%d-%d" % (digest, os.getpid(), int(time.time() * 1000))
        tmp = out + ".tmp.%d" % os.getpid()
        env = dict(os.environ)
        env.update(cfg["env"])
        env.update(
            {
                "LD_LIBRARY_PATH": _sysroot() + "/lib",
                "RUSTFLAGS": "-Zmir-opt-level=0 -Awarnings",
                "RUSTC_WORKSPACE_WRAPPER": DRIVER,
                "LMSFACTS_OUT": tmp,
                "LMSFACTS_NONCE": nonce,
                "LMSFACTS_CRATE": crate,
                "CARGO_TARGET_DIR": tdir,
                "CARGO_NET_OFFLINE": "true",
                "CARGO_INCREMENTAL": "0",
            }
        )
        cmd = ["cargo", "+nightly", "check", "--offline", "--lib", "--quiet"]
        if cfg["features"]:
            cmd += ["--features", ",".join(cfg["features"])]
        if os.path.exists(tmp):
            os.unlink(tmp)
        p = subprocess.run(cmd, cwd=repo, env=env, stdout=subprocess.PIPE, stderr=subprocess.STDOUT, text=True)
        if p.returncode != 0 or not os.path.exists(tmp):
            msg = "configuration %s does not build (exit %d):\n%s" % (name, p.returncode, p.stdout[-6000:])
            with open(errf, "w") as fh:
                fh.write(msg)
            raise ExtractionError(msg)
        with open(tmp) as fh:
            head = fh.read(400)
        if nonce not in head:
            raise ExtractionError("stale facts (nonce mismatch) for %s" % name)
        os.replace(tmp, out)
        return out
    finally:
        fcntl.flock(lock, fcntl.LOCK_UN)
        lock.close()


def prune_cache(keep_digest):
    """Remove fact sets of older trees (disk hygiene)."""
    d = FACTS_DIR
    if not os.path.isdir(d):
        return
    keep = {keep_digest}
    fx = os.path.join(VERIF, "fixtures")
    if os.path.isdir(fx):
        for e in os.listdir(fx):
            keep.add(source_digest(os.path.join(fx, e)))
    for e in os.listdir(d):
        if e not in keep:
            shutil.rmtree(os.path.join(d, e), ignore_errors=True)


def load(name, cfg=None, repo=None, crate="hbs_lms", slot=0):
    path = extract(name, cfg, repo, crate, slot)
    with open(path) as fh:
        return json.load(fh)


if __name__ == "__main__":
    n = sys.argv[1] if len(sys.argv) > 1 else "default"
    t = time.time()
    print(extract(n), "%.1fs" % (time.time() - t))
