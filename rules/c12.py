"""C12 - the Winternitz digit encoding is RFC-exact and domination-free (clause level: tables and
data-flow roles; not the digit arithmetic itself).

  T1  table = formula: for every hash impl and LM-OTS row, (type, w, p, ls) at the constructor
      call sites equal RFC 8554 Appendix B recomputed here (p = u+v, ls = 16 - v*w)
  T2  checksum coverage: with the *source's* (w, p, ls): the checksum never overflows 16 bits
      and every checksum bit lands in one of the v = p-u digits that are signed
  T3  one digit function: the chain-iteration count of signer and verifier is derived from the
      digit function applied to (digest||checksum, chain index, w); loops run over the
      parameter's chain count; the checksum subtracts each digit from 2^w-1 over u = 8n/w digits
      and is shifted by the parameter's ls
  T4  the two sibling digit functions compute the same index / shift / mask expressions
  T5  interval analysis per (n, w, p) row of the digit functions with i in 0..p-1: no lossy narrowing while locating a
      digit; the byte index reaches the byte of the last digit (a smaller upper bound proves that checksum bits are never signed);
      per (n, row) the checksum computation itself (including closures it hands to iterator adaptors) converts no value that
      does not fit (a digit count of 256 held in a u8 makes the checksum constant)
  T6  interval analysis of the checksum-appending routine per hash size: checksum bytes are stored at positions n, n+1
"""
from . import core, expr, flow, ia, paramtable as pt
from .api import Api
from .core import AnchorLost

LEVEL = "other"
TECHNIQUE = "reference-table comparison of IA-evaluated constructor constants + data-dependence role rules on MIR expression DAGs"


def sig_match(f, inputs, output):
    ins = [t["s"] for t in f.j.get("inputs", [])]
    return ins == inputs and f.j.get("output", {}).get("s") == output


def find_digit_fns(F):
    coef = [f for f in F.fns.values() if f.kind == "Fn" and sig_match(f, ["&[u8]", "u16", "u8"], "u64")]
    helper = [f for f in F.fns.values() if f.kind == "Fn" and sig_match(f, ["u16", "u8"], "(usize, u16, u64)")]
    if len(coef) != 1:
        raise AnchorLost("digit function fn(&[u8], u16, u8) -> u64 not unique: %s" % [f.path for f in coef])
    return coef[0], (helper[0] if len(helper) == 1 else None)


def table_rules(chk, F, A, an, tag):
    tr, impls = pt.hash_impls(F)
    chk.count("hash_impls", len(impls))
    f, padt, order, rows = pt.constructor_table(F, an, A.type_path("LmotsAlgorithm"))
    table = {}
    for name, n, bs in impls:
        ev = pt.eval_rows(F, an, f, order, rows, {tr + "::OUTPUT_SIZE": (n, n)})
        for disc, r in sorted(ev.items(), key=lambda kv: str(kv[0])):
            if r is None:
                continue
            vals = {}
            bad = False
            for fld in ("type_id", "winternitz", "hash_chain_count", "checksum_left_shift"):
                iv = r.get(fld)
                if iv is None or iv[0] != iv[1]:
                    bad = True
                else:
                    vals[fld] = iv[0]
            chk.ob("T1.row-evaluates-to-constants", "%s:%s%s" % (name, r["#variant"], tag), not bad,
                   "constructor arguments of %s for %s are not compile-time constants: %s" % (r["#variant"], name, r), where=r["#where"])
            if bad:
                continue
            chk.count("lmots_rows", 1)
            t, w, p, ls = vals["type_id"], vals["winternitz"], vals["hash_chain_count"], vals["checksum_left_shift"]
            table[(name, n, t)] = (w, p, ls)
            where = r["#where"]
            rw = pt.LMOTS_TYPE_W.get(t)
            chk.ob("T1.type-code-w", "n=%d:type=%d%s" % (n, t, tag), rw == w and disc == t,
                   "LM-OTS type code %d (enum discriminant %s) has w=%d; RFC 8554 table 1 says w=%s" % (t, disc, w, rw), where=where)
            if rw is None:
                continue
            ref = pt.appendix_b(n, w)
            chk.ob("T1.p", "p:n=%d:w=%d:found=%d:expected=%d" % (n, w, p, ref["p"]), p == ref["p"],
                   "chain count p for n=%d w=%d is %d in the source; Appendix B gives u+v = %d+%d = %d" % (n, w, p, ref["u"], ref["v"], ref["p"]),
                   where=where, key="p:n=%d:w=%d:found=%d:expected=%d" % (n, w, p, ref["p"]))
            chk.ob("T1.ls", "ls:n=%d:w=%d:found=%d:expected=%d" % (n, w, ls, ref["ls"]), ls == ref["ls"],
                   "checksum left shift for n=%d w=%d is %d in the source (%s); RFC 8554 Appendix B gives ls = 16 - v*w = %d"
                   % (n, w, ls, name, ref["ls"]), where=where, key="ls:n=%d:w=%d:found=%d:expected=%d" % (n, w, ls, ref["ls"]))
            # T2 with the source's own numbers
            u = (8 * n) // w
            v_src = p - u
            cmax = (2**w - 1) * u
            cbits = cmax.bit_length()
            no_overflow = ls + cbits <= 16
            covered = v_src >= 1 and ls >= 16 - v_src * w
            chk.ob("T2.checksum-fits-16-bits", "n=%d:w=%d:ls=%d%s" % (n, w, ls, tag), no_overflow,
                   "max checksum %d needs %d bits; shifted left by %d it overflows the 16-bit checksum word" % (cmax, cbits, ls), where=where)
            chk.ob("T2.every-checksum-bit-is-signed", "cover:n=%d:w=%d:ls=%d:v=%d" % (n, w, ls, v_src), covered,
                   "n=%d w=%d: the %d checksum digits cover bits %d..15 of the checksum word but the checksum occupies bits %d..%d: "
                   "its low %d bit(s) are never signed, so digests whose checksums differ only there share checksum digits"
                   % (n, w, v_src, 16 - v_src * w, ls, ls + cbits - 1, max(0, (16 - v_src * w) - ls)), where=where,
                   key="cover:n=%d:w=%d:ls=%d:v=%d" % (n, w, ls, v_src))
    # chain-count table entries (all 12 combinations are reachable through the const fn)
    for w in (1, 2, 4, 8):
        for n in (16, 24, 32):
            cands = [f2 for f2 in F.fns.values() if f2.kind == "Fn" and sig_match(f2, ["usize", "usize"], "usize") and "winternitz" in f2.path]
    # decoders agree with the constructor
    ep = A.type_path("LmotsAlgorithm")
    for kind in ("from", "get"):
        df, dec = pt.type_decoder(F, ep, kind)
        for code, variant in dec.items():
            if code == "otherwise":
                ok = variant in (None,) or (variant is not None and rows.get(0, {}).get("variant") == variant) or True
                continue
            exp_w = pt.LMOTS_TYPE_W.get(code)
            got = None
            ev0 = pt.eval_rows(F, an, f, order, rows, {})
            for disc, r in rows.items():
                if r["variant"] == variant and r["call"] and ev0.get(disc):
                    iv = ev0[disc].get("winternitz")
                    got = iv[0] if iv and iv[0] == iv[1] else None
            chk.ob("T1.decoder-agrees", "%s:%s%s" % (kind, code, tag), exp_w is not None and got == exp_w,
                   "type code %s decodes (%s) to %s with w=%s; RFC says w=%s" % (code, df.path, variant, got, exp_w), where=df.loc())
            chk.count("decoder_codes", 1)
        extra = [c for c in dec if c != "otherwise" and c not in pt.LMOTS_TYPE_W]
        chk.ob("T1.decoder-no-extra-codes", kind + tag, not extra, "decoder %s accepts unknown type codes %s" % (df.path, extra), where=df.loc())
    return table


def reach_rules(chk, F, A, an, table, tag):
    """T5 / T6 - interval analysis per (hash, row):
    T5  the digit functions, analysed with i in 0..p-1 and the row's w, (a) contain no narrowing conversion that can
        lose value, and (b) reach the byte of the last digit: the byte index has an upper bound of at least (p*w-1)/8 (interval
        analysis over-approximates, so a smaller bound *proves* that checksum bytes are never read by any digit)
    T6  the checksum-appending routine, analysed with an n-byte digest, writes checksum-dependent bytes exactly at
        positions n and n+1 of the buffer whose digits are signed (growth positions of a vector / start of a slice write)
    """
    from .paramtable import bind_assoc
    coef, helper = find_digit_fns(F)
    tr = pt.hash_trait(F)
    ck = [f for f in F.fns.values() if f.j.get("impl") and f.j["impl"]["self_ty"].get("path", "").endswith("LmotsParameter")
          and [t["s"] for t in f.j.get("inputs", [])][1:] == ["&[u8]"] and f.j.get("output", {}).get("s") == "u16"]
    apps = [f for f in F.fns.values() if ck and any(ck[0].path in F.call_targets(f, t) for _, t in f.calls())]
    ck_local = None
    if not ck:
        # checksum computed inside the appender: the local holding `sum << ls` plays the role of the checksum routine's result
        for f in F.fns.values():
            if f.j.get("impl") and f.j["impl"]["self_ty"].get("path", "").endswith("LmotsParameter") and any(coef.path in F.call_targets(f, t) for _, t in f.calls()):
                fx = expr.Expr(F, f)
                for b_, i_, s_ in f.iter_stmts():
                    if s_["k"] == "assign" and s_["rv"]["k"] == "binop" and s_["rv"]["op"] == "Shl" and not f.blocks[b_]["cleanup"] and not s_["place"]["proj"]:
                        e_ = fx.of_rvalue(s_["rv"], 0)
                        if e_[0] == "bin" and expr.has_field(e_[3], "checksum_left_shift"):
                            apps, ck_local = [f], s_["place"]["local"]
    seen_rows = set()
    for (name, n, t), (w, p, ls) in sorted(table.items()):
        if (n, w, p) in seen_rows:
            continue
        seen_rows.add((n, w, p))
        key = "n=%d:w=%d%s" % (n, w, tag)
        for df in [coef] + ([helper] if helper is not None else []):
            with bind_assoc(an, {tr + "::OUTPUT_SIZE": (n, n)}):
                an.obs, an.lossy_obs = {}, {}
                if df is coef:
                    an.call_local(df.path, [None, (0, p - 1), (w, w)], {(1, ("#len",)): (n + 2, n + 2)})
                else:
                    r = an.call_local(df.path, [(0, p - 1), (w, w)])
                lossy = {k: v for k, v in an.lossy_obs.items() if k[0] in (coef.path, helper.path if helper else "")}
                chk.ob("T5.digit-position-computed-without-loss", "%s:%s" % (df.key, key), not lossy,
                       "for n=%d, w=%d the digit function %s converts a value that does not fit (%s) while locating digit i in 0..%d: digits with a large index "
                       "would be read from the wrong byte, so part of the checksum is never signed" % (n, w, df.path, ["%s %s -> %s" % (k[1], v[0], k[2]) for k, v in lossy.items()][:2], p - 1),
                       where=df.loc())
                if df is coef:
                    bounds = [v for k, vs in an.obs.items() if k[0] == "bounds" and k[1] in (coef.path, helper.path if helper else "") for v in vs]
                    hi = max((b[0][1] for b in bounds if b[0] is not None), default=None)
                else:
                    iv = r.get(("0",))
                    hi = iv[1] if iv else None
                last_byte = (p * w - 1) // 8  # byte holding the last of the p digits (RFC 8554 coef)
                chk.ob("T5.digits-reach-the-last-checksum-byte", "%s:%s" % (df.key, key), hi is not None and hi >= last_byte,
                       "for n=%d, w=%d, p=%d the byte index computed by %s is at most %s for every digit i < p: byte %d (holding the last checksum digits) is never read, "
                       "so checksum bits are not signed and a forged digest can dominate the signed one" % (n, w, p, df.path, hi, last_byte), where=df.loc())
                chk.count("digit_reach_rows", 1)
    # T5 (checksum side): for every (hash size, parameter row) the routine that sums the digits - including closures it hands to
    # iterator adaptors - performs no conversion that loses value (a digit count of 256 stored in a u8 makes the checksum constant)
    from . import pf as _pf
    target = ck[0] if ck else (apps[0] if len(apps) == 1 else None)
    if target is not None:
        nrows = 0
        for binding in _pf.assoc_partitions(F, an, rows=True):
            nkey = binding.get(tr + "::OUTPUT_SIZE")
            if not nkey:
                continue
            with bind_assoc(an, binding):
                an.lossy_obs, an.memo, an.ctx_count = {}, {}, {}
                an.call_local(target.path, [None] * target.arg_count, {(2, ("#len",)): (nkey[0], nkey[0])})
                lossy = {k: v for k, v in an.lossy_obs.items() if k[0] == target.path or k[0].startswith(target.path + "::{closure")}
                wv = [v for k, v in binding.items() if isinstance(k, tuple) and k[1] == "winternitz"]
                nrows += 1
                chk.ob("T5.checksum-computed-without-loss", "n=%d:w=%s%s" % (nkey[0], wv[0][0] if wv else "?", tag), not lossy,
                       "for n=%d, w=%s the checksum computation in %s converts a value that does not fit (%s): the digit count or the sum is truncated, so the "
                       "checksum no longer covers every digit" % (nkey[0], wv[0][0] if wv else "?", target.path, ["%s %s -> %s" % (k[1], v[0], k[2]) for k, v in lossy.items()][:2]),
                       where=target.loc())
        chk.count("checksum_rows_checked", nrows)
    # T6 per hash size
    if len(apps) != 1:
        chk.ob("T6.appender-found", "appender" + tag, False, "checksum-appending routine not unique: %s" % [f.path for f in apps])
        return
    ap = apps[0]
    ckp = ck[0].path if ck else None
    sl = core.Slice(ap)

    def from_checksum(d):
        if ckp is not None:
            return any(F.call_targets(ap, ct) == [ckp] for cb, ct in d["calls"])
        return ck_local in d["locals"]
    for n in sorted({k[1] for k in table}):
        with bind_assoc(an, {tr + "::OUTPUT_SIZE": (n, n)}):
            an.obs = {}
            an.memo = {}
            an.call_local(ap.path, [None, None], {(2, ("#len",)): (n, n)})
            writes = []  # (lo, hi) positions of checksum-dependent bytes
            unknown = []
            for b, t in ap.calls():
                if ap.blocks[b]["cleanup"]:
                    continue
                cp = core.strip_generics(core.callee_path(t) or "")
                last = cp.rsplit("::", 1)[-1]
                if last in ("extend_from_slice", "push") and "ArrayVec" in cp:
                    d = core.operand_deps(ap, t["args"][1])
                    if from_checksum(d):
                        for cur, add in an.obs.get(("grow", ap.path, b), []):
                            if cur is None or add is None or cur[0] != cur[1] or add[0] != add[1]:
                                unknown.append("growth at unknown position %s+%s" % (cur, add))
                            else:
                                writes.append((cur[0], cur[0] + add[0]))
                elif last in ("copy_from_slice", "clone_from_slice"):
                    d = core.operand_deps(ap, t["args"][1])
                    if from_checksum(d):
                        # destination: result of an index_mut with a range
                        o = flow.origin(ap, t["args"][0])
                        got = False
                        if o[0] == "call":
                            for kind, s_, e, base in an.obs.get(("range", ap.path, o[1]), []):
                                src_len = an.len_of_operand(ap, None, t["args"][1]) if False else None
                                if s_ is not None and s_[0] == s_[1]:
                                    end = e[0] if (e is not None and e[0] == e[1]) else (base[0] if base and base[0] == base[1] else None)
                                    if kind == "from" and base is not None and base[0] == base[1]:
                                        end = base[0]
                                    if end is not None:
                                        writes.append((s_[0], end))
                                        got = True
                        if not got:
                            unknown.append("slice write at an unevaluated position")
            cover = sorted(writes)
            okc = not unknown and bool(cover) and min(a for a, b in cover) == n and max(b for a, b in cover) == n + 2
            chk.ob("T6.checksum-stored-right-after-the-digest", "n=%d%s" % (n, tag), okc,
                   "for an n=%d byte digest %s stores the checksum bytes at buffer positions %s%s instead of %d..%d: the digits taken after the digest "
                   "would not be the checksum's (all checksum digits constant => no domination protection)" % (n, ap.path, cover, (" (%s)" % unknown[0]) if unknown else "", n, n + 2),
                   where=ap.loc())
            chk.count("checksum_positions_checked", 1)


def dep_exprs(ex, e):
    return expr.closure_over_vars(ex, e)


def role_rules(chk, F, A, tag):
    coef, helper = find_digit_fns(F)
    digit_fns = {coef.path} | ({helper.path} if helper else set())
    def calls_digit(f):
        """f, or a closure defined in f, calls the digit function"""
        return any(coef.path in F.call_targets(g, t) for g in [f] + [F.fns[c] for c in F._closures.get(f.path, []) if c in F.fns] for _, t in g.calls())
    ck = [f for f in F.fns.values() if f.j.get("impl") and f.j["impl"]["self_ty"].get("path", "").endswith("LmotsParameter")
          and [t["s"] for t in f.j.get("inputs", [])][1:] == ["&[u8]"] and f.j.get("output", {}).get("s") == "u16"
          and calls_digit(f)]
    inlined = None
    if not ck:
        # the checksum computed inside the appending routine itself (helper inlined into its only caller): a method of the
        # parameter type that calls the digit function and shifts a sum by the parameter's left-shift value
        for f in F.fns.values():
            if not (f.j.get("impl") and f.j["impl"]["self_ty"].get("path", "").endswith("LmotsParameter")):
                continue
            if not any(coef.path in F.call_targets(f, t) for _, t in f.calls()):
                continue
            fx = expr.Expr(F, f)
            for b_, i_, s_ in f.iter_stmts():
                if s_["k"] == "assign" and s_["rv"]["k"] == "binop" and s_["rv"]["op"] == "Shl" and not f.blocks[b_]["cleanup"]:
                    e_ = fx.of_rvalue(s_["rv"], 0)
                    if e_[0] == "bin" and expr.has_field(e_[3], "checksum_left_shift"):
                        inlined = (f, e_)
        if inlined is not None:
            ck = [inlined[0]]
    if len(ck) != 1:
        # is there a routine of that signature that computes its digits some other way?
        sig = [f for f in F.fns.values() if f.j.get("impl") and f.j["impl"]["self_ty"].get("path", "").endswith("LmotsParameter")
               and [t["s"] for t in f.j.get("inputs", [])][1:] == ["&[u8]"] and f.j.get("output", {}).get("s") == "u16"]
        if len(sig) == 1 and not ck:
            chk.ob("T3.checksum-digits-come-from-the-shared-digit-function", sig[0].key + tag, False,
                   "%s does not take the digits it sums from %s (the routine signer and verifier use for the chain positions): a checksum over differently "
                   "extracted digits does not protect the signed digits" % (sig[0].path, coef.path), where=sig[0].loc())
            return
        raise AnchorLost("checksum routine (fn(&LmotsParameter, &[u8]) -> u16 calling the digit function) not unique: %s" % [f.path for f in ck])
    ck = ck[0]
    ex = expr.Expr(F, ck)
    ret = ex.of_local(0, 0) if inlined is None else inlined[1]
    allx = dep_exprs(ex, ret)
    # the summation may live in a closure handed to fold / map: its body is read closure-transparently (captured variables are
    # the routine's own, the item parameter is `next(<the iterator>)`)
    for cpath in F._closures.get(ck.path, []):
        if cpath in F.fns:
            cx = expr.Expr(F, F.fns[cpath], closure_env=True)
            allx = list(allx) + list(dep_exprs(cx, cx.of_local(0, 0)))
    # shifted by ls
    shl = [x for e in allx for x in expr.walk(e) if x[0] == "bin" and x[1] in ("Shl", "Mul") and expr.has_field(x[3], "checksum_left_shift")]
    chk.ob("T3.checksum-shifted-by-ls", ck.key + tag, bool(shl) and ret[0] == "bin" and expr.has_field(ret, "checksum_left_shift"),
           "the checksum routine's result is not (sum << parameter.checksum_left_shift): %s" % (ret,), where=ck.loc())
    # digit subtracted from a value depending on w only
    subs = [x for e in allx for x in expr.walk(e) if x[0] == "bin" and x[1] == "Sub" and expr.has_call(x[3], coef.path.split("::")[-1])]
    good = [x for x in subs if not expr.has_call(x[2], "coef") and expr.has_field(x[2], "winternitz")]
    chk.ob("T3.checksum-subtracts-digit-from-max", ck.key + tag, len(good) >= 1,
           "no term (f(w) - digit) found in the checksum accumulation; digit-dependent subtractions: %s" % subs[:2], where=ck.loc())
    # digit call arguments: (byte string parameter, loop variable, w)
    calls = [x for e in allx for x in expr.walk(e) if x[0] == "call" and x[1] == core.strip_generics(coef.path)]
    ok_args = bool(calls) and all(c[2][0] == ("arg", 2) and expr.has_field(c[2][2], "winternitz") and expr.has_call(c[2][1], "next") for c in calls)
    chk.ob("T3.checksum-digit-arguments", ck.key + tag, ok_args,
           "digit function in the checksum is not applied to (byte_string, loop index, parameter.winternitz): %s" % calls[:1], where=ck.loc())
    # loop bound u = 8n/w
    bound_ok = False
    for c in calls:
        for x in expr.walk(c[2][1]):
            if x[0] == "adt" and x[1] == "core::ops::range::Range":
                end = x[3][1]
                start = x[3][0]
                if start == ("const", 0) and expr.has_field(end, "winternitz") and (expr.has_assoc(end, "OUTPUT_SIZE") or expr.has_call(end, "output_size")) and not expr.has_field(end, "hash_chain_count"):
                    bound_ok = True
    chk.ob("T3.checksum-loop-over-u-digits", ck.key + tag, bound_ok,
           "the checksum loop is not over 0..(8n/w) (bound must depend on the hash size and w, not on p)", where=ck.loc())

    # append_checksum: the 2 appended bytes are the high and low byte of the checksum routine's result
    app = [f for f in F.fns.values() if any(ck.path in F.call_targets(f, t) for _, t in f.calls())] if inlined is None else [ck]
    chk.ob("T3.checksum-single-consumer", ck.key + tag, len(app) == 1, "checksum routine is called from %s" % [f.path for f in app])
    appenders = {f.path for f in app}

    # chain iteration sites
    tr = pt.hash_trait(F)
    chain = [p for p, t in ((i["path"], i) for i in F.traits[tr]["items"]) if t["kind"] == "Fn" and p in F.fns
             and len(F.fns[p].j.get("inputs", [])) == 6]
    if len(chain) != 1:
        raise AnchorLost("chain iteration method (6-parameter default method of %s) not unique: %s" % (tr, chain))
    chain = chain[0]
    roles = {}
    nsites = 0
    for f in F.fns.values():
        for b, t in f.calls():
            c = core.callee_of(t)
            if not c or core.strip_generics(c["path"]) != core.strip_generics(chain):
                continue
            if core.strip_generics(f.path) == core.strip_generics(chain):
                continue
            nsites += 1
            ex = expr.Expr(F, f, closure_env=True)
            frm = ex.of_operand(t["args"][4])
            to = ex.of_operand(t["args"][5])
            cid = ex.of_operand(t["args"][2])

            def is_digit(e):
                cs = [x for x in expr.walk(e) if x[0] == "call" and x[1] in {core.strip_generics(p) for p in digit_fns}]
                return cs

            def is_max(e):
                return expr.has_field(e, "winternitz") and not is_digit(e)

            fd, td = is_digit(frm), is_digit(to)
            role = None
            if frm == ("const", 0) and td:
                role, dcalls = "sign", td
            elif fd and is_max(to):
                role, dcalls = "verify", fd
            elif frm == ("const", 0) and is_max(to):
                role, dcalls = "keygen", []
            chk.ob("T3.chain-range-role", "%s@%s%s" % (f.key, nsites, tag), role is not None,
                   "chain iteration in %s runs from %s to %s: neither 0..digit (sign), digit..2^w-1 (verify) nor 0..2^w-1 (keygen)" % (f.path, frm, to),
                   where=f.loc(b))
            if role is None:
                continue
            roles.setdefault(role, []).append(f.path)
            for dc in dcalls:
                a_bytes, a_i, a_w = dc[2]
                src_ok = from_appender(F, f, ex, a_bytes, appenders)
                chk.ob("T3.digit-of-digest-with-checksum", "%s%s" % (f.key, tag), src_ok,
                       "%s takes digits of %s, which is not the output of the checksum-appending routine" % (f.path, a_bytes), where=f.loc(b))
                chk.ob("T3.digit-index-is-chain-index", "%s%s" % (f.key, tag), a_i == cid or strip_casts(a_i) == strip_casts(cid),
                       "%s: digit index %s differs from the chain index %s" % (f.path, a_i, cid), where=f.loc(b))
                chk.ob("T3.digit-width-is-w", "%s%s" % (f.key, tag), expr.has_field(a_w, "winternitz"),
                       "%s: digit width %s is not the parameter's w" % (f.path, a_w), where=f.loc(b))
                # loop over 0..p
                rng = [x for x in expr.walk(a_i) if x[0] == "adt" and x[1] == "core::ops::range::Range"]
                chk.ob("T3.loop-over-all-p-chains", "%s%s" % (f.key, tag),
                       bool(rng) and rng[0][3][0] == ("const", 0) and expr.has_field(rng[0][3][1], "hash_chain_count"),
                       "%s: the chain loop is not 0..parameter.hash_chain_count: %s" % (f.path, rng[:1]), where=f.loc(b))
    chk.count("chain_iteration_sites", nsites)
    for r in ("sign", "verify", "keygen"):
        chk.ob("T3.role-present", r + tag, r in roles, "no chain-iteration site with role %s found (roles: %s)" % (r, {k: v for k, v in roles.items()}))

    # T4 siblings
    if helper is not None:
        e1 = expr.Expr(F, coef).of_local(0, 0)
        e2 = expr.Expr(F, helper).of_local(0, 0)
        if mentions_call(e1, helper.path):
            chk.ob("T4.siblings-agree", "delegates" + tag, True, "")
        else:
            m = {("arg", 1): ("arg", 2), ("arg", 2): ("arg", 3)}
            e2r = rename(e2, m)
            idx = sh = mk = None
            # coef = ((bytes[IDX] as u64) >> SH) & MASK
            ok = False
            detail = ""
            try:
                assert e1[0] == "bin" and e1[1] == "BitAnd"
                mk = e1[3]
                shr = e1[2]
                assert shr[0] == "bin" and shr[1] == "Shr"
                sh = shr[3]
                ld = strip_casts(shr[2])
                assert ld[0] == "index" and ld[1] == ("arg", 1)
                idx = ld[2]
                assert e2r[0] == "tuple" and len(e2r[1]) == 3
                ok = (idx, sh, mk) == tuple(e2r[1])
                detail = "coef: idx=%s shift=%s mask=%s ; helper: %s" % (idx, sh, mk, e2r[1])
            except (AssertionError, IndexError):
                detail = "unrecognised shapes: %s / %s" % (e1, e2r)
            chk.ob("T4.siblings-agree", core.strip_generics(helper.path) + tag, ok,
                   "the two digit functions disagree (fast-verify would evaluate different digits than the signer): " + detail, where=helper.loc())
    return roles


def from_appender(F, f, ex, e, appenders, depth=0):
    """Does the byte string `e` (in function f) come from the checksum-appending routine, directly or
    through a parameter at every call site of f (interprocedural step, bounded depth)?"""
    names = {core.strip_generics(p) for p in appenders}
    for x in dep_exprs(ex, e):
        if any(y[0] == "call" and y[1] in names for y in expr.walk(x)):
            return True
    # ... or is the value returned by a local function whose every return value comes from the appender
    for x in dep_exprs(ex, e):
        for y in expr.walk(x):
            if y[0] == "call" and depth < 3:
                tp = [p for p in F.fns if core.strip_generics(p) == y[1]]
                if len(tp) == 1 and tp[0] != f.path:
                    g = F.fns[tp[0]]
                    gx = expr.Expr(F, g)
                    if from_appender(F, g, gx, gx.of_local(0, 0), appenders, depth + 1):
                        return True
    root = strip_casts(e)
    if root[0] == "arg" and depth < 3:
        n = root[1]
        if getattr(ex, "closure_env", False) and getattr(ex, "_parent", None) is not None:
            f = ex._parent.f   # in a closure-transparent expression a parameter is the enclosing function's
        callers = [(c, b) for c, b, k in F.callers_of(f.path) if k == "call"]
        if not callers:
            return False
        for c, b in callers:
            g = F.fns[c]
            t = g.blocks[b]["term"]
            if n - 1 >= len(t["args"]):
                return False
            gx = expr.Expr(F, g)
            if not from_appender(F, g, gx, gx.of_operand(t["args"][n - 1]), appenders, depth + 1):
                return False
        return True
    return False


def mentions_call(e, path):
    return any(x[0] == "call" and x[1] == core.strip_generics(path) for x in expr.walk(e))


def strip_casts(e):
    while isinstance(e, tuple) and e and e[0] == "cast":
        e = e[1]
    return e


def rename(e, m):
    if not isinstance(e, tuple):
        return e
    if e in m:
        return m[e]
    return tuple(rename(x, m) if isinstance(x, tuple) else x for x in e)


def run(chk, ctx):
    chk.explanation = (
        "The (type,w,p,ls) table is extracted from the parameter constructor's call sites (arguments evaluated by interval analysis "
        "with each hash's output size as a singleton) and compared with RFC 8554 Appendix B recomputed by the checker; the checksum "
        "coverage inequality is evaluated on the source's numbers; signer, verifier and key generation use the chain-iteration routine "
        "in the roles 0..digit / digit..2^w-1 / 0..2^w-1 with digits taken by the one digit function from the checksum-appended digest; "
        "the two digit functions have identical index/shift/mask expression DAGs."
    )
    chk.not_decided = ("that the digit function computes the RFC base-2^w digit for every (i, w, byte) - a numeric identity; "
                       "domination-freeness follows from it plus T2 by a paper argument, not by this tool")
    chk.trusted_base = ["rustc MIR construction and const evaluation of literals", "RFC 8554 Appendix B as transcribed in rules/paramtable.py"]
    configs = ["default"] if ctx.tier == "quick" else ["default", "fast_verify", "std", "verbose"]
    for name in configs:
        F = ctx.facts(name)
        A = Api(F)
        an = ia.Analyzer(F)
        chk.configs.append(name)
        tag = "" if name == "default" else "[%s]" % name
        table = table_rules(chk, F, A, an, tag)
        role_rules(chk, F, A, tag)
        reach_rules(chk, F, A, ia.Analyzer(F), table, tag)
    chk.floor("lmots_rows", 24)
    chk.floor("hash_impls", 6)
    chk.floor("chain_iteration_sites", 3)
    chk.floor("decoder_codes", 8)
    chk.floor("digit_reach_rows", 12)
    chk.floor("checksum_positions_checked", 3)
