"""Expression DAG reconstruction from MIR (for role / data-dependence rules and sibling
comparison).  Expressions are nested tuples:
  ("const", value|str) ("arg", n) ("var", local) ("bin", op, a, b) ("un", op, a)
  ("cast", a, ty) ("call", path, (args...)) ("field", base, name) ("index", base, idx)
  ("tuple", (elems...)) ("assoc", path) ("deep",)
"""
from . import core, flow

TRANSPARENT_CALLS = flow.VIEW_CALLS


class Expr:
    def __init__(self, F, f, inline_getters=True, max_depth=200, closure_env=False):
        self.F, self.f = F, f
        self.inline_getters = inline_getters
        self.max_depth = max_depth
        # closure_env: inside a closure, a captured variable `(*_1).k` is replaced by the enclosing function's expression for
        # what was captured, and the item parameter of a closure handed to an iterator adaptor by `next(<that iterator>)` - the
        # body then reads like the body of the equivalent `for` loop
        self.closure_env = closure_env and "{closure" in f.path
        self._parent = None
        self._cap = None
        self._item_src = None
        if self.closure_env:
            parent = F.fns.get(f.j.get("parent_fn")) or F.fns.get(f.path.rsplit("::{closure", 1)[0])
            if parent is not None:
                self._parent = Expr(F, parent, inline_getters, max_depth, closure_env=True)
                for b, i, st in parent.iter_stmts():
                    if st["k"] == "assign" and st["rv"]["k"] == "aggregate" and st["rv"].get("agg") == "closure" and st["rv"].get("path") == f.path:
                        self._cap = st["rv"]["ops"]
                for b, t in parent.calls():
                    if parent.blocks[b]["cleanup"] or len(t["args"]) < 2:
                        continue
                    for a in t["args"][1:]:
                        pl = core.op_place(a)
                        if pl is not None and not pl["proj"] and parent.locals[pl["local"]]["ty"].get("path") == f.path:
                            self._item_src = t["args"][0]

    def of_operand(self, o, depth=0):
        if depth > self.max_depth:
            return ("deep",)
        if o["k"] == "const":
            cv = core.op_const_val(o)
            if cv is not None:
                return ("const", cv)
            u = o.get("unevaluated")
            if u:
                return ("assoc", core.strip_generics(u["path"]))
            if "bytes" in o:
                return ("const", tuple(o["bytes"]))
            return ("const", o.get("s"))
        p = core.op_place(o)
        if p is None:
            return ("deep",)
        return self.of_place(p, depth)

    def of_place(self, p, depth):
        base = self.of_local(p["local"], depth + 1)
        for e in p["proj"]:
            k = e["k"]
            if k == "deref":
                continue
            if k == "field":
                nm = e.get("name", str(e["i"]))
                if base == ("closure-env",) and self._cap is not None and str(nm).isdigit() and int(nm) < len(self._cap):
                    base = self._parent.of_operand(self._cap[int(nm)], depth + 1)
                    continue
                # component of a checked-arithmetic pair / tuple
                if base[0] == "checked" and nm in ("0", 0):
                    base = base[1]
                elif base[0] == "checked":
                    base = ("overflowflag", base[1])
                elif base[0] == "tuple" and str(nm).isdigit() and int(nm) < len(base[1]):
                    base = base[1][int(nm)]
                else:
                    base = ("field", base, nm)
            elif k == "index":
                base = ("index", base, self.of_local(e["local"], depth + 1))
            elif k == "constidx":
                base = ("index", base, ("const", e["offset"]))
            elif k == "downcast":
                base = ("variant", base, e.get("variant"))
            elif k == "subslice":
                base = ("subslice", base, e["from"], e["to"], e["from_end"])
        return base

    def of_local(self, l, depth):
        f = self.f
        if depth > self.max_depth:
            return ("deep",)
        ds = [d for d in f.defs_of(l) if not f.blocks[d[0]]["cleanup"]]
        if not ds:
            if 1 <= l <= f.arg_count:
                if self.closure_env and self._parent is not None:
                    if l == 1 and self._cap is not None:
                        return ("closure-env",)
                    if l == f.arg_count and l >= 2 and self._item_src is not None:
                        return ("field", ("variant", ("call", "closure-item::next", (self._parent.of_operand(self._item_src, depth + 1),)), "Some"), "0")
                return ("arg", l)
            return ("var", l)
        if len(ds) != 1:
            return ("var", l)
        b, i, d = ds[0]
        if i == "term":
            return self.of_call(d, depth)
        if d["k"] != "assign" or d["place"]["proj"]:
            return ("var", l)
        return self.of_rvalue(d["rv"], depth)

    def of_rvalue(self, rv, depth):
        k = rv["k"]
        if k == "use":
            return self.of_operand(rv["op"], depth + 1)
        if k == "cast":
            return ("cast", self.of_operand(rv["op"], depth + 1), rv["ty"]["s"])
        if k == "binop":
            op = rv["op"]
            a = self.of_operand(rv["a"], depth + 1)
            b = self.of_operand(rv["b"], depth + 1)
            if op.endswith("WithOverflow"):
                return ("checked", ("bin", op[: -len("WithOverflow")], a, b))
            return ("bin", op.replace("Unchecked", ""), a, b)
        if k == "unop":
            return ("un", rv["op"], self.of_operand(rv["a"], depth + 1))
        if k in ("ref", "rawptr"):
            return self.of_place(rv["place"], depth + 1)
        if k == "aggregate":
            if rv["agg"] == "tuple":
                return ("tuple", tuple(self.of_operand(o, depth + 1) for o in rv["ops"]))
            if rv["agg"] == "adt":
                return ("adt", rv["path"], rv["variant"], tuple(self.of_operand(o, depth + 1) for o in rv["ops"]))
            if rv["agg"] == "array":
                return ("array", tuple(self.of_operand(o, depth + 1) for o in rv["ops"]))
        if k == "discr":
            return ("discr", self.of_place(rv["place"], depth + 1))
        if k == "repeat":
            return ("repeat", self.of_operand(rv["op"], depth + 1), rv.get("n"))
        return ("deep",)

    def of_call(self, t, depth):
        c = core.callee_of(t)
        if c is None:
            return ("call", "?", ())
        decl = core.strip_generics(c["path"])
        r = c.get("resolved")
        res = core.strip_generics(r["path"]) if r and r["kind"] == "item" else decl
        args = tuple(self.of_operand(a, depth + 1) for a in t["args"])
        if decl in TRANSPARENT_CALLS and args:
            return args[0]
        if self.inline_getters:
            tps = self.F.call_targets(self.f, t)
            if len(tps) == 1:
                g = self.F.fns[tps[0]]
                fld = trivial_getter(g)
                if fld is not None and args:
                    return ("field", args[0], fld)
        return ("call", res, args)

    def defs_exprs(self, l):
        """Expressions of every (non-cleanup) definition of a multi-definition local."""
        out = []
        for b, i, d in self.f.defs_of(l):
            if self.f.blocks[b]["cleanup"]:
                continue
            if i == "term":
                out.append(self.of_call(d, 0))
            elif d["k"] == "assign" and not d["place"]["proj"]:
                out.append(self.of_rvalue(d["rv"], 0))
        return out


def trivial_getter(g):
    """Field name if g is `fn(&self) -> T { self.field }` (one block, returns a copy of a field)."""
    if g.arg_count != 1:
        return None
    blocks = [b for b in g.blocks if not b["cleanup"]]
    if len(blocks) != 1 or blocks[0]["term"]["k"] != "return":
        return None
    stmts = [s for s in blocks[0]["stmts"] if s["k"] == "assign"]
    if len(stmts) != 1:
        return None
    s = stmts[0]
    if s["place"]["local"] != 0 or s["place"]["proj"]:
        return None
    rv = s["rv"]
    if rv["k"] == "use":
        p = core.op_place(rv["op"])
    elif rv["k"] == "ref":
        p = rv["place"]
    else:
        return None
    if p is None or p["local"] != 1:
        return None
    fl = [e for e in p["proj"] if e["k"] == "field"]
    if len(fl) == 1 and all(e["k"] in ("deref", "field") for e in p["proj"]):
        return fl[0].get("name")
    return None


def walk(e):
    """Yield every sub-expression."""
    stack = [e]
    while stack:
        x = stack.pop()
        if not isinstance(x, tuple):
            continue
        yield x
        for y in x[1:]:
            if isinstance(y, tuple):
                if y and isinstance(y[0], str):
                    stack.append(y)
                else:
                    stack.extend(z for z in y if isinstance(z, tuple))


def mentions(e, pred):
    return any(pred(x) for x in walk(e))


def has_field(e, name):
    return mentions(e, lambda x: x[0] == "field" and x[2] == name)


def has_call(e, suffix):
    return mentions(e, lambda x: x[0] == "call" and x[1].endswith(suffix))


def has_assoc(e, suffix):
    return mentions(e, lambda x: x[0] == "assoc" and x[1].endswith(suffix))


def closure_over_vars(ex, e, seen=None, limit=12):
    """Expand ("var", l) nodes by the union of their definitions (for accumulators / loop variables):
    returns the list of all expressions reachable (flattened), for dependence questions."""
    seen = seen if seen is not None else set()
    out = [e]
    for x in list(walk(e)):
        if x[0] == "var" and x[1] not in seen and len(seen) < limit:
            seen.add(x[1])
            for d in ex.defs_exprs(x[1]):
                out.extend(closure_over_vars(ex, d, seen, limit))
    return out
