"""Result-flow idioms (RES), value-origin tracing and edge-dominance on one MIR body."""
from collections import deque

from . import core

RESULT = "core::result::Result"
OPTION = "core::option::Option"
CONTROL_FLOW = "core::ops::control_flow::ControlFlow"

# calls through which a value is only *viewed* (same bytes, borrowed or re-typed)
VIEW_CALLS = (
    "core::ops::deref::Deref::deref", "core::ops::deref::DerefMut::deref_mut",
    "tinyvec::arrayvec::ArrayVec::as_slice", "tinyvec::arrayvec::ArrayVec::as_mut_slice",
    "core::convert::AsRef::as_ref", "core::convert::AsMut::as_mut", "core::borrow::Borrow::borrow",
    "core::convert::Into::into", "core::convert::From::from", "core::clone::Clone::clone",
    "core::option::Option::as_ref", "core::option::Option::as_mut", "core::option::Option::as_deref",
)
# Result -> Result adaptors that keep Ok-ness / Err-ness
RESULT_PRESERVING = (
    "core::result::Result::map_err", "core::result::Result::map", "core::result::Result::as_ref",
    "core::result::Result::as_mut", "core::result::Result::inspect", "core::result::Result::inspect_err",
    "core::option::Option::ok_or", "core::option::Option::ok_or_else", "core::option::Option::map",
    "core::result::Result::ok", "core::result::Result::and_then",
)


def decl_path(term):
    c = core.callee_of(term)
    if c is None:
        return None
    return core.strip_generics(c["path"])


def uses_of_local(f, l):
    """All (bb, idx|'term', kind, item) sites where bare local l (or a projection of it) is read."""
    out = []

    def op_reads(o):
        p = core.op_place(o)
        if p is None:
            return False
        if p["local"] == l:
            return True
        return any(e["k"] == "index" and e["local"] == l for e in p["proj"])

    def place_reads(p):
        return p["local"] == l or any(e["k"] == "index" and e["local"] == l for e in p["proj"])

    for b, blk in enumerate(f.blocks):
        for i, s in enumerate(blk["stmts"]):
            if s["k"] != "assign":
                continue
            rv = s["rv"]
            k = rv["k"]
            hit = False
            if k in ("use", "repeat", "cast"):
                hit = op_reads(rv["op"])
            elif k in ("ref", "rawptr", "discr"):
                hit = place_reads(rv["place"])
            elif k == "binop":
                hit = op_reads(rv["a"]) or op_reads(rv["b"])
            elif k == "unop":
                hit = op_reads(rv["a"])
            elif k == "aggregate":
                hit = any(op_reads(o) for o in rv["ops"])
            # writes through a projection of l also "use" l
            if s["place"]["proj"] and s["place"]["local"] == l:
                hit = True
            if hit:
                out.append((b, i, "stmt", s))
        t = blk["term"]
        k = t["k"]
        if k in ("call", "tailcall"):
            if any(op_reads(a) for a in t["args"]) or op_reads(t["func"]):
                out.append((b, "term", "call", t))
        elif k == "switch":
            if op_reads(t["discr"]):
                out.append((b, "term", "switch", t))
        elif k == "assert":
            if op_reads(t["cond"]):
                out.append((b, "term", "assert", t))
        elif k == "drop":
            if place_reads(t["place"]):
                out.append((b, "term", "drop", t))
    return out


def edge_dominates(f, src, dst, target):
    """Does every path from entry to `target` traverse the CFG edge src->dst?"""
    seen = {0}
    dq = deque([0])
    if target == 0:
        return False
    while dq:
        b = dq.popleft()
        for s in f.succ[b]:
            if b == src and s == dst:
                continue
            if s not in seen:
                if s == target:
                    return False
                seen.add(s)
                dq.append(s)
    return True


def reach_from(f, start, stop_at=()):
    seen = set()
    dq = deque([start])
    seen.add(start)
    stop = set(stop_at)
    while dq:
        b = dq.popleft()
        if b in stop:
            continue
        for s in f.succ[b]:
            if s not in seen:
                seen.add(s)
                dq.append(s)
    return seen


class ResCheck:
    """Where the Ok/Err-ness of a fallible value is tested."""

    def __init__(self, block, ok_targets, err_targets, idiom):
        self.block = block
        self.ok_targets = ok_targets
        self.err_targets = err_targets
        self.idiom = idiom


def result_checks(f, local, start_block=None, _seen=None, polarity=True):
    """Follow a Result/Option value held in `local` through the enumerated idioms until its
    Ok/Some-ness decides a SwitchInt.  Returns a list of ResCheck (empty = not visibly checked).

    Recognised: `?` (map_err* -> Try::branch -> discriminant -> switch), `match` / `if let`
    (discriminant -> switch), is_ok / is_err / is_some / is_none (-> bool switch, through `!`),
    copies/moves of the value, Ok-ness preserving adaptors."""
    _seen = _seen if _seen is not None else set()
    if (local, polarity) in _seen:
        return []
    _seen.add((local, polarity))
    out = []
    lty = f.locals[local]["ty"]
    for b, i, kind, item in uses_of_local(f, local):
        if kind == "stmt":
            rv = item["rv"]
            dst = item["place"]
            if rv["k"] == "discr" and not rv["place"]["proj"]:
                # discriminant of Result: 0 = Ok, 1 = Err; Option: 0 = None, 1 = Some;
                # ControlFlow: 0 = Continue, 1 = Break
                adt = rv.get("adt")
                if not dst["proj"]:
                    for sw in switches_on(f, dst["local"]):
                        ok_vals = {RESULT: 0, OPTION: 1, CONTROL_FLOW: 0}.get(adt)
                        if ok_vals is None:
                            continue
                        t = sw[1]
                        okt, errt = [], []
                        for v, bb in t["targets"]:
                            (okt if v == ok_vals else errt).append(bb)
                        # `otherwise` is the unreachable block for 2-variant enums when both listed;
                        listed = {v for v, _ in t["targets"]}
                        if ok_vals not in listed:
                            okt.append(t["otherwise"])
                        elif len(listed) < 2:
                            errt.append(t["otherwise"])
                        if not polarity:
                            okt, errt = errt, okt
                        out.append(ResCheck(sw[0], okt, errt, "discriminant"))
            elif rv["k"] == "use" and core.op_local(rv["op"]) == local and not dst["proj"]:
                out.extend(result_checks(f, dst["local"], None, _seen, polarity))
            elif rv["k"] == "ref" and not rv["place"]["proj"] and not dst["proj"]:
                out.extend(result_checks(f, dst["local"], None, _seen, polarity))
            elif rv["k"] == "unop" and rv["op"] == "Not" and not dst["proj"]:
                out.extend(bool_checks(f, dst["local"], not polarity, _seen))
        elif kind == "call":
            d = decl_path(item)
            if d is None or item["dest"]["proj"]:
                continue
            dl = item["dest"]["local"]
            first = item["args"] and core.op_local(item["args"][0]) == local
            if not first:
                continue
            if d in RESULT_PRESERVING or d == "core::ops::try_trait::Try::branch":
                out.extend(result_checks(f, dl, None, _seen, polarity))
            elif d in ("core::result::Result::is_ok", "core::option::Option::is_some"):
                out.extend(bool_checks(f, dl, polarity, _seen))
            elif d in ("core::result::Result::is_err", "core::option::Option::is_none"):
                out.extend(bool_checks(f, dl, not polarity, _seen))
    return out


def switches_on(f, local):
    res = []
    for b, t in f.iter_terms():
        if t["k"] == "switch" and core.op_local(t["discr"]) == local:
            res.append((b, t))
    # through plain copies
    for b, i, s in f.iter_stmts():
        if s["k"] == "assign" and s["rv"]["k"] == "use" and core.op_local(s["rv"]["op"]) == local and not s["place"]["proj"]:
            res.extend(switches_on(f, s["place"]["local"]))
    return res


def bool_checks(f, local, true_is_ok, _seen):
    out = []
    for b, t in switches_on(f, local):
        tt, ft = [], []
        for v, bb in t["targets"]:
            (ft if v == 0 else tt).append(bb)
        listed = {v for v, _ in t["targets"]}
        if 0 in listed:
            tt.append(t["otherwise"])
        else:
            ft.append(t["otherwise"])
        if true_is_ok:
            out.append(ResCheck(b, tt, ft, "bool"))
        else:
            out.append(ResCheck(b, ft, tt, "bool"))
    for bb, i, s in f.iter_stmts():
        if s["k"] == "assign" and s["rv"]["k"] == "unop" and s["rv"]["op"] == "Not" and core.op_local(s["rv"]["a"]) == local and not s["place"]["proj"]:
            out.extend(bool_checks(f, s["place"]["local"], not true_is_ok, _seen))
    return out


def origin(f, operand, max_steps=60):
    """Trace where the bytes of an operand come from, through copies, (re)borrows, one-field
    tuple aggregates, unsizing casts and view calls.  Returns one of
       ("call", bb, term)   produced by a (non-view) call
       ("arg", n)           function parameter n
       ("local", l)         a local with several definitions or an unrecognised rvalue
       ("const", operand)
       ("field", local, name)   a field of a local (path not traced further)
    """
    steps = 0
    o = operand
    while steps < max_steps:
        steps += 1
        if o["k"] == "const":
            return ("const", o)
        p = core.op_place(o)
        if p is None:
            return ("local", None)
        l = p["local"]
        fields = [e for e in p["proj"] if e["k"] == "field"]
        if fields and not (f.locals[l]["ty"]["k"] == "tuple"):
            return ("field", l, fields[0].get("name"))
        whole = [d for d in f.defs_of(l) if not f.blocks[d[0]]["cleanup"] and
                 ((d[1] == "term" and not d[2]["dest"]["proj"]) or (d[1] != "term" and not d[2]["place"]["proj"]))]
        if 1 <= l <= f.arg_count and not whole:
            return ("arg", l)
        ds = whole
        if len(ds) != 1:
            return ("local", l)
        b, i, d = ds[0]
        if i == "term":
            dp = decl_path(d)
            if dp in VIEW_CALLS and d["args"]:
                o = d["args"][0]
                continue
            return ("call", b, d)
        if d["k"] != "assign":
            return ("local", l)
        rv = d["rv"]
        if rv["k"] in ("use", "cast"):
            o = rv["op"]
            continue
        if rv["k"] in ("ref", "rawptr"):
            pl = rv["place"]
            fl = [e for e in pl["proj"] if e["k"] == "field"]
            if fl:
                return ("field", pl["local"], fl[0].get("name"))
            o = {"k": "copy", "place": {"local": pl["local"], "proj": []}}
            continue
        if rv["k"] == "aggregate" and rv.get("agg") == "tuple" and len(rv["ops"]) == 1:
            o = rv["ops"][0]
            continue
        return ("local", l)
    return ("local", None)


def resolve_owner(f, operand, want_mut=False, depth=0):
    """For `&x` / `&mut x` / reborrow chains return the local x that is borrowed."""
    p = core.op_place(operand)
    if p is None or depth > 20:
        return None
    l = p["local"]
    ds = [d for d in f.defs_of(l) if not f.blocks[d[0]]["cleanup"]]
    if f.locals[l]["ty"].get("k") == "ref":
        # stores *through* a reference local (`(*r)[i] = x`) are not definitions of the reference
        ds = [d for d in ds if not (d[1] != "term" and d[2].get("place", {}).get("proj")) and not (d[1] == "term" and d[2]["dest"]["proj"])]
    if len(ds) == 1 and ds[0][1] == "term" and not p["proj"]:
        # a reference returned by a call that took a reference as first argument borrows from it
        # (index_mut, deref_mut, as_mut_slice, split_at_mut ...): follow to the owner
        t = ds[0][2]
        dty = f.locals[l]["ty"]
        if dty.get("k") == "ref" and t["args"] and (not want_mut or dty.get("mut")):
            a0 = core.op_place(t["args"][0])
            if a0 is not None and f.locals[a0["local"]]["ty"].get("k") == "ref":
                return resolve_owner(f, t["args"][0], want_mut, depth + 1)
    if len(ds) == 1 and ds[0][1] == "term" and len(p["proj"]) == 1 and p["proj"][0]["k"] == "field" and f.locals[l]["ty"].get("k") == "tuple":
        # one half of `split_at(_mut)(view, k)`: a view of the same owner
        t = ds[0][2]
        if core.strip_generics(core.callee_path(t) or "").rsplit("::", 1)[-1] in ("split_at", "split_at_mut", "split_at_checked", "split_at_mut_checked") and t["args"]:
            if not want_mut or "mut" in core.strip_generics(core.callee_path(t) or "").rsplit("::", 1)[-1]:
                return resolve_owner(f, t["args"][0], want_mut, depth + 1)
    if len(ds) != 1 or ds[0][1] == "term":
        return l if not p["proj"] else None
    d = ds[0][2]
    if d["k"] != "assign":
        return None
    rv = d["rv"]
    if rv["k"] == "ref":
        if want_mut and rv["bk"] != "mut":
            return None
        pl = rv["place"]
        if not pl["proj"]:
            return pl["local"]
        if len(pl["proj"]) == 1 and pl["proj"][0]["k"] == "deref":
            return resolve_owner(f, {"k": "copy", "place": {"local": pl["local"], "proj": []}}, want_mut, depth + 1)
        return None
    if rv["k"] in ("use", "cast"):
        return resolve_owner(f, rv["op"], want_mut, depth + 1)
    return None




def resolve_owner_path(f, operand, want_mut=False, depth=0):
    """Like resolve_owner, but also follows borrows of fields: returns (local, (field names...)) of the
    borrowed place, or None."""
    p = core.op_place(operand)
    if p is None or depth > 20:
        return None
    l = p["local"]
    ds = [d for d in f.defs_of(l) if not f.blocks[d[0]]["cleanup"]]
    if len(ds) == 1 and ds[0][1] == "term" and not p["proj"]:
        t = ds[0][2]
        dty = f.locals[l]["ty"]
        if dty.get("k") == "ref" and t["args"] and (not want_mut or dty.get("mut")):
            a0 = core.op_place(t["args"][0])
            if a0 is not None and f.locals[a0["local"]]["ty"].get("k") == "ref":
                return resolve_owner_path(f, t["args"][0], want_mut, depth + 1)
    if len(ds) != 1 or ds[0][1] == "term":
        return (l, ()) if not p["proj"] else None
    d = ds[0][2]
    if d["k"] != "assign":
        return None
    rv = d["rv"]
    if rv["k"] == "ref":
        if want_mut and rv["bk"] != "mut":
            return None
        pl = rv["place"]
        path = []
        base = pl["local"]
        through_ref = False
        for n, e in enumerate(pl["proj"]):
            if e["k"] == "deref" and n == 0:
                through_ref = True
            elif e["k"] == "field":
                path.append(e.get("name", str(e["i"])) if "adt" in e else str(e["i"]))
            elif e["k"] == "downcast":
                path.append("@" + str(e.get("variant", e["idx"])))
            else:
                return None
        if through_ref:
            inner = resolve_owner_path(f, {"k": "copy", "place": {"local": base, "proj": []}}, want_mut, depth + 1)
            if inner is None:
                return None
            return (inner[0], inner[1] + tuple(path))
        return (base, tuple(path))
    if rv["k"] in ("use", "cast"):
        return resolve_owner_path(f, rv["op"], want_mut, depth + 1)
    return None


def ref_sinks(f, owner):
    """For every `&mut owner` borrow: the stripped callee paths the reference (through reborrows and
    casts) is passed to; None entries mean the reference is stored / used in another way."""
    sinks = []
    for b, i, st in f.iter_stmts():
        if st["k"] == "assign" and st["rv"]["k"] in ("ref", "rawptr") and st["rv"].get("bk") == "mut" and st["rv"]["place"]["local"] == owner:
            if st["place"]["proj"]:
                sinks.append(None)
                continue
            seen = set()
            work = [st["place"]["local"]]
            while work:
                x = work.pop()
                if x in seen:
                    continue
                seen.add(x)
                for bb, ii, kind, item in uses_of_local(f, x):
                    if f.blocks[bb]["cleanup"]:
                        continue
                    if kind == "stmt":
                        rv = item["rv"]
                        pl = item["place"]
                        if pl["local"] == x and pl["proj"] and pl["proj"][0]["k"] == "deref":
                            # a store through the reference: harmless for lengths unless the pointee is
                            # itself a vector / array / slice value that gets replaced wholesale
                            pointee = f.locals[x]["ty"].get("ty", {})
                            if len(pl["proj"]) == 1 and pointee.get("k") in ("adt", "array", "slice"):
                                sinks.append(None)
                            else:
                                sinks.append("store-through")
                        elif rv["k"] in ("ref", "use", "cast", "rawptr") and not pl["proj"]:
                            work.append(pl["local"])
                        else:
                            sinks.append(None)
                    elif kind == "call":
                        p = core.callee_path(item)
                        sinks.append(core.strip_generics(p) if p else None)
                        # a reference returned by the call may alias: follow its destination if it is a reference
                        d = item["dest"]
                        if not d["proj"] and f.locals[d["local"]]["ty"].get("k") == "ref" and f.locals[d["local"]]["ty"].get("mut"):
                            work.append(d["local"])
                    elif kind == "drop":
                        pass
                    else:
                        sinks.append(None)
    return sinks
