"""Dependencies of reviewed obligations: each is a predicate over the current tree's facts, evaluated on
every run.  name[:argument] -> (holds, detail)."""
from . import core, expr, flow, gf, ia, paramtable as pt
from .api import Api
from .core import AnchorLost


class Req:
    def __init__(self, F, A, an):
        self.F, self.A, self.an = F, A, an
        self.cache = {}
        self._rows = None

    def check(self, name):
        if name in self.cache:
            return self.cache[name]
        base, _, arg = name.partition(":")
        fn = getattr(self, "r_" + base.replace("-", "_"), None)
        if fn is None:
            res = (False, "unknown requirement %s" % name)
        else:
            try:
                res = fn(arg) if arg else fn()
            except AnchorLost as e:
                res = (False, "anchor lost: %s" % e)
            except Exception as e:  # fail closed
                res = (False, "requirement %s raised %s: %s" % (name, type(e).__name__, e))
        self.cache[name] = res
        return res

    # ------------------------------------------------------------------ helpers
    def fn(self, key):
        c = self.F.by_key.get(key, [])
        if len(c) != 1:
            raise AnchorLost("function %s" % key)
        return c[0]

    def rows(self):
        """[(n, type, w, p, ls)] for every hash size and LM-OTS row."""
        if self._rows is None:
            F, an, A = self.F, self.an, self.A
            tr, impls = pt.hash_impls(F)
            f, padt, order, rows = pt.constructor_table(F, an, A.type_path("LmotsAlgorithm"))
            out = []
            for name, n, bs in impls:
                ev = pt.eval_rows(F, an, f, order, rows, {tr + "::OUTPUT_SIZE": (n, n)})
                for disc, r in ev.items():
                    if r is None:
                        continue
                    vals = [r.get(k) for k in ("type_id", "winternitz", "hash_chain_count", "checksum_left_shift")]
                    if any(v is None or v[0] != v[1] for v in vals):
                        raise AnchorLost("non-constant LM-OTS row")
                    out.append((n,) + tuple(v[0] for v in vals))
            self._rows = sorted(set(out))
        return self._rows

    def heights(self):
        F, an, A = self.F, self.an, self.A
        f, padt, order, rows = pt.constructor_table(F, an, A.type_path("LmsAlgorithm"))
        ev = pt.eval_rows(F, an, f, order, rows, {})
        return sorted(r["tree_height"][0] for r in ev.values() if r)

    def const(self, path):
        v = self.F.const_val(path)
        if v is None:
            raise AnchorLost("const %s" % path)
        return v

    # ------------------------------------------------------------------ table facts
    def r_T_HASHOUT(self):
        tr, impls = pt.hash_impls(self.F)
        mx = self.const("constants::MAX_HASH_SIZE")
        bad = [(n, o) for n, o, b in impls if o > 32 or o > mx]
        return (not bad and bool(impls), "OUTPUT_SIZE of %d impls <= 32 and <= MAX_HASH_SIZE=%d %s" % (len(impls), mx, bad))

    def chain_array_caps(self):
        a = self.F.adts.get("lm_ots::verify::HashChainArray")
        if not a:
            raise AnchorLost("HashChainArray")
        caps = {}
        for fl in a["variants"][0]["fields"]:
            if fl["name"].startswith("array_w"):
                t = fl["ty"]
                # Option<ArrayVec<[ArrayVec<[u8;32]>; N]>>
                av = t["args"][0]
                caps[int(fl["name"][len("array_w"):])] = av["args"][0]["len"]
        return caps

    def r_T_CAP_CHAIN(self):
        caps = self.chain_array_caps()
        bad = [(n, w, p, caps.get(w)) for n, t, w, p, ls in self.rows() if caps.get(w) is None or p > caps[w]]
        return (not bad, "chain counts fit the per-w arrays %s %s" % (caps, bad))

    def r_T_COEF(self):
        bad = []
        for n, t, w, p, ls in self.rows():
            u = 8 * n // w
            if ((p - 1) * w) // 8 > n + 1 or ((u - 1) * w) // 8 > n - 1:
                bad.append((n, w, p))
        return (not bad, "floor((p-1)w/8) <= n+1 and floor((u-1)w/8) <= n-1 for %d rows %s" % (len(self.rows()), bad))

    def r_T_ITERSUM(self):
        bad = [(n, w, p) for n, t, w, p, ls in self.rows() if p * (2**w - 1) > 65535]
        return (not bad, "p*(2^w-1) <= 65535 %s" % bad)

    def r_T_HASHITER(self):
        L = self.const("constants::MAX_ALLOWED_HSS_LEVELS")
        return (L * 65535 <= 2**32 - 1, "%d * 65535 <= u32::MAX" % L)

    def r_T_HEIGHTSUM(self):
        L = self.const("constants::MAX_ALLOWED_HSS_LEVELS")
        hs = self.heights()
        return (L * max(hs) <= 2**32 - 1, "%d * %d <= u32::MAX" % (L, max(hs)))

    def r_T_CHILDSEED(self):
        # every constant handed to set_child_seed is <= 0xfffe
        vals = []
        for f in self.F.fns.values():
            for b, t in f.calls():
                p = core.strip_generics(core.callee_path(t) or "")
                if p.endswith("SeedDerive::set_child_seed") and len(t["args"]) == 2:
                    vals.append(core.op_const_val(t["args"][1]))
        ok = bool(vals) and all(v is not None and v <= 0xFFFE for v in vals)
        return (ok, "constants passed to set_child_seed: %s" % vals)

    def r_T_AUXSUM(self):
        mh = self.const("constants::MAX_TREE_HEIGHT")
        total = sum(32 << lvl for lvl in range(mh + 1)) + 4
        return (total < 2**63, "4 + sum over levels 0..%d of (32 << level) = %d fits usize" % (mh, total))

    def r_T_SIGCAP(self):
        a = self.F.adts.get("hss::definitions::HssPrivateKey")
        if not a:
            raise AnchorLost("HssPrivateKey")
        L = self.const("constants::MAX_ALLOWED_HSS_LEVELS")
        caps = {fl["name"]: fl["ty"]["args"][0]["len"] for fl in a["variants"][0]["fields"] if fl["ty"].get("path") == "tinyvec::arrayvec::ArrayVec"}
        ok = caps.get("private_key", 0) >= L and caps.get("signatures", 0) >= L and caps.get("public_key", -1) >= L - 1
        return (ok, "capacities %s for L=%d (signatures needs L: L-1 key signatures + the message signature)" % (caps, L))

    # ------------------------------------------------------------------ build limits (C14)
    def limit_tables(self):
        th = self.F.const_array("constants::TREE_HEIGHTS")
        wp = self.F.const_array("constants::WINTERNITZ_PARAMETERS")
        L = self.const("constants::MAX_ALLOWED_HSS_LEVELS")
        if th is None or wp is None or len(th) != L or len(wp) != L:
            raise AnchorLost("TREE_HEIGHTS / WINTERNITZ_PARAMETERS tables (%s, %s, L=%s)" % (th, wp, L))
        return L, list(th), list(wp)

    def decoder(self):
        c = [f for f in self.F.fns.values() if f.j.get("output", {}).get("path") == flow.RESULT
             and "ArrayVec<[hss::parameter::HssParameter<" in f.j["output"]["s"] and f.j.get("inputs") and len(f.j["inputs"]) == 1]
        if len(c) != 1:
            raise AnchorLost("parameter decoder: %s" % [x.path for x in c])
        return c[0]

    def limit_predicate(self):
        """fn(level, height, winternitz) -> bool that is true only if height <= TREE_HEIGHTS[level] and
        winternitz >= WINTERNITZ_PARAMETERS[level]: every return path that can yield `true` has both comparisons true."""
        cands = [f for f in self.F.fns.values() if f.j.get("output", {}).get("s") == "bool" and len(f.j.get("inputs", [])) == 3
                 and any("TREE_HEIGHTS" in str(s) for _, _, s in f.iter_stmts() if s["k"] == "assign")]
        if len(cands) != 1:
            raise AnchorLost("limit predicate: %s" % [c.path for c in cands])
        P = cands[0]
        # classify comparison locals
        cmp = {}
        for b, i, s in P.iter_stmts():
            if s["k"] != "assign" or s["rv"]["k"] != "binop" or s["rv"]["op"] not in ("Le", "Ge", "Lt", "Gt"):
                continue
            rv = s["rv"]
            da, db = core.operand_deps(P, rv["a"]), core.operand_deps(P, rv["b"])
            tbl = [str(c.get("s")) for c in db["consts"] if isinstance(c, dict)]
            if rv["op"] == "Le" and 2 in da["args"] and 1 in db["args"] and any("TREE_HEIGHTS" in t for t in tbl):
                cmp[s["place"]["local"]] = "H"
            if rv["op"] == "Ge" and 3 in da["args"] and 1 in db["args"] and any("WINTERNITZ_PARAMETERS" in t for t in tbl):
                cmp[s["place"]["local"]] = "W"
        if sorted(cmp.values()) != ["H", "W"]:
            return P, False, "comparisons found: %s" % sorted(cmp.values())
        # enumerate paths (loop-free)
        bad = []

        def val_of_ret(b):
            for st in reversed(P.blocks[b]["stmts"]):
                if st["k"] == "assign" and st["place"]["local"] == 0 and not st["place"]["proj"]:
                    rv = st["rv"]
                    if rv["k"] == "use":
                        v = core.op_const_val(rv["op"])
                        if v is not None:
                            return ("const", v)
                        l = core.op_local(rv["op"])
                        return ("cmp", cmp.get(l))
                    if rv["k"] == "binop":
                        return ("cmp", cmp.get(st["place"]["local"]) or cmp_of_rv(rv))
                    return ("?", None)
            return None

        def cmp_of_rv(rv):
            return None
        # `_0 = Ge(..)` assigns the comparison directly to the return place
        for b, i, st in P.iter_stmts():
            if st["k"] == "assign" and st["place"]["local"] == 0 and st["rv"]["k"] == "binop":
                rv = st["rv"]
                da, db = core.operand_deps(P, rv["a"]), core.operand_deps(P, rv["b"])
                tbl = [str(c.get("s")) for c in db["consts"] if isinstance(c, dict)]
                if rv["op"] == "Ge" and 3 in da["args"] and any("WINTERNITZ_PARAMETERS" in t for t in tbl):
                    cmp[0] = "W"
                if rv["op"] == "Le" and 2 in da["args"] and any("TREE_HEIGHTS" in t for t in tbl):
                    cmp[0] = "H"
        stack = [(0, frozenset(), None)]
        seen = 0
        while stack:
            b, known, ret = stack.pop()
            seen += 1
            if seen > 500:
                return P, False, "too many paths"
            blk = P.blocks[b]
            for st in blk["stmts"]:
                if st["k"] == "assign" and st["place"]["local"] == 0 and not st["place"]["proj"]:
                    rv = st["rv"]
                    if rv["k"] == "use" and core.op_const_val(rv["op"]) is not None:
                        ret = ("const", core.op_const_val(rv["op"]))
                    elif rv["k"] == "binop":
                        ret = ("cmp", cmp.get(0))
                    elif rv["k"] == "use":
                        ret = ("cmp", cmp.get(core.op_local(rv["op"])))
                    else:
                        ret = ("?", None)
            t = blk["term"]
            if t["k"] == "return":
                if ret is None or ret[0] == "?":
                    bad.append("unrecognised return value")
                elif ret[0] == "const" and ret[1] == 0:
                    pass
                else:
                    have = set(known)
                    if ret[0] == "cmp" and ret[1]:
                        have.add(ret[1])
                    if not {"H", "W"} <= have:
                        bad.append("a path returns true knowing only %s" % sorted(have))
                continue
            if t["k"] == "switch":
                l = core.op_local(t["discr"])
                which = cmp.get(l)
                for v, tg in t["targets"]:
                    stack.append((tg, known, ret))  # value 0 = comparison false
                if t.get("otherwise") is not None:
                    stack.append((t["otherwise"], known | ({which} if which else set()), ret))
                continue
            for sx in P.succ[b]:
                if not P.blocks[sx]["cleanup"]:
                    stack.append((sx, known, ret))
        return P, not bad, "; ".join(bad[:2]) or "true only if height <= TREE_HEIGHTS[level] and w >= WINTERNITZ_PARAMETERS[level]"

    def r_GF_LIMITS(self):
        D = self.decoder()
        P, okp, why = self.limit_predicate()
        if not okp:
            return (False, "limit predicate %s is not a conjunction of both per-level comparisons: %s" % (P.path, why))
        grows = [b for b, t in D.calls() if not D.blocks[b]["cleanup"] and core.strip_generics(core.callee_path(t) or "").rsplit("::", 1)[-1] in ("push", "extend_from_slice")
                 and flow.origin(D, t["args"][0])[0] in ("local", "call")]
        pcs = [(b, t) for b, t in D.calls() if self.F.call_targets(D, t) == [P.path] and not D.blocks[b]["cleanup"]]
        if len(pcs) != 1 or not grows:
            return (False, "decoder %s: limit predicate calls %d, growth sites %d" % (D.path, len(pcs), len(grows)))
        pb, pt_ = pcs[0]
        ex = expr.Expr(self.F, D)
        a_level, a_h, a_w = [ex.of_operand(a) for a in pt_["args"]]
        # predicate result tested; true edge dominates every growth; false edge -> Err only
        sw = [c for c in flow.bool_checks(D, pt_["dest"]["local"], True, set())] if hasattr(flow, "bool_checks") else []
        okdom = False
        for b, t in D.iter_terms():
            if t["k"] == "switch" and core.op_local(t["discr"]) == pt_["dest"]["local"]:
                tru = t.get("otherwise")
                fls = [tg for v, tg in t["targets"] if v == 0]
                okdom = tru is not None and all(flow.edge_dominates(D, b, tru, g) for g in grows) and all(gf.error_only_from(D, x, grows) for x in fls)
        # the tested height / winternitz are those of the parameter that is appended, the level is the loop index
        pushed = None
        for g in grows:
            pushed = ex.of_operand(D.blocks[g]["term"]["args"][1])
        okargs = (expr.has_call(a_h, "get_tree_height") or expr.has_field(a_h, "tree_height")) and (expr.has_call(a_w, "get_winternitz") or expr.has_field(a_w, "winternitz"))
        news_h = [x for x in expr.walk(a_h) if x[0] == "call" and x[1].endswith("HssParameter::new")]
        news_w = [x for x in expr.walk(a_w) if x[0] == "call" and x[1].endswith("HssParameter::new")]
        news_p = [x for x in expr.walk(pushed) if x[0] == "call" and x[1].endswith("HssParameter::new")] if pushed else []
        same = bool(news_h) and news_h[:1] == news_w[:1] == news_p[:1]
        from .c03 import item_of
        lvl_ok = item_of(a_level) is not None
        return (okdom and okargs and same and lvl_ok,
                "decoder %s: every appended parameter passed %s(level index, its height, its winternitz) on the only edge to the append (dominates: %s, args: %s, same parameter: %s, level is loop index: %s)"
                % (D.path, P.path, okdom, okargs, same, lvl_ok))

    def r_params_only_from_decoder(self):
        D = self.decoder()
        news = [f for f in self.F.fns.values() if f.j.get("name") == "new" and f.j.get("impl", {}).get("self_ty", {}).get("path", "").endswith("HssParameter")]
        if len(news) != 1:
            raise AnchorLost("HssParameter::new")
        tree = self.F.reachable(self.A.entries_keygen() + self.A.entries_sign() + self.A.entries_lifetime())
        callers = set()
        for c, b, k in self.F.callers_of(news[0].path):
            if c not in tree:
                continue
            g = self.F.fns[c]
            t = g.blocks[b]["term"]
            if all(a["k"] == "const" or const_variant(g, a) for a in t["args"]):
                continue  # constant default parameter (fills unused vector slots; every used slot is written by the decoder)
            callers.add(c)
        callers = sorted(callers)
        return (callers == [D.path], "HssParameter values below keygen / sign / lifetime are constructed only by the decoder: %s" % callers)

    def push_loops_bounded_by(self, fkeys, names):
        """In each function the (single) push site lies in a loop driven by `0..X` where X is the named parameter
        quantity (getter call or field), possibly converted."""
        out = []
        for k in fkeys:
            f = self.fn(k)
            ex = expr.Expr(self.F, f)
            pushes = [b for b, t in f.calls() if not f.blocks[b]["cleanup"] and core.strip_generics(core.callee_path(t) or "").endswith("ArrayVec::push")]
            if len(pushes) != 1:
                return (False, "%s: %d push sites" % (f.path, len(pushes)))
            loops = [(h, body) for h, body in f.natural_loops() if pushes[0] in body]
            if len(loops) != 1:
                return (False, "%s: push site lies in %d loops" % (f.path, len(loops)))
            h, body = loops[0]
            ok = False
            for b in body:
                t = f.blocks[b]["term"]
                if t["k"] == "call" and core.strip_generics(core.callee_path(t) or "").endswith("::next"):
                    e = ex.of_operand(t["args"][0])
                    rngs = [x for x in expr.walk(e) if x[0] == "adt" and "Range" in str(x[1])]
                    for r in rngs:
                        parts = [y for y in r[2:] if isinstance(y, tuple)]
                        flat = list(expr.walk(r))
                        start0 = any(y == ("const", 0) for y in flat)
                        named = any((y[0] == "call" and y[1].rsplit("::", 1)[-1] in names) or (y[0] == "field" and y[2] in names) for y in flat)
                        if start0 and named:
                            ok = True
            out.append(ok)
            if not ok:
                return (False, "%s: the pushing loop is not `0..%s`" % (f.path, "/".join(names)))
        return (True, "pushing loops of %s run over 0..%s" % ([self.fn(k).path for k in fkeys], "/".join(names)))

    def r_chain_loops_run_to_p(self):
        return self.push_loops_bounded_by(["lm_ots::keygen::generate_private_key", "lm_ots::keygen::generate_public_key", "lm_ots::signing::LmotsSignature::calculate_signature"],
                                          ("get_hash_chain_count", "hash_chain_count"))

    def r_auth_path_loop_runs_to_height(self):
        return self.push_loops_bounded_by(["lms::signing::LmsSignature::build_authentication_path"], ("get_tree_height", "tree_height"))

    def r_T_LIMIT_HEIGHT(self):
        L, th, wp = self.limit_tables()
        mh = self.const("constants::MAX_TREE_HEIGHT")
        return (max(th) <= mh, "max(TREE_HEIGHTS)=%d <= MAX_TREE_HEIGHT=%d (authentication path capacity)" % (max(th), mh))

    def r_T_LIMIT_CHAINS(self):
        L, th, wp = self.limit_tables()
        cap = self.const("constants::MAX_NUM_WINTERNITZ_CHAINS")
        worst = max(p for (n, ty, w, p, ls) in self.rows() if w >= min(wp))
        return (worst <= cap, "largest chain count of any (hash, w >= %d) row = %d <= MAX_NUM_WINTERNITZ_CHAINS = %d" % (min(wp), worst, cap))

    def siglen_worst(self):
        L, th, wp = self.limit_tables()
        n = self.const("constants::MAX_HASH_SIZE")
        rows = self.rows()

        def pmax(wmin):
            return max(p for (nn, ty, w, p, ls) in rows if w >= wmin and nn <= n)
        pk = 4 + 4 + 16 + n
        worst = 0
        for l in range(1, L + 1):
            tot = 4
            for i in range(l):
                tot += 4 + (4 + n + n * pmax(wp[i])) + 4 + n * th[i] + (pk if i < l - 1 else 0)
            worst = max(worst, tot)
        return worst

    def r_T_LIMIT_SIGCAP(self):
        cap = self.const("constants::MAX_HSS_SIGNATURE_LENGTH")
        worst = self.siglen_worst()
        return (worst <= cap, "longest HSS signature within the per-level limits = %d bytes <= buffer capacity %d" % (worst, cap))

    def siglen_fn(self):
        """The routine the signing core calls to measure the signature: fn(&[HssParameter]) -> usize."""
        from . import c04
        tree, sites = c04.find_core(self.F, self.A.entries_sign())
        if len(sites) != 1:
            raise AnchorLost("signing core")
        corefn = self.F.fns[sites[0][0]]
        cands = []
        for b, t in corefn.calls():
            tps = self.F.call_targets(corefn, t)
            if tps and tps[0] in self.F.fns and not corefn.blocks[b]["cleanup"]:
                g = self.F.fns[tps[0]]
                ins = g.j.get("inputs", [])
                if g.j.get("output", {}).get("s") == "usize" and len(ins) == 1 and "HssParameter" in ins[0]["s"]:
                    cands.append((b, t, g))
        if len(cands) != 1:
            raise AnchorLost("signature-length routine called by %s: %s" % (corefn.path, [c[2].path for c in cands]))
        return corefn, sites[0][1], cands[0]

    def r_GF_SIGLEN_U16(self):
        corefn, cb_block, (lb, lt, g) = self.siglen_fn()
        dl = lt["dest"]["local"]
        # the producer of the HSS signature value and the callback must both be reachable only when length <= 65535
        protected = [cb_block] + [b for b, t in corefn.calls() if self.F.call_targets(corefn, t) and "HssSignature" in self.F.call_targets(corefn, t)[0] and self.F.call_targets(corefn, t)[0].endswith("::sign")]
        ok = False
        detail = "no comparison of the measured length found"
        for b, t in corefn.iter_terms():
            if t["k"] != "switch" or corefn.blocks[b]["cleanup"]:
                continue
            l = core.op_local(t["discr"])
            ds = corefn.defs_of(l) if l is not None else []
            if len(ds) != 1 or ds[0][1] == "term" or ds[0][2]["rv"]["k"] != "binop":
                continue
            rv = ds[0][2]["rv"]
            a_is_len = flow.origin(corefn, rv["a"])[:2] == ("call", lb)
            ex = expr.Expr(self.F, corefn)
            bound = ex.of_operand(rv["b"])
            while isinstance(bound, tuple) and bound[0] == "cast":
                bound = bound[1]
            if not a_is_len or bound[0] != "const":
                continue
            c = bound[1]
            zero_t = [tg for v, tg in t["targets"] if v == 0]
            other = t.get("otherwise")
            if rv["op"] == "Gt" and c <= ia.AV_MAX_LEN and zero_t and other is not None:
                pass_e, fail_e = zero_t[0], other
            elif rv["op"] == "Ge" and c <= ia.AV_MAX_LEN + 1 and zero_t and other is not None:
                pass_e, fail_e = zero_t[0], other
            elif rv["op"] == "Le" and c <= ia.AV_MAX_LEN and zero_t and other is not None:
                pass_e, fail_e = other, zero_t[0]
            elif rv["op"] == "Lt" and c <= ia.AV_MAX_LEN + 1 and zero_t and other is not None:
                pass_e, fail_e = other, zero_t[0]
            else:
                continue
            doms = all(flow.edge_dominates(corefn, b, pass_e, p) for p in protected)
            erro = gf.error_only_from(corefn, fail_e, protected)
            detail = "comparison with %d: dominates callback and signer: %s, failing edge error-only: %s" % (c, doms, erro)
            ok = ok or (doms and erro and len(protected) >= 2)
        return (ok, "%s measures the signature with %s and refuses lengths above the vector's 16-bit length before the signer and the callback (%s)" % (corefn.path, g.path, detail))

    def r_T_SIGLEN_FORMULA(self):
        """The measuring routine adds u32 + per level lms_signature_length(n, p, h) + (all but the last level) lms_public_key_length(n),
        and those two formulas evaluate to the RFC 8554 lengths on every (hash size, LM-OTS row, height)."""
        corefn, cb_block, (lb, lt, g) = self.siglen_fn()
        ex = expr.Expr(self.F, g)
        calls = {}
        for b, t in g.calls():
            tps = self.F.call_targets(g, t)
            if tps and not g.blocks[b]["cleanup"]:
                calls.setdefault(tps[0], []).append((b, t))
        sigf = [p for p in calls if len(self.F.fns[p].j.get("inputs", [])) == 3 and self.F.fns[p].j["output"]["s"] == "usize"]
        pkf = [p for p in calls if len(self.F.fns[p].j.get("inputs", [])) == 1 and self.F.fns[p].j["output"]["s"] == "usize" and self.F.fns[p].j["inputs"][0]["s"] == "usize"]
        if len(sigf) != 1 or len(pkf) != 1:
            return (False, "%s does not call one three-argument and one one-argument length formula: %s" % (g.path, sorted(calls)))
        # argument provenance of the per-level term
        sb, st = calls[sigf[0]][0]
        a_n, a_p, a_h = [ex.of_operand(a) for a in st["args"]]
        okargs = expr.has_assoc(a_n, "OUTPUT_SIZE") and (expr.has_call(a_p, "get_num_winternitz_chains") or expr.has_field(a_p, "hash_chain_count")) and (expr.has_call(a_h, "get_tree_height") or expr.has_field(a_h, "tree_height"))
        inloop = g.in_cycle(sb) and g.in_cycle(calls[pkf[0]][0][0])
        # the public-key term is skipped for the last level only: guarded by a comparison of (index + 1) with the number of levels
        pb = calls[pkf[0]][0][0]
        guarded = False
        for b, t in g.iter_terms():
            if t["k"] == "switch" and g.dominates(b, pb) and b != pb and g.in_cycle(b):
                d = core.operand_deps(g, t["discr"])
                if any(r["op"] in ("Lt", "Le", "Ne", "Gt", "Ge") for r in d["binops"]) and any(core.strip_generics(core.callee_path(ct) or "").endswith("::len") for cb_, ct in d["calls"]):
                    guarded = True
        # start value 4
        init4 = any(s["k"] == "assign" and s["rv"]["k"] == "use" and core.op_const_val(s["rv"]["op"]) == 4 for b, i, s in g.iter_stmts() if not g.in_cycle(b)) or \
            any((core.callee_path(t) or "").endswith("size_of::<u32>") or ("size_of" in (core.callee_path(t) or "")) for b, t in g.calls() if not g.in_cycle(b))
        # formulas, on the complete finite domain
        bad = []
        hs = self.heights()
        an = self.an
        saved_ctx = an.max_ctx
        an.max_ctx = 10**6  # one context per table point
        for (n, ty, w, p, ls) in self.rows():
            for h in hs:
                r = an.call_local(sigf[0], [(n, n), (p, p), (h, h)]).get(())
                want = 4 + (4 + n + n * p) + 4 + n * h
                if r != (want, want):
                    bad.append(("sig", n, p, h, r, want))
            r = an.call_local(pkf[0], [(n, n)]).get(())
            if r != (4 + 4 + 16 + n,) * 2:
                bad.append(("pk", n, r))
        an.max_ctx = saved_ctx
        return (okargs and inloop and guarded and init4 and not bad,
                "%s = 4 + sum over levels of %s(n, p, h) + (not for the last level) %s(n): arguments %s, in loop %s, last level skipped %s, start 4 %s; formulas equal RFC 8554 on all rows x heights: %s"
                % (g.path, sigf[0], pkf[0], okargs, inloop, guarded, init4, bad[:2] or True))

    def r_T_LIMIT_SIGLEN(self):
        """The HSS signature buffer holds the longest signature of any key within the per-level limits, and that
        length is representable in the vector's u16 length field."""
        L, th, wp = self.limit_tables()
        cap = self.const("constants::MAX_HSS_SIGNATURE_LENGTH")
        n = self.const("constants::MAX_HASH_SIZE")
        rows = self.rows()

        def pmax(wmin):
            return max(p for (nn, ty, w, p, ls) in rows if w >= wmin and nn <= n)
        pk = 4 + 4 + 16 + n
        worst = 0
        for l in range(1, L + 1):
            tot = 4
            for i in range(l):
                lms_sig = 4 + (4 + n + n * pmax(wp[i])) + 4 + n * th[i]
                tot += lms_sig + (pk if i < l - 1 else 0)
            worst = max(worst, tot)
        return (worst <= cap and worst <= ia.AV_MAX_LEN,
                "longest HSS signature within the per-level limits = %d bytes; buffer capacity %d; ArrayVec length field holds %d" % (worst, cap, ia.AV_MAX_LEN))

    # ------------------------------------------------------------------ fast-verify search (C15)
    def fv_anchors(self):
        F = self.F
        evals = [f for f in F.fns.values() if f.j.get("output", {}).get("s") == "u16" and any("ArrayVec<[(usize, u16, u64);" in t["s"] for t in f.j.get("inputs", []))]
        inits = [f for f in F.fns.values() if "ArrayVec<[(usize, u16, u64);" in f.j.get("output", {}).get("s", "") and f.j["output"].get("k") == "tuple"]
        if len(evals) != 1 or len(inits) != 1:
            raise AnchorLost("fast-verify eval/init: %s / %s" % ([f.path for f in evals], [f.path for f in inits]))
        EV, IN = evals[0], inits[0]
        workers = [f for f in F.fns.values() if any(F.call_targets(f, t) == [EV.path] for b, t in f.calls()) and f.j.get("output", {}).get("k") == "tuple"]
        if len(workers) != 1:
            raise AnchorLost("fast-verify worker: %s" % [f.path for f in workers])
        W = workers[0]
        opts = [f for f in F.fns.values() if any(F.call_targets(f, t) == [IN.path] for b, t in f.calls()) and not f.j.get("parent_fn")]
        if len(opts) != 1:
            raise AnchorLost("fast-verify optimiser: %s" % [f.path for f in opts])
        return EV, IN, W, opts[0]

    def r_T_FVEVAL(self):
        bad = []
        for (n, ty, w, p, ls) in self.rows():
            mx = 8 * n // w
            mask = (1 << w) - 1
            if mx > p:
                bad.append((n, w, "max %d > p %d" % (mx, p)))
            for i in range(p):
                idx = (i * w) // 8
                shift = w * ((~i) & (8 // w - 1))
                if shift > 7:
                    bad.append((n, w, "shift %d" % shift))
                if i < mx and idx >= n:
                    bad.append((n, w, "digest index %d >= n at digit %d" % (idx, i)))
                if i >= mx and not (n <= idx <= n + 1):
                    bad.append((n, w, "checksum index %d outside n..n+1 at digit %d" % (idx, i)))
            if p * mask > 65535:
                bad.append((n, w, "sum of %d digits of at most %d exceeds u16" % (p, mask)))
        return (not bad and bool(self.rows()), "for all %d (n, w) rows: 8n/w <= p, digit i < 8n/w reads digest byte < n, digit i >= 8n/w reads checksum byte n..n+1, shifts <= 7, p*(2^w-1) <= 65535 %s"
                % (len(self.rows()), bad[:3]))

    def r_fv_init_shape(self):
        EV, IN, W, O = self.fv_anchors()
        ex = expr.Expr(self.F, IN)
        rets = [s for _, _, s in IN.iter_stmts() if s["k"] == "assign" and s["place"]["local"] == 0 and s["rv"]["k"] == "aggregate"]
        if len(rets) != 1 or len(rets[0]["rv"]["ops"]) != 3:
            return (False, "%s does not return one 3-tuple" % IN.path)
        e_max, e_sum, e_vec = [ex.of_operand(o) for o in rets[0]["rv"]["ops"]]

        def has_w(e):
            return expr.has_call(e, "get_winternitz") or expr.has_field(e, "winternitz")
        ok_max = e_max[0] == "bin" and e_max[1] == "Div" and any(x[0] == "bin" and x[1] == "Mul" and ("const", 8) in (x[2], x[3]) for x in expr.walk(e_max[2])) and expr.has_assoc(e_max[2], "OUTPUT_SIZE") and has_w(e_max[3])
        ok_sum = e_sum[0] == "bin" and e_sum[1] == "Mul" and e_max in (e_sum[2], e_sum[3]) and any(x[0] == "bin" and x[1] == "Shl" and x[2] == ("const", 1) and has_w(x[3]) for x in expr.walk(e_sum))
        pushes = [(b, t) for b, t in IN.calls() if core.strip_generics(core.callee_path(t) or "").endswith("ArrayVec::push") and not IN.blocks[b]["cleanup"]]
        ok_vec = False
        if len(pushes) == 1:
            pe = ex.of_operand(pushes[0][1]["args"][1])
            from .c03 import item_of
            ok_vec = pe[0] == "call" and pe[1].endswith("coef_helper") and item_of(pe[2][0]) is not None and has_w(pe[2][1])
            lp = self.push_loops_bounded_by([IN.key], ("get_num_winternitz_chains", "get_hash_chain_count", "hash_chain_count"))
            ok_vec = ok_vec and lp[0]
        elif not pushes:
            # the same table built as `(0..p).map(|i| coef_helper(i, w)).collect()`
            from .c03 import item_of
            cls = [self.F.fns[c] for c in self.F._closures.get(IN.path, []) if c in self.F.fns]
            colls = [t for b, t in IN.calls() if core.strip_generics(core.callee_path(t) or "").endswith("Iterator::collect") and not IN.blocks[b]["cleanup"]]
            if len(cls) == 1 and len(colls) == 1:
                cx = expr.Expr(self.F, cls[0], closure_env=True)
                pe = cx.of_local(0, 0)
                src = self.closure_item_source(cls[0])
                rng = [x for x in expr.walk(src) if x[0] == "adt" and x[1] == "core::ops::range::Range"] if src is not None else []
                bounded = bool(rng) and rng[0][3][0] == ("const", 0) and (expr.has_field(rng[0][3][1], "hash_chain_count") or expr.has_call(rng[0][3][1], "get_num_winternitz_chains") or expr.has_call(rng[0][3][1], "get_hash_chain_count"))
                ok_vec = pe[0] == "call" and pe[1].endswith("coef_helper") and item_of(pe[2][0]) is not None and has_w(pe[2][1]) and bounded
        return (ok_max and ok_sum and ok_vec, "%s returns (8n/w: %s, (8n/w)*(2^w-1): %s, [coef_helper(i, w) for i in 0..p]: %s)" % (IN.path, ok_max, ok_sum, ok_vec))

    def r_fv_helper_matches_table(self):
        """coef_helper(i, w) = (i*w/8, w*(!i & (8/w - 1)), (1<<w)-1): the expressions T-FVEVAL evaluates."""
        h = [f for f in self.F.fns.values() if f.j.get("name") == "coef_helper"]
        if len(h) != 1:
            raise AnchorLost("coef_helper")
        f = h[0]
        ex = expr.Expr(self.F, f)
        rets = [s for _, _, s in f.iter_stmts() if s["k"] == "assign" and s["place"]["local"] == 0 and s["rv"]["k"] == "aggregate"]
        if len(rets) != 1 or len(rets[0]["rv"]["ops"]) != 3:
            return (False, "coef_helper does not return one 3-tuple")
        ei, es, em = [ex.of_operand(o) for o in rets[0]["rv"]["ops"]]

        def strip(e):
            while isinstance(e, tuple) and e[0] == "cast":
                e = e[1]
            return e
        ei, es, em = strip(ei), strip(es), strip(em)
        ok_i = ei[0] == "bin" and ei[1] == "Div" and strip(ei[3]) == ("const", 8) and any(x[0] == "bin" and x[1] == "Mul" for x in expr.walk(ei[2])) and {("arg", 1), ("arg", 2)} <= set(expr.walk(ei[2]))
        ok_s = es[0] == "bin" and es[1] == "Mul" and any(x[0] == "bin" and x[1] == "BitAnd" for x in expr.walk(es)) and any(x[0] == "un" and x[1] == "Not" for x in expr.walk(es)) \
            and any(x[0] == "bin" and x[1] == "Div" and strip(x[2]) == ("const", 8) for x in expr.walk(es))
        ok_m = em[0] == "bin" and em[1] == "Sub" and strip(em[3]) == ("const", 1) and any(x[0] == "bin" and x[1] == "Shl" and strip(x[2]) == ("const", 1) for x in expr.walk(em[2]))
        return (ok_i and ok_s and ok_m, "coef_helper returns (i*w/8: %s, w*(!i & (8/w-1)): %s, (1<<w)-1: %s)" % (ok_i, ok_s, ok_m))

    def r_fv_eval_shape(self):
        EV, IN, W, O = self.fv_anchors()
        ex = expr.Expr(self.F, EV)
        idx_calls = [(b, t) for b, t in EV.calls() if core.strip_generics(core.callee_path(t) or "").endswith("::index") and not EV.blocks[b]["cleanup"]]
        loops = EV.natural_loops()
        if len(idx_calls) != 2 or len([1 for h, body in loops]) < 2:
            return (False, "%s: %d table lookups, %d loops" % (EV.path, len(idx_calls), len(loops)))
        # first loop 0..max, second max..p; table lookups indexed by the loop item
        descr = []
        ok = True
        for b, t in idx_calls:
            ie = ex.of_operand(t["args"][1])
            rng = [x for x in expr.walk(ie) if x[0] == "adt" and "Range" in str(x[1])]
            ok = ok and bool(rng)
            descr.append(str(rng[0])[:120] if rng else "?")
        # the checksum lookup subtracts the hash output size (not a literal)
        subs = []
        for b, blk in enumerate(EV.blocks):
            t = blk["term"]
            if t["k"] == "assert" and t["msg"]["kind"] == "Overflow" and t["msg"].get("op") == "Sub" and not blk["cleanup"]:
                ea, eb = ex.of_operand(t["msg"]["a"]), ex.of_operand(t["msg"]["b"])
                subs.append((ea, eb))
        sub_ok = any(expr.has_assoc(eb, "OUTPUT_SIZE") and not expr.has_assoc(ea, "OUTPUT_SIZE") for ea, eb in subs)
        lit = [eb for ea, eb in subs if eb[0] == "const" and eb[1] in (16, 24, 32)]
        return (ok and sub_ok and not lit, "%s: lookups driven by ranges %s; checksum byte index = table index - H output size: %s; hash-size literals subtracted: %s" % (EV.path, descr, sub_ok, lit))

    def r_fv_cache_from_init_of_same_parameter(self):
        EV, IN, W, O = self.fv_anchors()
        # O: cache = IN(&P); W(.., P, &cache, ..) inside the worker closure; W: EV(P, digest, cache) with W's own params
        oc = [(b, t) for b, t in O.calls() if self.F.call_targets(O, t) == [IN.path]]
        if len(oc) != 1:
            return (False, "optimiser calls init %d times" % len(oc))
        p_init = flow.origin(O, oc[0][1]["args"][0])
        wc = [(b, t) for b, t in W.calls() if self.F.call_targets(W, t) == [EV.path]]
        if len(wc) != 1:
            return (False, "worker calls eval %d times" % len(wc))
        a_p, a_d, a_c = [flow.origin(W, a) for a in wc[0][1]["args"]]
        okw = a_p[0] == "arg" and a_c[0] == "arg"
        # the digest handed to eval is a hash output
        okd = a_d[0] == "call" and (flow.decl_path(a_d[2]) or "").endswith("finalize")
        # callers of W: closures capturing O's locals; the captured parameter and cache are O's parameter / init result
        callers = [c for c in self.F.callers_of(W.path) if c[2] == "call"]
        okc = bool(callers) and all(self.F.fns[c[0]].j.get("parent_fn") and core.strip_generics(self.F.fns[c[0]].j["parent_fn"]).startswith(core.strip_generics(O.path)) for c in callers)
        return (p_init[0] == "arg" and okw and okd and okc,
                "cache = init(optimiser parameter %s); worker passes its own parameter/cache arguments to eval: %s; digest is a finalize() output: %s; worker called only from the optimiser's closures: %s"
                % (p_init[:2], okw, okd, okc))

    def r_fv_worker_vectors_have_output_size(self):
        EV, IN, W, O = self.fv_anchors()
        vecs = [t["dest"]["local"] for b, t in W.calls() if core.strip_generics(core.callee_path(t) or "") == "tinyvec::arrayvec::ArrayVec::new" and not W.blocks[b]["cleanup"]]
        # ... or created with the final length at once: from_array_len([0; N], <output size>)
        sized = {}
        exW = expr.Expr(self.F, W)
        for b, t in W.calls():
            if core.strip_generics(core.callee_path(t) or "") == "tinyvec::arrayvec::ArrayVec::from_array_len" and not W.blocks[b]["cleanup"] and len(t["args"]) == 2:
                e = exW.of_operand(t["args"][1])
                sized[t["dest"]["local"]] = expr.has_call(e, "get_hash_function_output_size") or expr.has_assoc(e, "OUTPUT_SIZE")
        vecs = vecs + list(sized)
        if len(vecs) < 1:
            return (False, "no vectors created in %s" % W.path)
        detail = []
        ok = True
        for v in vecs:
            grow = []
            for b, t in W.calls():
                if W.blocks[b]["cleanup"]:
                    continue
                cp = core.strip_generics(core.callee_path(t) or "")
                last = cp.rsplit("::", 1)[-1]
                if t["args"] and flow.resolve_owner(W, t["args"][0], want_mut=True) == v and cp.startswith("tinyvec::arrayvec::ArrayVec::") and last not in ("as_mut_slice", "as_slice", "len", "deref_mut", "deref"):
                    grow.append((b, last))
            pushes = [g for g in grow if g[1] == "push"]
            others = [g for g in grow if g[1] != "push"]
            inloop = False
            if len(pushes) == 1:
                b = pushes[0][0]
                for h, body in W.natural_loops():
                    if b in body:
                        for nb in body:
                            t = W.blocks[nb]["term"]
                            if t["k"] == "call" and core.strip_generics(core.callee_path(t) or "").endswith("::next"):
                                e = expr.Expr(self.F, W).of_operand(t["args"][0])
                                if any(x == ("const", 0) for x in expr.walk(e)) and (expr.has_call(e, "get_hash_function_output_size") or expr.has_assoc(e, "OUTPUT_SIZE")):
                                    inloop = True
            # other whole definitions must be hash outputs
            redefs = [d for d in W.defs_of(v) if not W.blocks[d[0]]["cleanup"] and not (d[1] == "term" and core.strip_generics(core.callee_path(d[2]) or "").rsplit("::", 1)[-1] in ("new", "from_array_len"))]
            red_ok = True
            for b, i, d in redefs:
                o = flow.origin(W, d["rv"]["op"]) if i != "term" and d["k"] == "assign" and d["rv"]["k"] == "use" else (("call", b, d) if i == "term" else ("?",))
                red_ok = red_ok and o[0] == "call" and (flow.decl_path(o[2]) or "").endswith("finalize")
            vok = (len(pushes) == 1 and not others and inloop and red_ok) if v not in sized else (sized[v] and not pushes and not others and red_ok)
            ok = ok and vok
            detail.append("_%d: one push per iteration of 0..output size: %s, no other growth: %s, re-definitions are hash outputs: %s" % (v, inloop and len(pushes) == 1, not others, red_ok))
        return (ok, "%s: %s" % (W.path, "; ".join(detail)))

    def r_fv_results_only_from_workers(self):
        EV, IN, W, O = self.fv_anchors()
        sends = []
        for p, f in self.F.fns.items():
            for b, t in f.calls():
                if core.strip_generics(core.callee_path(t) or "").endswith("Sender::send") and not f.blocks[b]["cleanup"]:
                    sends.append((f, b, t))
        if not sends:
            return (False, "no channel send found")
        ok = True
        for f, b, t in sends:
            o = flow.origin(f, t["args"][1])
            ok = ok and o[0] == "call" and self.F.call_targets(f, o[2]) == [W.path]
        # the drain copies element .1 of the received tuple into the randomizer parameter
        return (ok, "every value sent on the channel (%d site(s)) is the return value of %s" % (len(sends), W.path))

    def r_fv_message_none_in_live_contexts(self):
        EV, IN, W, O = self.fv_anchors()
        mp = [i for i, t in enumerate(O.j["inputs"]) if t.get("path") == flow.OPTION and core.is_u8_slice_ref(t["args"][0])]
        if len(mp) != 1:
            raise AnchorLost("optional message parameter of %s" % O.path)
        ctxs = [(O.path, c) for c in self.an.ctx_log.get(O.path, ())]
        bad = []
        for k in ctxs:
            sub = dict(k[1][-1]) if k[1] and isinstance(k[1][-1], tuple) and k[1][-1] and isinstance(k[1][-1][0], tuple) else {}
            okv = sub.get((mp[0] + 1, ("#ok",)))
            if okv != (0, 0):
                bad.append(okv)
        return (bool(ctxs) and not bad, "the optimiser is analysed in %d context(s), all with message = None (others: %s)" % (len(ctxs), bad[:3]))

    def r_fv_trailer_len_is_output_size(self):
        """Every caller hands the optimiser, as the buffer to fill, the suffix of `split_at_mut(len - H::OUTPUT_SIZE)`
        or a randomizer vector that holds a hash output."""
        from .c15 import split_component
        EV, IN, W, O = self.fv_anchors()
        rp = [i for i, t in enumerate(O.j["inputs"]) if t.get("k") == "ref" and t.get("mut") and t["ty"].get("k") == "slice"]
        if len(rp) != 1:
            raise AnchorLost("buffer parameter of %s" % O.path)
        kinds = []
        for cp, b, k in self.F.callers_of(O.path):
            if k != "call":
                continue
            g = self.F.fns[cp]
            t = g.blocks[b]["term"]
            a = t["args"][rp[0]]
            sp = split_component(g, a, ("deref_mut", "as_mut"))
            if sp is not None and sp[1] == 1:
                e = expr.Expr(self.F, g).of_operand(sp[0]["args"][1])
                if e[0] == "bin" and e[1] == "Sub" and expr.has_call(e[2], "::len") and expr.has_assoc(e[3], "OUTPUT_SIZE"):
                    kinds.append("suffix")
                    continue
            o = flow.resolve_owner(g, a, want_mut=True)
            if o is not None and "ArrayVec<[u8;" in g.locals[o]["ty"]["s"] and self.check("randomizer-is-hash-output")[0]:
                kinds.append("randomizer")
                continue
            kinds.append("?")
        return ("suffix" in kinds and "?" not in kinds, "buffers handed to the optimiser: %s" % kinds)

    def r_fv_scope_and_channel(self):
        EV, IN, W, O = self.fv_anchors()
        scope_b = [b for b, t in O.calls() if core.strip_generics(core.callee_path(t) or "").endswith("::scope") and not O.blocks[b]["cleanup"]]
        if len(scope_b) != 1:
            return (False, "scope calls in %s: %d" % (O.path, len(scope_b)))
        sb = scope_b[0]
        # the receiver is neither dropped nor moved before the scope call has returned
        recv = [l for l, d in enumerate(O.locals) if d["ty"].get("k") == "adt" and d["ty"].get("path", "").endswith("channel::Receiver")]
        early = []
        for l in recv:
            for b, t in O.iter_terms():
                if O.blocks[b]["cleanup"]:
                    continue
                if t["k"] == "drop" and t["place"]["local"] == l and not O.dominates(sb, b):
                    early.append(l)
        return (bool(recv) and not early, "receiver(s) %s stay alive until the scoped threads have been joined (so send cannot fail): %s" % (recv, not early))

    # ------------------------------------------------------------------ guard facts
    def r_GF_LEVEL(self):
        from . import c02
        an = c02.Anchors(self.F, self.A)
        hv = an.hss_verify
        g = gf.find_guards(hv, lambda d: c02.has_fields(d, (an.T_sig, c02.FIELDS["sig.level"]), (an.T_pk, c02.FIELDS["pk.level"])), [b for b, t in an.lms_calls])
        return (len(g) >= 1, "level comparison guards in %s: %d" % (hv.path, len(g)))

    def r_GF_LEAF(self):
        from . import c02
        n = c02.leaf_guard_count(self.F, self.A)
        return (n >= 1, "leaf-range guards (parser + candidate generator): %d" % n)

    def sig_parser(self):
        from . import c02
        return c02.Anchors(self.F, self.A).sig_parser

    def r_GF_NSPK(self):
        f = self.sig_parser()
        pushes = [b for b, t in f.calls() if core.strip_generics(core.callee_path(t) or "") == "tinyvec::arrayvec::ArrayVec::push" and not f.blocks[b]["cleanup"]]

        def dep(d):
            cal = gf.dep_callees(d)
            return any(c.endswith("::capacity") for c in cal) and any("from_be_bytes" in c for c in cal) and any(r["op"] in ("Lt", "Le", "Gt", "Ge") for r in d["binops"])
        g = gf.find_guards(f, dep, pushes)
        self.nspk_bounds = []
        caps0 = {ia.type_cap((core.op_place(f.blocks[b]["term"]["args"][0]) or {}).get("ty", "")) for b in pushes}
        cap0 = min(c for c in caps0 if c is not None) if caps0 and None not in caps0 else None
        for gd in g:
            # largest level count the capacity-form guard lets through (for C02's completeness clause)
            t = f.blocks[gd.block]["term"]
            dl = core.op_local(t.get("discr")) if t.get("discr") else None
            ds = [d for d in f.defs_of(dl) if not f.blocks[d[0]]["cleanup"]] if dl is not None else []
            if len(ds) != 1 or ds[0][1] == "term" or ds[0][2]["rv"]["k"] != "binop" or cap0 is None:
                continue
            rv = ds[0][2]["rv"]

            def is_cap(o):
                l = core.op_local(o)
                if l is None:
                    return False
                return any(d[1] == "term" and (core.callee_path(d[2]) or "").endswith("::capacity") for d in f.defs_of(l))
            sa, sb = is_cap(rv["a"]), is_cap(rv["b"])
            if sa == sb:
                continue
            op = rv["op"] if sb else {"Lt": "Gt", "Le": "Ge", "Gt": "Lt", "Ge": "Le"}.get(rv["op"])
            truth = set()
            for v, tg in t["targets"]:
                if tg in gd.pass_targets:
                    truth.add(bool(v))
            if t.get("otherwise") in gd.pass_targets:
                listed = {v for v, _ in t["targets"]}
                truth.add(True if listed == {0} else (False if listed == {1} else None))
            if len(truth) != 1 or None in truth:
                continue
            bound = {("Gt", False): cap0, ("Ge", False): cap0 - 1, ("Le", True): cap0, ("Lt", True): cap0 - 1}.get((op, truth.pop()))
            if bound is not None:
                self.nspk_bounds.append((bound, cap0))
        if not g and pushes:
            # the same test written against a constant that does not exceed the container's capacity
            caps = {ia.type_cap((core.op_place(f.blocks[b]["term"]["args"][0]) or {}).get("ty", "")) for b in pushes}
            cap = min(c for c in caps if c is not None) if caps and None not in caps else None

            def dep2(d):
                return any("from_be_bytes" in c for c in gf.dep_callees(d)) and any(r["op"] in ("Lt", "Le", "Gt", "Ge") for r in d["binops"])
            for gd in gf.find_guards(f, dep2, pushes) if cap is not None else []:
                t = f.blocks[gd.block]["term"]
                dl = core.op_local(t["discr"])
                ds = [d for d in f.defs_of(dl) if not f.blocks[d[0]]["cleanup"]] if dl is not None else []
                if len(ds) != 1 or ds[0][1] == "term" or ds[0][2]["rv"]["k"] != "binop":
                    continue
                rv = ds[0][2]["rv"]
                from . import hl as _hl
                _ex = expr.Expr(self.F, f)

                def cval(o):
                    v = core.op_const_val(o)
                    return v if v is not None else _hl.fold_const(_ex.of_operand(o))
                ca, cb_ = cval(rv["a"]), cval(rv["b"])
                if (ca is None) == (cb_ is None):
                    continue
                c = cb_ if cb_ is not None else ca
                op = rv["op"] if cb_ is not None else {"Lt": "Gt", "Le": "Ge", "Gt": "Lt", "Ge": "Le"}[rv["op"]]
                # value of the comparison on the passing edges
                truth = set()
                for v, tg in t["targets"]:
                    if tg in gd.pass_targets:
                        truth.add(bool(v))
                if t.get("otherwise") in gd.pass_targets:
                    listed = {v for v, _ in t["targets"]}
                    truth.add(True if listed == {0} else (False if listed == {1} else None))
                if len(truth) != 1 or None in truth:
                    continue
                tv = truth.pop()
                # largest level count that passes
                bound = {("Gt", False): c, ("Ge", False): c - 1, ("Le", True): c, ("Lt", True): c - 1}.get((op, tv))
                if bound is not None and bound <= cap:
                    g = [gd]
                    self.nspk_bounds.append((bound, cap))
        return (len(g) >= 1 and bool(pushes), "level count compared with the container capacity before the push loop in %s: %d" % (f.path, len(g)))

    def key_parser(self):
        from . import c16, zz
        wr, leaves, S = zz.secret_sets(self.F, self.A)
        K, wipe = c16.find_wipe(self.F, self.A, S)
        for f in self.F.fns.values():
            out = f.j.get("output", {})
            ins = f.j.get("inputs", [])
            if out.get("path") == flow.RESULT and out["args"][0].get("path") == K and len(ins) == 1 and core.is_u8_slice_ref(ins[0]):
                return f
        raise AnchorLost("private-key parser")

    def r_GF_KEYLEN(self):
        f = self.key_parser()
        reads = [b for b, t in f.calls() if not f.blocks[b]["cleanup"] and self.F.call_targets(f, t) and
                 self.F.fns[self.F.call_targets(f, t)[0]].j.get("output", {}).get("path") == flow.OPTION]

        def dep(d):
            lens = [t for b, t in d["calls"] if core.strip_generics(core.callee_path(t) or "") == "core::slice::len"]
            return any(flow.origin(f, t["args"][0]) == ("arg", 1) for t in lens) and any(r["op"] in ("Eq", "Ne") for r in d["binops"])
        g = gf.find_guards(f, dep, reads)
        return (len(g) >= 1 and bool(reads), "exact key-length test guards %d reads in %s: %d" % (len(reads), f.path, len(g)))

    def r_GF_PARAMS_VALID(self):
        news = [f for f in self.F.fns.values() if f.j.get("name") == "new" and f.j.get("impl", {}).get("self_ty", {}).get("path", "").endswith("HssParameter")]
        if len(news) != 1:
            raise AnchorLost("HssParameter::new")
        new = news[0]
        oks, n = [], 0
        for caller, b, k in self.F.callers_of(new.path):
            if k != "call":
                continue
            f = self.F.fns[caller]
            # callers with constant variants (construct_default_parameters / Default) are fine if the variant has a row
            t = f.blocks[b]["term"]
            if all(a["k"] == "const" or const_variant(f, a) for a in t["args"]):
                continue
            n += 1

            def dep(d):
                cal = gf.dep_callees(d)
                return any(c.endswith("construct_parameter") for c in cal) and any(c.endswith("is_none") or c.endswith("is_some") for c in cal)
            g = gf.find_guards(f, dep, [b])
            oks.append(len(g) >= 2 or (len(g) >= 1 and two_params_tested(f, g)))
        return (bool(oks) and all(oks), "decoder call sites of HssParameter::new guarded by construct_parameter().is_none() tests: %s of %d" % (oks, n))

    def r_GF_OTS_RANGE(self):
        from . import c03
        return c03.ots_range_guard(self.F, self.A)

    def r_GF_SIGNED_ONCE(self):
        from . import c03
        return c03.signed_once_guard(self.F, self.A)

    # ------------------------------------------------------------------ structural facts
    def r_default_variant_has_row(self):
        F, an, A = self.F, self.an, self.A
        res = []
        for en, adt in (("LmotsAlgorithm", "LmotsParameter"), ("LmsAlgorithm", "LmsParameter")):
            f, padt, order, rows = pt.constructor_table(F, an, A.type_path(en))
            have = {r["variant"] for r in rows.values() if r["call"]}
            for g in F.fns.values():
                im = g.j.get("impl")
                if im and im.get("trait") == "core::default::Default" and im["self_ty"].get("path") == padt:
                    v = None
                    for b, t in g.calls():
                        if F.call_targets(g, t) == [f.path]:
                            v = pt.first_variant(g, 0, A.type_path(en))
                    res.append(v in have)
        return (bool(res) and all(res), "Default impls of the parameter structs use variants with a table row: %s" % res)

    def r_read_checked(self):
        f = self.fn("util::helper::read")
        r = self.an.call_local(f.path, [None, (7, 7), None])
        ok = r.get(("@Some", "0", "#len")) == (7, 7)
        # and the function has no panic-capable site of its own
        return (ok, "read(src, length, index) yields exactly `length` bytes through slice::get(index..index.checked_add(length)?) : %s" % (r,))

    def r_advance_after_read(self):
        f = self.fn("util::helper::read_and_advance")
        rd = [(b, t) for b, t in f.calls() if self.F.call_targets(f, t) == [self.fn("util::helper::read").path]]
        if len(rd) != 1:
            return (False, "read_and_advance does not call read exactly once")
        b, t = rd[0]
        passthru = [flow.origin(f, a) for a in t["args"]] == [("arg", 1), ("arg", 2), ("arg", 3)]
        cs = flow.result_checks(f, t["dest"]["local"])
        adds = [bb for bb, tt in f.iter_terms() if tt["k"] == "assert" and tt["msg"]["kind"] == "Overflow" and not f.blocks[bb]["cleanup"]]
        dom = bool(cs) and all(any(flow.edge_dominates(f, c.block, tg, a) or tg == a for c in cs for tg in c.ok_targets) for a in adds)
        return (passthru and dom and len(adds) == 1, "cursor advanced only on the Some edge of read(src, length, index) with the same operands: passthrough=%s dominated=%s" % (passthru, dom))

    def r_tail_parse(self, fkey):
        f = self.fn(fkey)
        ex = expr.Expr(self.F, f, inline_getters=False)
        n, ok = 0, True
        for b, t in f.calls():
            tps = self.F.call_targets(f, t)
            if not tps or f.blocks[b]["cleanup"]:
                continue
            g = self.F.fns[tps[0]]
            out = g.j.get("output", {})
            if out.get("path") == flow.OPTION and out["args"][0].get("crate") == core.LOCAL_CRATE and len(g.j.get("inputs", [])) == 1 and core.is_u8_slice_ref(g.j["inputs"][0]):
                n += 1
                e = ex.of_operand(t["args"][0])
                tail = any(x[0] == "call" and x[1] in ("core::slice::get",) and x[2][0] == ("arg", 1) and any(y[0] == "adt" and y[1] == "core::ops::range::RangeFrom" for y in expr.walk(x)) for x in expr.walk(e))
                ok = ok and tail
        return (ok and n >= 1, "%d sub-parsers in %s all parse `data.get(cursor..)?`" % (n, f.path))

    def r_cursor_only_advanced_by_reads(self, fkey):
        f = self.fn(fkey)
        ra = self.fn("util::helper::read_and_advance").path
        cursors = set()
        for b, t in f.calls():
            if self.F.call_targets(f, t) == [ra]:
                o = flow.resolve_owner(f, t["args"][2], want_mut=True)
                cursors.add(o)
        ok = len(cursors) == 1 and None not in cursors
        if ok:
            c = next(iter(cursors))
            defs = [d for d in f.defs_of(c) if not f.blocks[d[0]]["cleanup"]]
            ok = all(d[1] != "term" and d[2]["k"] == "assign" and d[2]["rv"]["k"] == "use" and core.op_const_val(d[2]["rv"]["op"]) == 0 for d in defs)
            sinks = set(flow.ref_sinks(f, c))
            ok = ok and sinks <= {core.strip_generics(ra)}
        return (ok, "the cursor of %s starts at 0 and is only handed to read_and_advance" % f.path)

    def r_nspk_pushes_some_per_level(self):
        f = self.sig_parser()
        ex = expr.Expr(self.F, f)
        pushes = [(b, t) for b, t in f.calls() if core.strip_generics(core.callee_path(t) or "") == "tinyvec::arrayvec::ArrayVec::push" and not f.blocks[b]["cleanup"]]
        if len(pushes) != 1:
            return (False, "expected one push in %s" % f.path)
        b, t = pushes[0]
        e = ex.of_operand(t["args"][1])
        some = e[0] == "adt" and e[1] == flow.OPTION and e[2] == "Some"
        inloop = f.in_cycle(b)
        # loop range 0..level and the level field is that same value
        loops = [(h, body) for h, body in f.natural_loops() if b in body]
        lvl_ok = False
        for bb, tt in f.calls():
            if (core.callee_path(tt) or "").endswith("::next") and loops and bb in loops[0][1]:
                ie = ex.of_operand(tt["args"][0])
                rng = [x for x in expr.walk(ie) if x[0] == "adt" and x[1] == "core::ops::range::Range"]
                if rng and rng[0][3][0] == ("const", 0):
                    end = rng[0][3][1]
                    # the struct literal's `level` operand is the same expression
                    for _, _, s in f.iter_stmts():
                        if s["k"] == "assign" and s["rv"]["k"] == "aggregate" and s["rv"].get("agg") == "adt" and "level" in s["rv"].get("fields", []):
                            le = ex.of_operand(s["rv"]["ops"][s["rv"]["fields"].index("level")])
                            lvl_ok = le == end
        how = "for 0..level"
        if not lvl_ok and loops:
            # the same count written as `while vec.len() < level { .. push(Some(..)) }`: at the loop exit len >= level, and the
            # only growth is this push, taken only while len < level: len == level
            own = flow.resolve_owner(f, t["args"][0], want_mut=True)
            level_e = None
            for _, _, s in f.iter_stmts():
                if s["k"] == "assign" and s["rv"]["k"] == "aggregate" and s["rv"].get("agg") == "adt" and "level" in s["rv"].get("fields", []):
                    level_e = ex.of_operand(s["rv"]["ops"][s["rv"]["fields"].index("level")])
            body = loops[0][1]
            for sb, st in f.iter_terms():
                if st["k"] != "switch" or sb not in body:
                    continue
                l = core.op_local(st["discr"])
                ds = f.defs_of(l) if l is not None else []
                if len(ds) != 1 or ds[0][1] == "term" or ds[0][2]["rv"]["k"] != "binop":
                    continue
                rv = ds[0][2]["rv"]
                if rv["op"] != "Lt":
                    continue
                ao = flow.origin(f, rv["a"])
                a_is_len = ao[0] == "call" and core.strip_generics(core.callee_path(ao[2]) or "").endswith("ArrayVec::len") and flow.resolve_owner(f, ao[2]["args"][0]) == own
                b_is_level = level_e is not None and ex.of_operand(rv["b"]) == level_e
                exits = [tg for v, tg in st["targets"] if v == 0]
                stays = st.get("otherwise")
                if a_is_len and b_is_level and exits and exits[0] not in body and stays in body and f.dominates(sb, b):
                    # no other way out of the loop into the Some-return than through this exit
                    lvl_ok = True
                    how = "while len < level"
        return (some and inloop and lvl_ok, "parser pushes Some(..) once per iteration (%s) and stores that level: some=%s loop=%s level=%s" % (how, some, inloop, lvl_ok))

    def r_chain_array_one_selected(self):
        news = [f for f in self.F.fns.values() if f.j.get("name") == "new" and f.j.get("impl", {}).get("self_ty", {}).get("path") == "lm_ots::verify::HashChainArray"]
        if len(news) != 1:
            raise AnchorLost("HashChainArray::new")
        f = news[0]
        blocks = set()
        for b, i, s in f.iter_stmts():
            if s["k"] == "assign" and s["place"]["proj"] and s["place"]["proj"][-1]["k"] == "field" and str(s["place"]["proj"][-1].get("name", "")).startswith("array_w") \
                    and not f.blocks[b]["cleanup"]:
                e = expr.Expr(self.F, f).of_rvalue(s["rv"], 0)
                if e[0] == "adt" and e[1] == flow.OPTION and e[2] == "Some":
                    blocks.add(b)
        reach = f.reachable_blocks(0, avoid=blocks)
        rets = [r for r in f.return_blocks() if r in reach]
        # HashChainArray literals only in new / Default
        lits = {g.path for g in self.F.fns.values() for _, _, s in g.iter_stmts()
                if s["k"] == "assign" and s["rv"]["k"] == "aggregate" and s["rv"].get("path") == "lm_ots::verify::HashChainArray"}
        only = all("Default" in p or p == f.path for p in lits)
        return (len(blocks) >= 4 and not rets and only, "every path of HashChainArray::new sets one array (%d arms); literals only in Default: %s" % (len(blocks), only))

    def candidate(self):
        from . import c02
        return c02.Anchors(self.F, self.A).cand_fn

    def r_node_number_below_2_pow_h_plus_1(self):
        """Numeric threshold of the leaf-range guard(s), decided by interval analysis once per LMS row:
        with tree_height = h the first node number `2^h + q` computed by the candidate generator is < 2^(h+1),
        so the halving loop makes at most h rounds and get_path is asked for i < h."""
        f = self.candidate()
        an = self.an
        adt = "lms::parameters::LmsParameter"
        res = []
        for h in self.heights():
            with pt.bind_assoc(an, {(adt, "tree_height"): (h, h)}):
                saved = dict(an.field_sets)
                an.field_sets = {}
                fs = an._field_sets()
                fs[(adt, "tree_height")] = (h, h)
                an.field_sets = fs
                an.memo, an.ctx_count, an.add_obs = {}, {}, {}
                an.call_local(f.path, [None] * f.arg_count)
                worst = None
                for (fp, b), (a, bb) in an.add_obs.items():
                    if fp == f.path and a is not None and bb is not None:
                        t = f.blocks[b]["term"]
                        d = core.operand_deps(f, t["msg"]["a"])
                        d2 = core.operand_deps(f, t["msg"]["b"])
                        names = {n for _, n in d["fields"] | d2["fields"]}
                        if "lms_leaf_identifier" in names:
                            worst = a[1] + bb[1]
                an.field_sets = saved
                an.memo, an.ctx_count = {}, {}
            res.append((h, worst))
        ok = bool(res) and all(w is not None and w <= 2 ** (h + 1) - 1 for h, w in res)
        return (ok, "max first node number per height (must be < 2^(h+1)): %s" % res)

    def r_path_walk_halves(self):
        from . import pf
        f = self.candidate()
        gp = [b for b, t in f.calls() if (core.callee_path(t) or "").endswith("::get_path") and not f.blocks[b]["cleanup"]]
        ok = bool(gp)
        for comp in f.sccs():
            if any(b in comp for b in gp):
                d = pf.loop_driver(self.F, f, comp)
                ok = ok and d is not None and d.startswith("measure")
        allin = all(f.in_cycle(b) for b in gp)
        return (ok and allin, "the authentication-path reads sit in a loop whose measure (node number) is halved every round")

    def r_auth_path_width(self):
        f = None
        for g in self.F.fns.values():
            out = g.j.get("output", {})
            if out.get("path") == flow.OPTION and out["args"][0].get("path") == "lms::signing::InMemoryLmsSignature" and len(g.j.get("inputs", [])) == 1:
                f = g
        if f is None:
            raise AnchorLost("LMS signature parser")
        ex = expr.Expr(self.F, f)
        for _, _, s in f.iter_stmts():
            if s["k"] == "assign" and s["rv"]["k"] == "aggregate" and "authentication_path" in s["rv"].get("fields", []):
                e = ex.of_operand(s["rv"]["ops"][s["rv"]["fields"].index("authentication_path")])
                w = [x for x in expr.walk(e) if x[0] == "bin" and x[1] == "Mul" and (expr.has_assoc(x, "OUTPUT_SIZE")) and expr.has_field(x, "tree_height")]
                rd = expr.has_call(e, "read_and_advance")
                return (bool(w) and rd, "authentication_path is one checked read of OUTPUT_SIZE * tree_height bytes")
        return (False, "no struct literal with authentication_path")

    def r_digit_callers_bounded(self):
        from . import c12
        coef, helper = c12.find_digit_fns(self.F)
        ok, n = True, 0
        for caller, b, k in self.F.callers_of(coef.path):
            if k != "call":
                continue
            f = self.F.fns[caller]
            ex = expr.Expr(self.F, f)
            t = f.blocks[b]["term"]
            ie = ex.of_operand(t["args"][1])
            n += 1
            rng = [x for x in expr.walk(ie) if x[0] == "adt" and x[1] == "core::ops::range::Range"]
            good = False
            if rng:
                end = rng[0][3][1]
                good = rng[0][3][0] == ("const", 0) and (expr.has_field(end, "hash_chain_count") or (expr.has_field(end, "winternitz") and (expr.has_assoc(end, "OUTPUT_SIZE"))))
            elif ie[0] == "arg":
                # closure / helper parameter: its callers are the adaptor of a 0..p range (checked through the closure's parent)
                parent = f.j.get("parent_fn")
                if parent:
                    pf_ = self.F.fns[parent]
                    pe = [expr.Expr(self.F, pf_).of_operand(a) for bb, tt in pf_.calls() for a in tt["args"][:1] if (core.callee_path(tt) or "").endswith("::fold")]
                    good = any(expr.has_field(x, "hash_chain_count") for x in pe)
            ok = ok and good
        return (ok and n >= 3, "all %d digit-function call sites take i from 0..p or 0..8n/w" % n)

    def closure_item_source(self, cf):
        """Expression (in the enclosing function) of the iterator a closure is handed to together with (map / for_each / ...)."""
        parent = self.F.fns.get(cf.j.get("parent_fn")) or self.F.fns.get(cf.path.rsplit("::{closure", 1)[0])
        if parent is None:
            return None
        ex = expr.Expr(self.F, parent)
        for b, t in parent.calls():
            if parent.blocks[b]["cleanup"] or len(t["args"]) < 2:
                continue
            for a in t["args"][1:]:
                p = core.op_place(a)
                if p is not None and not p["proj"] and parent.locals[p["local"]]["ty"].get("k") == "closure" and parent.locals[p["local"]]["ty"].get("path") == cf.path:
                    return ex.of_operand(t["args"][0])
        return None

    def r_ots_key_index_callers(self):
        idx = [f for f in self.F.fns.values() if f.j.get("impl", {}).get("trait") == "core::ops::index::Index" and f.j["impl"]["self_ty"].get("path") == "util::ArrayVecZeroize"]
        if len(idx) != 1:
            raise AnchorLost("ArrayVecZeroize::index")
        ok, n = True, 0
        for caller, b, k in self.F.callers_of(idx[0].path):
            if k != "call":
                continue
            f = self.F.fns[caller]
            ex = expr.Expr(self.F, f)
            t = f.blocks[b]["term"]
            be, ie = ex.of_operand(t["args"][0]), ex.of_operand(t["args"][1])
            n += 1
            rng = [x for x in expr.walk(ie) if x[0] == "adt" and x[1] == "core::ops::range::Range"]
            if not rng and "{closure" in f.path and any(x[0] == "arg" and x[1] >= 2 for x in expr.walk(ie)):
                # the index is the item parameter of a closure: the range is the iterator the closure is mapped over
                src = self.closure_item_source(f)
                rng = [x for x in expr.walk(src) if x[0] == "adt" and x[1] == "core::ops::range::Range"] if src is not None else []
            ok = ok and bool(rng) and expr.has_field(rng[0][3][1], "hash_chain_count") and expr.has_field(be, "key")
        return (ok and n >= 1, "%d uses of the one-time key vector index with i in 0..p" % n)

    def r_nodes_are_hash_outputs(self):
        f = self.fn("lm_ots::keygen::generate_private_key")
        pushes = [(b, t) for b, t in f.calls() if core.strip_generics(core.callee_path(t) or "") == "tinyvec::arrayvec::ArrayVec::push" and not f.blocks[b]["cleanup"]]
        ok = len(pushes) == 1
        how = "push"
        if ok:
            o = flow.origin(f, pushes[0][1]["args"][1])
            ok = o[0] == "call" and (core.callee_of(o[2]) or {}).get("method") in ("finalize_reset", "finalize")
        elif not pushes:
            # the same vector built by `(0..p).map(|i| .. finalize ..).collect()`: every closure of this function that is handed
            # to `map` returns a finalize output
            how = "map + collect"
            cls = [self.F.fns[c] for c in self.F._closures.get(f.path, [])]
            colls = [t for b, t in f.calls() if core.strip_generics(core.callee_path(t) or "").endswith("Iterator::collect") and not f.blocks[b]["cleanup"]]
            rets = []
            for c in cls:
                o = flow.origin(c, {"k": "copy", "place": {"local": 0, "proj": [], "ty": ""}})
                if o[0] == "local":
                    ds = [d for d in c.defs_of(0) if not c.blocks[d[0]]["cleanup"]]
                    o = ("call", ds[0][0], ds[0][2]) if len(ds) == 1 and ds[0][1] == "term" else o
                rets.append(o[0] == "call" and (core.callee_of(o[2]) or {}).get("method") in ("finalize_reset", "finalize"))
            ok = len(colls) == 1 and len(cls) == 1 and all(rets)
        return (ok, "one-time key nodes are finalize outputs (length OUTPUT_SIZE) [%s]" % how)

    def r_randomizer_is_hash_output(self):
        g = self.fn("hss::reference_impl_private_key::generate_signature_randomizer")
        o = [flow.origin(g, {"k": "copy", "place": {"local": 0, "proj": [], "ty": ""}})]
        rets = [t for b, t in g.calls() if t["dest"]["local"] == 0 and not g.blocks[b]["cleanup"]]
        ok = len(rets) == 1 and (core.callee_path(rets[0]) or "").endswith("seed_derive")
        lits = [f.path for f in self.F.fns.values() for _, _, s in f.iter_stmts()
                if s["k"] == "assign" and s["rv"]["k"] == "aggregate" and s["rv"].get("path") == "lm_ots::signing::LmotsSignature" and not f.j.get("impl", {}).get("trait")]
        return (ok and len(lits) == 1, "the randomizer is a seed_derive (hash) output; LmotsSignature is built in one place: %s" % lits)

    def r_serialiser_length_constant(self):
        f = None
        for g in self.F.fns.values():
            if g.j.get("name") == "to_binary_representation" and g.j.get("impl", {}).get("self_ty", {}).get("path", "").endswith("ReferenceImplPrivateKey"):
                f = g
        if f is None:
            raise AnchorLost("key serialiser")
        tr = pt.hash_trait(self.F)
        res = []
        for n in (16, 24, 32):
            with pt.bind_assoc(self.an, {tr + "::OUTPUT_SIZE": (n, n)}):
                r = self.an.call_local(f.path, [None], {(1, ("seed", "data", "0", "#len")): (32, 32)})
                res.append(r.get(("#len",)))
        ok = all(r is not None and r[0] == r[1] == 16 + n for r, n in zip(res, (16, 24, 32)))
        return (ok, "serialised key length is exactly 16+n: %s" % res)

    def r_seed_constructors(self):
        lits = []
        for f in self.F.fns.values():
            for _, _, s in f.iter_stmts():
                if s["k"] == "assign" and s["rv"]["k"] == "aggregate" and s["rv"].get("path") == "hss::reference_impl_private_key::Seed":
                    lits.append(f)
        ok = True
        for f in lits:
            tr = f.j.get("impl", {}).get("trait")
            if tr in ("core::default::Default", "core::clone::Clone", "core::convert::From"):
                continue
            if tr == "core::convert::TryFrom":
                # literal guarded by len == OUTPUT_SIZE
                ok = ok and any(t["k"] == "switch" and any(r["op"] in ("Eq", "Ne") for r in core.operand_deps(f, t["discr"])["binops"]) for b, t in f.iter_terms())
                continue
            ok = False
        return (ok and len(lits) >= 3, "Seed literals only in Default / From<[u8;32]> / TryFrom (length-checked) / Clone: %s" % [f.path for f in lits])

    def r_collect_capacity_equal(self, fkey):
        f = self.fn(fkey)
        for b, t in f.calls():
            if core.strip_generics(core.callee_path(t) or "").endswith("Iterator::collect"):
                dcap = ia.type_cap(t["dest"]["ty"])
                ex = expr.Expr(self.F, f)
                # source: iter() of a fixed-capacity vector field
                src_caps = []
                for bb, tt in f.calls():
                    if core.strip_generics(core.callee_path(tt) or "").endswith("::deref") and tt["args"]:
                        p = core.op_place(tt["args"][0])
                        if p:
                            c = ia.type_cap(p["ty"])
                            if c is not None:
                                src_caps.append(c)
                return (dcap is not None and bool(src_caps) and max(src_caps) <= dcap, "collect into capacity %s from a vector of capacity %s" % (dcap, src_caps))
        return (False, "no collect in %s" % fkey)

    def r_closure_arg_is_checked_shl_of_one(self):
        f = self.fn("hss::reference_impl_private_key::CompressedUsedLeafsIndexes::increment")
        for b, t in f.calls():
            if core.strip_generics(core.callee_path(t) or "").endswith("Option::map_or"):
                o = flow.origin(f, t["args"][0])
                ok = o[0] == "call" and (core.callee_path(o[2]) or "").endswith("checked_shl") and core.op_const_val(o[2]["args"][0]) == 1
                return (ok, "map_or receives 1u64.checked_shl(h)")
        return (False, "no map_or in the increment")

    def r_seed_derive_increment_once(self):
        ok, n = True, 0
        for f in self.F.fns.values():
            incs = 0
            for b, t in f.calls():
                p = core.strip_generics(core.callee_path(t) or "")
                if p.endswith("SeedDerive::seed_derive") and len(t["args"]) == 2:
                    v = core.op_const_val(t["args"][1])
                    if v is None:
                        ok = False
                    elif v == 1:
                        incs += 1
                        if f.in_cycle(b):
                            ok = False
            if incs:
                n += 1
                news = sum(1 for b, t in f.calls() if core.strip_generics(core.callee_path(t) or "").endswith("SeedDerive::new"))
                ok = ok and incs <= news
        return (ok and n >= 1, "each SeedDerive value is incremented at most once (%d users)" % n)

    def r_expansion_one_key_per_level(self):
        from . import c03
        return c03.expansion_shape(self.F, self.A)

    def r_leaf_digit_masked(self):
        from . import c03
        return c03.leaf_digit_masked(self.F, self.A)

    # ------------------------------------------------------------------ aux data
    def aux_fn(self, name):
        return self.fn("hss::aux::" + name)

    def r_aux_nonempty_guard(self):
        f = self.fn("hss::definitions::HssPrivateKey::get_expanded_aux_data")
        calls = [b for b, t in f.calls() if not f.blocks[b]["cleanup"] and self.F.call_targets(f, t)]

        def dep(d):
            return any(c.endswith("is_empty") or c.endswith("::len") for c in gf.dep_callees(d))
        g = gf.find_guards(f, dep, calls, require_error_exit=False)
        return (len(g) >= 1, "an emptiness test on the aux buffer precedes every helper call in %s" % f.path)

    def r_aux_len_le_input(self):
        f = self.aux_fn("hss_optimal_aux_level")
        ex = expr.Expr(self.F, f)
        # the running `max_length` only ever decreases: every redefinition is `max_length - x`
        ml = f.arg_local("max_length")
        if ml is None:
            return (False, "parameter max_length not found")
        ok = True
        for b, i, d in f.defs_of(ml):
            if f.blocks[b]["cleanup"] or i == "term":
                continue
            e = ex.of_rvalue(d["rv"], 0)
            ok = ok and e[0] == "bin" and e[1] == "Sub" and strip(e[2]) in (("arg", ml), ("var", ml))
        # actual_len = orig - max_length
        stores = [s for _, _, s in f.iter_stmts() if s["k"] == "assign" and s["place"]["proj"] and s["place"]["proj"][0]["k"] == "deref"]
        good = 0
        for s in stores:
            e = ex.of_rvalue(s["rv"], 0)
            if e == ("const", 1) or (e[0] == "bin" and e[1] == "Sub"):
                good += 1
        return (ok and good == len(stores) and good >= 1, "the reported length is 1 or orig_len - remaining, and the remaining length only decreases")

    def r_aux_store_after_shrink(self):
        f = self.aux_fn("hss_store_aux_marker")
        callers = [(c, b) for c, b, k in self.F.callers_of(f.path) if k == "call"]
        ok = len(callers) == 1 and callers[0][0].endswith("get_expanded_aux_data")
        return (ok, "hss_store_aux_marker is called only from get_expanded_aux_data: %s" % [c for c, b in callers])

    def r_aux_optimal_guards(self):
        f = self.aux_fn("hss_optimal_aux_level")
        subs = [b for b, t in f.iter_terms() if t["k"] == "assert" and t["msg"]["kind"] == "Overflow" and t["msg"].get("op") == "Sub" and not f.blocks[b]["cleanup"]]
        ok = True
        for b in subs:
            # dominated by a switch on an ordering comparison that depends on max_length
            found = False
            for sb, t in f.iter_terms():
                if t["k"] == "switch" and f.dominates(sb, b) and sb != b:
                    d = core.operand_deps(f, t["discr"])
                    if any(r["op"] in ("Lt", "Le", "Gt", "Ge") for r in d["binops"]) and (f.arg_local("max_length") in d["locals"]):
                        found = True
            ok = ok and found
        return (ok and len(subs) >= 1, "%d subtractions each dominated by an ordering test on max_length" % len(subs))

    def r_aux_expand_length_guard(self):
        f = self.aux_fn("hss_expand_aux_data")
        splits = [b for b, t in f.calls() if core.strip_generics(core.callee_path(t) or "") == "core::slice::split_at" and not f.blocks[b]["cleanup"]]

        def dep(d):
            cal = gf.dep_callees(d)
            return any(c == "core::slice::len" for c in cal) and any(r["op"] in ("Lt", "Le", "Gt", "Ge") for r in d["binops"])
        g = gf.find_guards(f, dep, splits, require_error_exit=False)
        # the guarded quantity must be the very value the buffer is split at (not a part of it)
        from . import expr as _expr
        ex = _expr.Expr(self.F, f)
        same = False
        for gd in g:
            for r in gd.deps["binops"]:
                if r["op"] not in ("Lt", "Le", "Gt", "Ge"):
                    continue
                sides = [ex.of_operand(r["a"]), ex.of_operand(r["b"])]
                for b in splits:
                    at = ex.of_operand(f.blocks[b]["term"]["args"][1])
                    if at in sides:
                        same = True
        return (len(g) >= 1 and bool(splits) and same,
                "the MAC split is guarded by a comparison of the buffer length with the split position itself (guards: %d, same value: %s)" % (len(g), same))

    def r_aux_word_only_for_nonzero_level(self):
        """In the marker writer every multi-byte access of the buffer (range index, copy) is reached only through the edge of a
        test of the level word that excludes 0: for level 0 the freshly shrunk buffer may be a single byte."""
        f = self.aux_fn("hss_store_aux_marker")
        lvl = 2
        wide = [b for b, t in f.calls() if not f.blocks[b]["cleanup"] and core.strip_generics(core.callee_path(t) or "").rsplit("::", 1)[-1] in ("index_mut", "index", "copy_from_slice", "split_at_mut", "split_at")]
        if not wide:
            return (True, "no multi-byte access in the marker writer")

        def dep(d):
            return lvl in d["args"] and any(r["op"] in ("Eq", "Ne", "Gt", "Ge", "Lt", "Le") for r in d["binops"])
        g = gf.find_guards(f, dep, wide, require_error_exit=False)
        # the guarding comparison must be against the constant 0 (== 0 / != 0 / > 0 / >= 1)
        okc = False
        for gd in g:
            for r in gd.deps["binops"]:
                cv = [core.op_const_val(r["a"]), core.op_const_val(r["b"])]
                if (r["op"] in ("Eq", "Ne", "Gt", "Lt") and 0 in cv) or (r["op"] in ("Ge", "Le") and 1 in cv):
                    okc = True
        if not (g and okc):
            # `match aux_level { 0 => .., _ => .. }`: a switch on the level word itself whose 0-edge cannot reach the wide accesses
            # and whose other edges are the only way to them
            for b, t in f.iter_terms():
                if t["k"] != "switch" or f.blocks[b]["cleanup"]:
                    continue
                o = flow.origin(f, t["discr"])
                if o != ("arg", lvl):
                    continue
                zero_t = [tg for v, tg in t["targets"] if v == 0]
                others = [tg for v, tg in t["targets"] if v != 0] + ([t["otherwise"]] if t.get("otherwise") is not None else [])
                if zero_t and not (flow.reach_from(f, zero_t[0]) & set(wide)) - set() and zero_t[0] not in wide and \
                        all(gf.paths_need_edges(f, b, others, w) for w in wide):
                    return (True, "%d multi-byte accesses in %s, reached only through the non-zero arms of a match on the level word" % (len(wide), f.path))
        return (bool(g) and okc, "%d multi-byte accesses in %s, guarded by a zero test of the level word: %s" % (len(wide), f.path, bool(g) and okc))

    def r_aux_fresh_level_from_optimal(self):
        f = self.fn("hss::definitions::HssPrivateKey::get_expanded_aux_data")
        st = self.aux_fn("hss_store_aux_marker").path
        op = self.aux_fn("hss_optimal_aux_level").path
        ok = False
        for b, t in f.calls():
            if self.F.call_targets(f, t) == [st]:
                o = flow.origin(f, t["args"][1])
                ok = o[0] == "call" and self.F.call_targets(f, o[2]) == [op]
        return (ok, "the level word stored in a fresh buffer is the result of hss_optimal_aux_level for the shrunk length")

    def r_aux_index_is_tree_node(self):
        ge = self.fn("lms::helper::get_tree_element")
        ok = True
        for nm in ("hss_extract_aux_data", "hss_save_aux_data"):
            f = self.aux_fn(nm)
            import re as _re
            callers = {_re.sub(r"(::\{closure#\d+\})+$", "", c) for c, b, k in self.F.callers_of(f.path) if k == "call"}   # a closure of the routine counts as the routine
            ok = ok and callers == {ge.path}
        # recursive calls use 2*index and 2*index+1; external callers pass 1 or a sibling index computed from 2^h + leaf
        ex = expr.Expr(self.F, ge)
        for b, t in ge.calls():
            if self.F.call_targets(ge, t) == [ge.path]:
                e = ex.of_operand(t["args"][0])
                good = any(x[0] == "bin" and x[1] == "Mul" and ("const", 2) in (x[2], x[3]) for x in expr.walk(e))
                ok = ok and good
        return (ok, "aux node accessors are called only from get_tree_element, whose recursion doubles the node index")

    def r_tree_recursion_bounded(self):
        ge = self.fn("lms::helper::get_tree_element")
        rec = [b for b, t in ge.calls() if self.F.call_targets(ge, t) == [ge.path] and not ge.blocks[b]["cleanup"]]
        if not rec:
            return (True, "no recursion")

        def dep(d):
            return 1 in d["args"] and any(r["op"] in ("Lt", "Le", "Gt", "Ge") for r in d["binops"]) and any("LmsParameter" in c for c in gf.dep_callees(d))
        g = gf.find_guards(ge, dep, rec, require_error_exit=False)
        ex = expr.Expr(self.F, ge)
        dbl = all(any(x[0] == "bin" and x[1] == "Mul" and ("const", 2) in (x[2], x[3]) for x in expr.walk(ex.of_operand(ge.blocks[b]["term"]["args"][0]))) for b in rec)
        return (len(g) >= 1 and dbl, "recursive calls only under index < 2^h and with 2*index(+1): depth <= h")

    def r_hmac_key_is_hash_output(self):
        sd = self.aux_fn("compute_seed_derive")
        rets = [t for b, t in sd.calls() if t["dest"]["local"] == 0 and not sd.blocks[b]["cleanup"]]
        ok = len(rets) == 1 and (core.callee_of(rets[0]) or {}).get("method") in ("finalize", "finalize_reset")
        return (ok, "the HMAC key is a finalize output (<= 32 bytes)")


def strip(e):
    while isinstance(e, tuple) and e and e[0] == "cast":
        e = e[1]
    return e


def const_variant(f, a):
    """Operand is a constant enum variant (aggregate with no operands) or a promoted reference to one."""
    o = flow.origin(f, a)
    if o[0] == "const":
        return True
    if o[0] == "local" and o[1] is not None:
        ds = f.defs_of(o[1])
        return bool(ds) and all(d[1] != "term" and d[2]["k"] == "assign" and d[2]["rv"]["k"] == "aggregate" and not d[2]["rv"]["ops"] for d in ds)
    return False


def two_params_tested(f, guards):
    return False
