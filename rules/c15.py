"""C15 - fast-verify signing (clause level; `fast_verify` build configurations).

Decided on the MIR of the fast_verify builds:
  M1  only the trailer is writable: the caller's `&mut [u8]` message is followed from `sign_mut` through every function
      that receives it (whole / prefix / suffix typestate across moves, reborrows, Option wrapping and calls); the only
      split is `split_at_mut(len - H::OUTPUT_SIZE)`; a value tagged whole or prefix is never stored through and never
      handed as `&mut` to anything that can write (only lengths, shared reborrows and the split itself)
  M2  refusals dominate the signing core: the too-short test (a comparison of len with H::OUTPUT_SIZE whose passing edge
      implies len >= n) and the zero-trailer test (`all(|b| b == 0)` over the *whole* suffix of `split_at(len - n)`) both lie
      on every path to the call of the signing core, their failing edges reach only error returns; hence (C04-R4) no leaf
      is consumed on refusal
  M3  single producer: sign_mut obtains its signature from the same signing core as sign (C04 covers that core in the
      fast_verify configuration)
  M4  the trailer is absorbed exactly once, after the search, by the caller: the searcher receives the message hasher by
      shared reference (it cannot advance it) and the suffix by `&mut`; the absorb order is randomizer, prefix, [search],
      suffix on one hasher
  M5  workers are joined before results are used: no detached `thread::spawn` below sign_mut; the scope call dominates
      the drain of the channel; every Sender local is dropped or moved before the drain (otherwise the drain never ends)
      senders never block: the channel drained after the join is unbounded, or bounded by the named worker count
  M6  the panic-freedom engine from `sign_mut` (all hash sizes x all LM-OTS rows): every site in the fast-verify code is
      discharged - interval analysis, budgets, and reviewed obligations tied to table facts (digit index / shift / checksum
      position per (n, w) row)
Not decided: that the chosen randomizer yields a signature that verifies for every interleaving (the winner of a race over
OsRng draws), nor that it verifies faster - runtime / schedule behaviour.
"""
import json

from . import c04, core, expr, flow, gf, pf
from .api import Api
from .core import AnchorLost

LEVEL = "other"
TECHNIQUE = ("interprocedural typestate of the mutable message slice (whole / prefix / suffix) over MIR; guard facts (edge dominance); absorb-order and "
             "reference-kind rules on the message hasher; dominance rules on scope / channel; panic-freedom engine (abstract interpretation + reviewed obligations)")

READ_ONLY_EXTERN = ("len", "is_empty", "iter", "as_ref", "first", "last", "get", "split_at", "is_some", "is_none", "as_deref", "as_ptr", "chunks", "chunks_exact", "windows", "to_vec")
PASS_EXTERN = ("unwrap", "expect", "as_mut", "as_deref_mut", "take", "map", "unwrap_or_default", "branch", "from_residual", "deref_mut", "as_mut_slice", "into", "from")


def is_mut_u8(ty_s):
    t = ty_s.replace("'_ ", "")
    return t.startswith("&mut [u8]") or t.startswith("&'a mut [u8]") or ("&" in t and "mut [u8]" in t and t.startswith("&"))


def holds_mut_u8(ty_s):
    return "mut [u8]" in ty_s


class Taint:
    """tags: local -> 'whole' | 'prefix' | 'suffix' for locals holding (an Option of) the message `&mut [u8]`."""

    def __init__(self, F, chk, tag):
        self.F, self.chk, self.tag = F, chk, tag
        self.seen = set()
        self.splits = []
        self.writes = []
        self.fns = []

    def run(self, fpath, params):
        key = (fpath, tuple(sorted(params.items())))
        if key in self.seen:
            return
        self.seen.add(key)
        f = self.F.fns[fpath]
        self.fns.append(fpath)
        tags = dict(params)
        changed = True
        n = 0
        while changed and n < 50:
            changed = False
            n += 1
            for b, blk in enumerate(f.blocks):
                if blk["cleanup"]:
                    continue
                for s in blk["stmts"]:
                    if s["k"] != "assign":
                        continue
                    t = self.tag_of_rvalue(f, s["rv"], tags)
                    if t is None:
                        continue
                    dst = s["place"]
                    if dst["proj"]:
                        continue
                    if holds_mut_u8(f.locals[dst["local"]]["ty"]["s"]) and tags.get(dst["local"]) != t:
                        tags[dst["local"]] = merge(tags.get(dst["local"]), t)
                        changed = True
                term = blk["term"]
                if term["k"] == "call":
                    cp = core.strip_generics(core.callee_path(term) or "?")
                    last = cp.rsplit("::", 1)[-1]
                    targs = [(i, self.tag_of_operand(f, a, tags)) for i, a in enumerate(term["args"])]
                    targs = [(i, t) for i, t in targs if t is not None]
                    if not targs:
                        continue
                    dl = term["dest"]["local"]
                    if last == "split_at_mut" and "slice" in cp:
                        continue  # handled below (projections of the result)
                    if last in PASS_EXTERN and not self.F.call_targets(f, term) and holds_mut_u8(f.locals[dl]["ty"]["s"]) and not term["dest"]["proj"]:
                        t = targs[0][1]
                        if tags.get(dl) != merge(tags.get(dl), t):
                            tags[dl] = merge(tags.get(dl), t)
                            changed = True
        # second pass: judge every use
        for b, blk in enumerate(f.blocks):
            if blk["cleanup"]:
                continue
            for s in blk["stmts"]:
                if s["k"] != "assign":
                    continue
                dst = s["place"]
                if dst["proj"] and dst["local"] in tags and any(e["k"] == "deref" for e in dst["proj"]):
                    t = tags[dst["local"]]
                    self.writes.append((f, b, t, "store through the message"))
            term = blk["term"]
            if term["k"] != "call":
                continue
            cp = core.strip_generics(core.callee_path(term) or "?")
            last = cp.rsplit("::", 1)[-1]
            for i, a in enumerate(term["args"]):
                t = self.tag_of_operand(f, a, tags)
                if t is None:
                    continue
                p = core.op_place(a)
                aty = p["ty"] if p else ""
                mut = holds_mut_u8(aty)
                if not mut:
                    continue  # shared reborrow: cannot write
                tps = self.F.call_targets(f, term)
                if last == "split_at_mut" and "slice" in cp and i == 0:
                    ok, why = self.split_point_ok(f, term)
                    self.splits.append((f, b, t, ok, why))
                    continue
                if tps:
                    for tp in tps:
                        self.run(tp, {i + 1: t})
                    continue
                if last in READ_ONLY_EXTERN or last in PASS_EXTERN:
                    continue
                # extern callee receiving the mutable slice: a writer
                self.writes.append((f, b, t, "passed as &mut to %s" % cp))
        # split results: (.0 -> prefix, .1 -> suffix) were tagged through tag_of_rvalue

    def split_point_ok(self, f, term):
        ex = expr.Expr(self.F, f)
        e = ex.of_operand(term["args"][1])
        ok = e[0] == "bin" and e[1] == "Sub" and expr.has_call(e[2], "::len") and (expr.has_assoc(e[3], "OUTPUT_SIZE") or expr.has_call(e[3], "get_hash_function_output_size"))
        return ok, str(e)[:160]

    def tag_of_operand(self, f, o, tags):
        p = core.op_place(o)
        if p is None:
            return None
        return self.tag_of_place(f, p, tags)

    def tag_of_place(self, f, p, tags):
        l = p["local"]
        base = tags.get(l)
        # projection of a split result: tuple field 0 / 1
        ds = [d for d in f.defs_of(l) if not f.blocks[d[0]]["cleanup"]]
        if base is None and len(ds) == 1 and ds[0][1] == "term":
            t = ds[0][2]
            cp = core.strip_generics(core.callee_path(t) or "?")
            if cp.endswith("split_at_mut") and "slice" in cp:
                src = self.tag_of_operand(f, t["args"][0], tags)
                if src is not None:
                    flds = [e for e in p["proj"] if e["k"] == "field"]
                    if flds:
                        ok, _ = self.split_point_ok(f, t)
                        if src == "whole" and ok:
                            return "prefix" if flds[0]["i"] == 0 else "suffix"
                        return src if src != "whole" else "whole"
        return base

    def tag_of_rvalue(self, f, rv, tags):
        k = rv["k"]
        if k in ("use", "cast"):
            return self.tag_of_operand(f, rv["op"], tags)
        if k in ("ref", "rawptr"):
            return self.tag_of_place(f, rv["place"], tags)
        if k == "aggregate" and rv.get("path") == flow.OPTION and rv.get("variant") == "Some":
            return self.tag_of_operand(f, rv["ops"][0], tags)
        return None


def merge(a, b):
    if a is None:
        return b
    if b is None or a == b:
        return a
    return "whole"


def find_gate(F, A):
    """The function below sign_mut that receives the `&mut [u8]` message and calls the signing core."""
    entry = A.fn("sign_mut")
    tree, sites = c04.find_core(F, [entry])
    if len(sites) != 1:
        raise AnchorLost("signing core below sign_mut: %s" % sites)
    corefn = sites[0][0]
    gates = []
    for p in tree:
        f = F.fns[p]
        if not any(is_mut_u8(t["s"]) for t in f.j.get("inputs", [])):
            continue
        calls = [(b, t) for b, t in f.calls() if F.call_targets(f, t) == [corefn] and not f.blocks[b]["cleanup"]]
        if calls:
            gates.append((f, calls))
    if len(gates) != 1 or len(gates[0][1]) != 1:
        raise AnchorLost("gate (fn(&mut [u8], ..) calling the signing core): %s" % [(g[0].path, len(g[1])) for g in gates])
    return entry, gates[0][0], gates[0][1][0], corefn, tree


def m2_refusals(chk, F, G, core_call, tag):
    cb = core_call[0]
    msgp = [i + 1 for i, t in enumerate(G.j["inputs"]) if is_mut_u8(t["s"])][0]
    ex = expr.Expr(F, G)
    # (a) too short
    found_len = False
    for b, t in G.iter_terms():
        if t["k"] != "switch" or G.blocks[b]["cleanup"]:
            continue
        l = core.op_local(t["discr"])
        ds = G.defs_of(l) if l is not None else []
        if len(ds) != 1 or ds[0][1] == "term" or ds[0][2]["rv"]["k"] != "binop":
            continue
        rv = ds[0][2]["rv"]
        ea, eb = ex.of_operand(rv["a"]), ex.of_operand(rv["b"])

        def is_len(e):
            return expr.has_call(e, "::len") and any(x == ("arg", msgp) for x in expr.walk(e))

        def is_n(e):
            return expr.has_assoc(e, "OUTPUT_SIZE") and not expr.has_call(e, "::len")
        op = rv["op"]
        if is_len(ea) and is_n(eb):
            rel = op
        elif is_n(ea) and is_len(eb):
            rel = {"Lt": "Gt", "Le": "Ge", "Gt": "Lt", "Ge": "Le"}.get(op, op)
        else:
            continue
        zero_t = [tg for v, tg in t["targets"] if v == 0]
        other = t.get("otherwise")
        # edge on which len >= n is implied
        if rel in ("Le", "Lt"):
            pass_edge, fail_edge = (zero_t[0] if zero_t else None), other
        elif rel in ("Ge", "Gt"):
            pass_edge, fail_edge = other, (zero_t[0] if zero_t else None)
        else:
            continue
        if pass_edge is None or fail_edge is None:
            continue
        if flow.edge_dominates(G, b, pass_edge, cb) and gf.error_only_from(G, fail_edge, [cb]):
            found_len = True
    chk.ob("M2.too-short-message-refused-before-the-core", G.key + tag, found_len,
           "in %s no comparison of the message length with H::OUTPUT_SIZE lies on every path to the signing core with its failing edge reaching only error returns: "
           "a message shorter than the trailer would reach the core (and consume a leaf or crash)" % G.path, where=G.loc(cb))
    # (b) zero trailer
    found_zero = False
    detail = "no `all(|b| b == 0)` test found"
    for b, t in G.calls():
        if G.blocks[b]["cleanup"]:
            continue
        cp = core.strip_generics(core.callee_path(t) or "")
        last = cp.rsplit("::", 1)[-1]
        if last not in ("all", "any") or len(t["args"]) != 2:
            continue
        # closure body: `byte == 0` for all(..), `byte != 0` for any(..)
        cl = core.op_place(t["args"][1])
        cty = G.locals[cl["local"]]["ty"] if cl else {}
        cf = F.fns.get(cty.get("path")) if cty.get("k") == "closure" else None
        body_ok = False
        if cf is not None:
            want = "Eq" if last == "all" else "Ne"
            eqs = [s for _, _, s in cf.iter_stmts() if s["k"] == "assign" and s["rv"]["k"] == "binop" and s["rv"]["op"] == want and s["place"]["local"] == 0]
            body_ok = len(eqs) == 1 and (core.op_const_val(eqs[0]["rv"]["b"]) == 0 or core.op_const_val(eqs[0]["rv"]["a"]) == 0) and len(cf.blocks) == 1
        # receiver: an iterator over exactly the last n bytes of the message (split_at(len - n).1 or msg[len - n..])
        whole_suffix = suffix_of_message(F, G, t["args"][0], msgp, ex)
        detail = "closure is `byte %s 0` under %s(..): %s; iterates the whole trailer: %s" % ("==" if last == "all" else "!=", last, body_ok, whole_suffix)
        if not (body_ok and whole_suffix):
            continue
        # its result guards the core call: the core is reached only on the `every byte is zero` edge, the other edge only reaches errors
        dl = t["dest"]["local"]
        for sb, st in G.iter_terms():
            neg = False
            dloc = core.op_local(st["discr"]) if st["k"] == "switch" else None
            if dloc is not None and dloc != dl:
                ds = [d for d in G.defs_of(dloc) if not G.blocks[d[0]]["cleanup"]]
                if len(ds) == 1 and ds[0][1] != "term" and ds[0][2]["rv"]["k"] == "unop" and ds[0][2]["rv"]["op"] == "Not" and core.op_local(ds[0][2]["rv"]["a"]) == dl:
                    neg, dloc = True, dl
            if st["k"] == "switch" and dloc == dl:
                zero_t = [tg for v, tg in st["targets"] if v == 0]
                other = st.get("otherwise")
                if not zero_t or other is None:
                    continue
                true_e, false_e = other, zero_t[0]
                if neg:
                    true_e, false_e = false_e, true_e
                good_e, bad_e = (true_e, false_e) if last == "all" else (false_e, true_e)
                if flow.edge_dominates(G, sb, good_e, cb) and gf.error_only_from(G, bad_e, [cb]):
                    found_zero = True
    if not found_zero:
        ok2, d2 = zero_loop_idiom(F, G, msgp, cb, ex)
        found_zero = ok2
        detail += "; explicit loop: " + d2
    chk.ob("M2.non-zero-trailer-refused-before-the-core", G.key + tag, found_zero,
           "in %s the signing core is not guarded by a test that every byte of the last H::OUTPUT_SIZE bytes is zero (%s): a message with a non-zero trailer byte would be "
           "signed, its trailer overwritten and a leaf consumed" % (G.path, detail), where=G.loc(cb))


def split_component(f, operand, allowed, depth=0):
    """(split call term, tuple field index) when the operand is a view (through `allowed` calls, moves and
    reborrows) of exactly one component of a split_at / split_at_mut result; None otherwise."""
    p = core.op_place(operand)
    if p is None or depth > 30:
        return None
    l = p["local"]
    ds = [d for d in f.defs_of(l) if not f.blocks[d[0]]["cleanup"]]
    if len(ds) != 1:
        return None
    b, i, d = ds[0]
    if i == "term":
        last = core.strip_generics(core.callee_path(d) or "?").rsplit("::", 1)[-1]
        if last in allowed and d["args"]:
            return split_component(f, d["args"][0], allowed, depth + 1)
        return None
    if d["k"] != "assign":
        return None
    rv = d["rv"]
    if rv["k"] in ("ref", "rawptr"):
        pl = rv["place"]
        if [e["k"] for e in pl["proj"]] in ([], ["deref"]):
            return split_component(f, {"k": "copy", "place": {"local": pl["local"], "proj": []}}, allowed, depth + 1)
        return None
    if rv["k"] in ("use", "cast"):
        q = core.op_place(rv["op"])
        if q is None:
            return None
        if [e["k"] for e in q["proj"]] == ["field"]:
            dd = [x for x in f.defs_of(q["local"]) if not f.blocks[x[0]]["cleanup"]]
            if len(dd) == 1 and dd[0][1] == "term" and core.strip_generics(core.callee_path(dd[0][2]) or "").rsplit("::", 1)[-1] in ("split_at", "split_at_mut"):
                return dd[0][2], q["proj"][0]["i"]
            return None
        if q["proj"]:
            return None
        return split_component(f, rv["op"], allowed, depth + 1)
    return None


def suffix_of_message(F, G, operand, msgp, ex, depth=0):
    """Is the operand (an iterator / slice view) exactly the last H::OUTPUT_SIZE bytes of the message parameter:
    `split_at(len - n).1` or `msg[len - n ..]`, viewed only through iter / into_iter / reborrows?"""
    sp = split_component(G, operand, ("iter", "into_iter", "by_ref"))
    if sp is not None and sp[1] == 1 and core.strip_generics(core.callee_path(sp[0]) or "").endswith("split_at"):
        e = ex.of_operand(sp[0]["args"][1])
        return flow.origin(G, sp[0]["args"][0]) == ("arg", msgp) and is_len_minus_n(e)
    p = core.op_place(operand)
    if p is None or depth > 12:
        return False
    ds = [d for d in G.defs_of(p["local"]) if not G.blocks[d[0]]["cleanup"]]
    if len(ds) != 1:
        return False
    b, i, d = ds[0]
    if i == "term":
        last = core.strip_generics(core.callee_path(d) or "").rsplit("::", 1)[-1]
        if last in ("iter", "into_iter", "by_ref") and d["args"]:
            return suffix_of_message(F, G, d["args"][0], msgp, ex, depth + 1)
        if last in ("index", "get") and len(d["args"]) == 2 and "RangeFrom" in (core.op_place(d["args"][1]) or {}).get("ty", ""):
            rl = core.op_local(d["args"][1])
            rd = G.defs_of(rl) if rl is not None else []
            if len(rd) == 1 and rd[0][1] != "term" and rd[0][2]["rv"]["k"] == "aggregate":
                start = ex.of_operand(rd[0][2]["rv"]["ops"][0])
                return flow.origin(G, d["args"][0]) == ("arg", msgp) and is_len_minus_n(start)
        return False
    if d["k"] == "assign" and d["rv"]["k"] in ("use", "cast"):
        return suffix_of_message(F, G, d["rv"]["op"], msgp, ex, depth + 1)
    if d["k"] == "assign" and d["rv"]["k"] in ("ref", "rawptr") and [e["k"] for e in d["rv"]["place"]["proj"]] in ([], ["deref"]):
        return suffix_of_message(F, G, {"k": "copy", "place": {"local": d["rv"]["place"]["local"], "proj": [], "ty": ""}}, msgp, ex, depth + 1)
    return False


def is_len_minus_n(e):
    while isinstance(e, tuple) and e[0] == "cast":
        e = e[1]
    return isinstance(e, tuple) and e[0] == "bin" and e[1] == "Sub" and expr.has_call(e[2], "::len") and expr.has_assoc(e[3], "OUTPUT_SIZE")


def zero_loop_idiom(F, G, msgp, cb, ex):
    """`for byte in <suffix> { if *byte != 0 { return Err } }` before the core: the loop is driven by an iterator over the whole
    suffix, a comparison of the item with 0 sends non-zero bytes to an error-only exit, and the only other way out of the loop is
    the exhausted iterator, which is on every path to the core."""
    for h, body in G.natural_loops():
        nexts = [(b, G.blocks[b]["term"]) for b in body if G.blocks[b]["term"]["k"] == "call" and core.strip_generics(core.callee_path(G.blocks[b]["term"]) or "").endswith("::next")]
        if len(nexts) != 1:
            continue
        nb, nt = nexts[0]
        if not suffix_of_message(F, G, nt["args"][0], msgp, ex):
            continue
        item = nt["dest"]["local"]
        # comparison of the item with zero
        cmp_ok = False
        for b in body:
            t = G.blocks[b]["term"]
            if t["k"] != "switch":
                continue
            l = core.op_local(t["discr"])
            ds = G.defs_of(l) if l is not None else []
            if len(ds) != 1 or ds[0][1] == "term" or ds[0][2]["rv"]["k"] != "binop" or ds[0][2]["rv"]["op"] not in ("Ne", "Eq"):
                continue
            rv = ds[0][2]["rv"]
            zero_side = core.op_const_val(rv["b"]) == 0 or core.op_const_val(rv["a"]) == 0
            other = rv["a"] if core.op_const_val(rv["b"]) == 0 else rv["b"]
            d = core.operand_deps(G, other)
            from_item = item in d["locals"]
            if not (zero_side and from_item):
                continue
            zero_t = [tg for v, tg in t["targets"] if v == 0]
            oth = t.get("otherwise")
            nonzero_edge = oth if rv["op"] == "Ne" else (zero_t[0] if zero_t else None)
            if nonzero_edge is not None and nonzero_edge not in body and gf.error_only_from(G, nonzero_edge, [cb]):
                cmp_ok = True
        if not cmp_ok:
            continue
        # other exits: only from the switch on the iterator's result
        exits = [(b, s2) for b in body for s2 in G.succ[b] if s2 not in body and not G.blocks[s2]["cleanup"] and G.blocks[s2]["term"]["k"] != "unreachable"]
        good = True
        done_edge = None
        for b, s2 in exits:
            t = G.blocks[b]["term"]
            if gf.error_only_from(G, s2, [cb]):
                continue
            l = core.op_local(t.get("discr", {})) if t["k"] == "switch" else None
            ds = G.defs_of(l) if l is not None else []
            if len(ds) == 1 and ds[0][1] != "term" and ds[0][2]["rv"]["k"] == "discr" and ds[0][2]["rv"]["place"]["local"] == item:
                done_edge = (b, s2)
            else:
                good = False
        if good and done_edge and flow.edge_dominates(G, done_edge[0], done_edge[1], cb):
            return True, "loop over the whole trailer with `byte != 0 -> Err`"
    return False, "no such loop"


def m4_absorb_order(chk, F, T, tag):
    """In every function that splits the message mutably."""
    n = 0
    for f, b, t, ok, why in T.splits:
        n += 1
        term = f.blocks[b]["term"]

        def part_of(a):
            sp = split_component(f, a, ("deref", "deref_mut", "as_ref", "as_mut"))
            if sp is None or sp[0] is not term:
                return None
            return "prefix" if sp[1] == 0 else "suffix"
        updates = []  # (block, hasher local, which)
        search = []
        for cb, ct in f.calls():
            if f.blocks[cb]["cleanup"] or not f.dominates(b, cb) or cb == b:
                continue
            cp = core.strip_generics(core.callee_path(ct) or "")
            last = cp.rsplit("::", 1)[-1]
            parts = [part_of(a) for a in ct["args"]]
            if last in ("update", "chain") and len(ct["args"]) == 2:
                updates.append((cb, flow.resolve_owner(f, ct["args"][0]), parts[1] or "other"))
            elif "suffix" in parts and F.call_targets(f, ct):
                # the searcher: receives the suffix mutably
                hk = None
                for a in ct["args"]:
                    p = core.op_place(a)
                    if p is None or holds_mut_u8(p["ty"]):
                        continue
                    o = flow.resolve_owner(f, a)
                    if o is not None and f.locals[o]["ty"].get("k") == "param":
                        hk = (o, p["ty"])
                search.append((cb, hk))
        key = f.key + tag
        okseq = False
        detail = "updates %s, search %s" % ([(u[0], u[2]) for u in updates], [(s[0], s[1]) for s in search])
        if len(search) == 1 and search[0][1] is not None:
            sb, (hl, hty) = search[0]
            shared = hty.startswith("&") and not hty.startswith("&mut")
            pre_u = [u for u in updates if u[2] == "prefix" and u[1] == hl and f.dominates(u[0], sb)]
            suf_u = [u for u in updates if u[2] == "suffix" and u[1] == hl]
            suf_after = [u for u in suf_u if f.dominates(sb, u[0])]
            other_after = [u for u in updates if u[1] == hl and f.dominates(sb, u[0]) and u[2] != "suffix"]
            # once the message is split, every way to the function's exit passes through the search and then the absorb of the
            # trailer (a build-constant guard around them is a path on which the signed digest does not cover the trailer)
            def exits_avoiding(avoid):
                seen, work, hit = set(), [b], []
                while work:
                    x = work.pop()
                    if x in seen or x == avoid or f.blocks[x]["cleanup"]:
                        continue
                    seen.add(x)
                    if f.blocks[x]["term"]["k"] == "return":
                        hit.append(x)
                    work.extend(f.succ[x])
                return hit
            skip = (exits_avoiding(suf_after[0][0]) if len(suf_after) == 1 else []) + exits_avoiding(sb)
            okseq = shared and len(pre_u) == 1 and len(suf_u) == 1 and len(suf_after) == 1 and not other_after and not skip
            detail = "hasher handed to the searcher as %s; prefix absorbed before: %d; suffix absorbed after: %d (total %d); other absorbs after the search: %d; exits reachable without search / trailer absorb: %s" % (
                hty, len(pre_u), len(suf_after), len(suf_u), len(other_after), [f.loc(x) for x in skip][:2])
        chk.ob("M4.trailer-absorbed-once-after-the-search", key, okseq,
               "in %s the message hash is not built as ... || prefix || [search with a shared reference to the hasher] || trailer (%s): the hashed trailer could differ "
               "from the bytes written back to the message, so the released signature would not verify" % (f.path, detail), where=f.loc(b))
    chk.count("mutable_splits", n)


def is_detached_spawn(t):
    cp = core.strip_generics(core.callee_path(t) or "")
    # canonical paths: std::thread::functions::spawn, std::thread::builder::Builder::spawn (scoped spawns live in std::thread::scoped / crossbeam)
    return cp.startswith("std::thread::") and cp.rsplit("::", 1)[-1] in ("spawn", "spawn_unchecked") and "scoped" not in cp and "Scope" not in cp


def canary(chk):
    """The detached-thread rule expects zero matches in /repo: it must still fire on the canary fixture."""
    import os
    from . import extract
    fx = os.path.join(extract.VERIF, "fixtures", "canary")
    Fc = core.Facts(extract.load("canary", {"features": [], "env": {}}, repo=fx, crate="canary"), "canary")
    hits = [p for p, f in Fc.fns.items() for b, t in f.calls() if is_detached_spawn(t)]
    chk.ob("canary.M5", "fixtures/canary", len(hits) >= 1, "the detached-thread rule did not fire on the canary fixture")


def m5_threads(chk, F, tree, tag):
    spawns = []
    drains = 0
    for p in tree:
        f = F.fns[p]
        scope_calls, nexts, senders = [], [], set()
        for b, t in f.calls():
            if f.blocks[b]["cleanup"]:
                continue
            c = core.callee_of(t)
            cp = core.strip_generics(core.callee_path(t) or "")
            full = (c.get("resolved") or c)["path"] if c else ""
            if is_detached_spawn(t):
                spawns.append((p, f.loc(b)))
            if cp.endswith("::scope") and ("crossbeam" in full or "thread" in full):
                scope_calls.append(b)
            if cp.endswith("::next") and "channel" in (core.op_place(t["args"][0]) or {}).get("ty", ""):
                nexts.append(b)
        for l, d in enumerate(f.locals):
            if d["ty"].get("k") == "adt" and d["ty"].get("path", "").endswith("channel::Sender"):
                senders.add(l)
        if not nexts:
            continue
        drains += 1
        ok_scope = bool(scope_calls) and all(any(f.dominates(s, nb) for s in scope_calls) for nb in nexts)
        chk.ob("M5.workers-joined-before-results-are-read", f.key + tag, ok_scope,
               "in %s the channel is drained without a dominating scoped-thread call: results could be read while workers are still running" % f.path, where=f.loc(nexts[0]))
        # the drain runs after the workers were joined, so nobody receives while they send: a sender must never block.
        # An unbounded channel cannot block; a bounded one only if its capacity is the named worker count (one message each)
        ex5 = expr.Expr(F, f)
        makers = 0
        for b, t in f.calls():
            if f.blocks[b]["cleanup"]:
                continue
            c = core.callee_of(t)
            full = core.strip_generics((c.get("resolved") or c)["path"]) if c else ""
            lastc = full.rsplit("::", 1)[-1]
            if "channel" not in full and "mpsc" not in full:
                continue
            if lastc in ("unbounded", "channel"):
                makers += 1
            elif lastc in ("bounded", "sync_channel"):
                makers += 1
                cap = ex5.of_operand(t["args"][0]) if t["args"] else None
                raw = json.dumps(t["args"][:1])
                l0 = core.op_local(t["args"][0]) if t["args"] else None
                if l0 is not None:
                    for b2, i2, s2 in f.iter_stmts():
                        if s2["k"] == "assign" and s2["place"]["local"] == l0 and not s2["place"]["proj"]:
                            raw += json.dumps(s2["rv"])
                named = "THREADS" in raw or "THREADS" in str(cap)
                chk.ob("M5.senders-never-block", "%s|%s%s" % (f.key, lastc, tag), named,
                       "in %s the result channel is created with `%s(%s)` but is only drained after every worker was joined: with more "
                       "workers than capacity the surplus senders block forever and signing never returns (needs HBS_LMS_THREADS above the capacity)"
                       % (f.path, lastc, cap), where=f.loc(b))
        chk.ob("M5.channel-constructor-found", f.key + tag, makers >= 1, "no channel constructor found in %s although it drains a channel" % f.path, where=f.loc(nexts[0]))
        # every owned Sender is dropped / moved before the drain
        live = []
        for l in sorted(senders):
            ends = []
            for b, t in f.iter_terms():
                if f.blocks[b]["cleanup"]:
                    continue
                if t["k"] == "drop" and t["place"]["local"] == l and not t["place"]["proj"]:
                    ends.append(b)
                if t["k"] == "call" and any(a["k"] == "move" and a["place"]["local"] == l and not a["place"]["proj"] for a in t["args"]):
                    ends.append(b)
            for b, i, s in f.iter_stmts():
                if s["k"] == "assign" and not f.blocks[b]["cleanup"]:
                    for o in rv_ops(s["rv"]):
                        if o["k"] == "move" and o["place"]["local"] == l and not o["place"]["proj"]:
                            ends.append(b)
            defs = [d for d in f.defs_of(l) if not f.blocks[d[0]]["cleanup"]]
            if not defs:
                continue
            if not all(any(f.dominates(e, nb) for e in ends) for nb in nexts):
                live.append(l)
        chk.ob("M5.senders-gone-before-the-drain", f.key + tag, not live,
               "in %s Sender value(s) %s may still be alive when the receiver is drained: the drain loop would never terminate" % (f.path, ["_%d" % l for l in live]), where=f.loc(nexts[0]))
    chk.ob("M5.no-detached-threads", "sign_mut" + tag, not spawns, "detached threads are spawned below sign_mut: %s" % spawns)
    chk.count("channel_drains", drains)


def rv_ops(rv):
    k = rv["k"]
    if k in ("use", "cast", "repeat"):
        return [rv["op"]]
    if k == "binop":
        return [rv["a"], rv["b"]]
    if k == "unop":
        return [rv["a"]]
    if k == "aggregate":
        return list(rv["ops"])
    return []


def run_config(chk, ctx, name):
    F = ctx.facts(name)
    A = Api(F)
    chk.configs.append(name)
    tag = "" if name == "fast_verify" else "[%s]" % name
    entry, G, core_call, corefn, tree = find_gate(F, A)
    chk.note("%s: entry %s, gate %s, signing core %s" % (name, entry, G.path, corefn))
    # M1
    T = Taint(F, chk, tag)
    msgp = [i + 1 for i, t in enumerate(G.j["inputs"]) if is_mut_u8(t["s"])][0]
    T.run(G.path, {msgp: "whole"})
    chk.note("%s: the message slice is received by %s" % (name, T.fns))
    chk.count("functions_receiving_the_message", len(T.fns))
    for f, b, t, ok, why in T.splits:
        chk.ob("M1.split-at-len-minus-output-size", f.key + tag, ok and t == "whole",
               "%s splits the message (%s part) at %s, not at len - H::OUTPUT_SIZE" % (f.path, t, why), where=f.loc(b))
    bad = [(f, b, t, what) for f, b, t, what in T.writes if t != "suffix"]
    for f, b, t, what in T.writes:
        chk.ob("M1.only-the-trailer-is-written", "%s@%s%s" % (f.key, what.split(" ")[-1][-40:], tag), t == "suffix",
               "%s: %s while it is the %s part of the caller's message: bytes outside the last H::OUTPUT_SIZE bytes could change" % (f.path, what, t), where=f.loc(b))
    chk.count("message_write_sites", len(T.writes))
    chk.ob("M1.trailer-write-found", name, any(t == "suffix" for _, _, t, _ in T.writes), "no write to the trailer found below %s (analysis lost the message)" % G.path)
    # M2
    m2_refusals(chk, F, G, core_call, tag)
    # M3
    tree_s, sites_s = c04.find_core(F, A.entries_sign())
    chk.ob("M3.single-signing-core", name, len(sites_s) == 1 and sites_s[0][0] == corefn, "sign and sign_mut do not share one signing core: %s" % sites_s)
    # M4
    m4_absorb_order(chk, F, T, tag)
    # M5
    m5_threads(chk, F, tree, tag)
    # M6
    pf.run(chk, F, A, [entry], "sign_mut:" + name, allow_recursion=("lms::helper::get_tree_element",), tag=tag)


def run(chk, ctx):
    chk.explanation = __doc__.split("Decided", 1)[1].split("Not decided")[0].strip()
    chk.not_decided = "validity of the returned signature for every interleaving / thread count (a race over OsRng draws), speed of verification, effects of HBS_LMS_THREADS values other than the default"
    chk.trusted_base = ["rustc MIR construction", "crossbeam scope joins its threads before returning; an unbounded channel's iterator ends when all senders are gone", "rules/summaries.py, rules/obligations.py"]
    configs = ["fast_verify"] if ctx.tier == "quick" else ["fast_verify", "fast_verify_verbose"]
    for name in configs:
        run_config(chk, ctx, name)
    canary(chk)
    chk.floor("functions_receiving_the_message", 4)
    chk.floor("mutable_splits", 1)
    chk.floor("message_write_sites", 1)
    chk.floor("channel_drains", 1)
    chk.floor("panic_sites", 180)
