"""Check bookkeeping: obligations, violations, known findings, evidence, exit status."""
import hashlib
import json
import os
import re
import sys
import time

VERIF = os.path.dirname(os.path.dirname(os.path.abspath(__file__)))
KNOWN = os.path.join(VERIF, "known-findings.txt")
# mutant / scratch runs redirect evidence and reports so the committed evidence is untouched
OUT = os.environ.get("LMS_OUT", VERIF)


def load_known():
    """Returns {(property, key): description} for `finding:` lines. `fixed:` lines suppress
    nothing and are ignored here."""
    out = {}
    if not os.path.exists(KNOWN):
        return out
    for line in open(KNOWN):
        line = line.strip()
        if not line.startswith("finding:"):
            continue
        rest = line[len("finding:") :].strip()
        parts = rest.split(None, 2)
        prop = key = None
        desc = ""
        for p in parts[:2]:
            if p.startswith("property="):
                prop = p[len("property=") :]
            elif p.startswith("key="):
                key = p[len("key=") :]
        if len(parts) > 2:
            desc = parts[2]
        if prop and key:
            out[(prop, key)] = desc
    return out


class Check:
    def __init__(self, pid, tier, level, technique):
        self.pid = pid
        self.tier = tier
        self.level = level
        self.technique = technique
        self.t0 = time.time()
        self.seed = int(os.environ.get("VERIF_SEED", "0") or 0)
        self.violations = []  # dicts
        self.obligations = []  # (rule, instance, ok, detail)
        self.samples = []
        self.counts = {}
        self.notes = []
        self.assumptions = []
        self.trusted_base = []
        self.not_decided = ""
        self.explanation = ""
        self.configs = []

    # --- recording
    def ob(self, rule, instance, ok, detail="", where=None, key=None, sample=False):
        """Record one obligation; a failed obligation is a violation."""
        self.obligations.append((rule, instance, bool(ok)))
        if sample or (ok and len(self.samples) < 40 and not any(s.get("rule") == rule for s in self.samples)):
            self.samples.append({"rule": rule, "instance": instance, "ok": bool(ok), "detail": detail[:300]})
        if not ok:
            self.violation(rule, key or instance, detail, where)
        return ok

    def violation(self, rule, key, message, where=None, details=None):
        k = "%s:%s" % (rule, key)
        k = k.replace(" ", "_")
        for v in self.violations:
            if v["key"] == k:
                return
        self.violations.append(
            {"key": k, "rule": rule, "message": message, "where": where, "details": details}
        )

    def count(self, name, n):
        self.counts[name] = self.counts.get(name, 0) + n

    def floor(self, name, minimum):
        """Fail closed if a rule matched fewer instances than were confirmed by hand."""
        n = self.counts.get(name, 0)
        if self.violations:
            return  # a real violation is already reported; an aborted rule must not add floor noise
        self.ob(
            "floor",
            "%s>=%d" % (name, minimum),
            n >= minimum,
            "rule instance count %s = %d fell below the confirmed floor %d (vacuous pass guard)"
            % (name, n, minimum),
        )

    def note(self, s):
        self.notes.append(s)

    # --- finishing
    def finish(self):
        known = load_known()
        new = []
        kf = []
        for v in self.violations:
            # a finding is a (rule, function, site) of the source: the same site seen in another build configuration
            # (key suffix `[config]`) is the same finding
            base = re.sub(r"\[[a-z_]+\]$", "", v["key"])
            if (self.pid, v["key"]) in known or (self.pid, base) in known:
                kf.append(v)
            else:
                new.append(v)
        os.makedirs(os.path.join(OUT, "evidence"), exist_ok=True)
        os.makedirs(os.path.join(OUT, "reports"), exist_ok=True)
        total = len(self.obligations)
        ok = sum(1 for o in self.obligations if o[2])
        cov = {
            "obligations": total,
            "discharged": ok,
            "checker_cmd": "./check %s --tier %s" % (self.pid, self.tier),
            "trusted_base": self.trusted_base,
            "explanation": self.explanation,
            "not_decided": self.not_decided,
            "technique": self.technique,
            "configurations": self.configs,
            "counts": self.counts,
            "rules": sorted({o[0] for o in self.obligations}),
            "samples": self.samples[:60] or [{"note": "no obligations recorded"}],
            "known_findings_reported": [v["key"] for v in kf],
            "new_violations": [v["key"] for v in new],
            "notes": self.notes[:80],
            "exhaustive": True,
        }
        ev = {
            "property_id": self.pid,
            "tier": self.tier,
            "seed": self.seed,
            "level": self.level,
            "coverage": cov,
            "assumptions": self.assumptions,
            "wall_s": round(time.time() - self.t0, 3),
            "violations": len(new),
        }
        with open(os.path.join(OUT, "evidence", "%s.json" % self.pid), "w") as fh:
            json.dump(ev, fh, indent=1, sort_keys=False)
            fh.write("\n")
        for v in kf:
            print("KNOWN-FINDING: property=%s %s %s" % (self.pid, v["key"], v["message"][:400].replace("\n", " ")))
        for v in new:
            h = hashlib.sha1(v["key"].encode()).hexdigest()[:10]
            rp = os.path.join("reports", "%s-%s.json" % (self.pid, h))
            with open(os.path.join(OUT, rp), "w") as fh:
                json.dump(
                    {
                        "property": self.pid,
                        "key": v["key"],
                        "rule": v["rule"],
                        "message": v["message"],
                        "where": v["where"],
                        "details": v["details"],
                        "tier": self.tier,
                        "explain": "./check %s --explain %s" % (self.pid, rp),
                    },
                    fh,
                    indent=1,
                )
            print("VIOLATION property=%s replay=%s" % (self.pid, rp))
            print("  rule=%s key=%s" % (v["rule"], v["key"]))
            print("  %s" % v["message"].replace("\n", "\n  "))
            if v["where"]:
                print("  at %s" % v["where"])
        print(
            "%s %s: %d obligations, %d discharged, %d known finding(s), %d violation(s) [%.1fs]"
            % (self.pid, self.tier, total, ok, len(kf), len(new), time.time() - self.t0)
        )
        return 1 if new else 0
