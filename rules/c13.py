"""C13 - leaf selection for every key shape (clause level: arithmetic safety + structure).

  S1  no arithmetic failure: the decomposition, the counter increment and the lifetime computation are run
      through the panic-freedom engine as entry points with unknown counter / heights (from the extracted LMS
      table, 1..MAX levels, NO bound on the total height)
  S2  exhaustion threshold per total-height partition (shared with C05-A1): 2^t - 1 for t <= 63, never for t >= 64
  S3  decomposition structure (shared with C03-P2): per level the same level's height is used for mask and shift,
      bottom-up, element index = level index, starting from the counter
  S5  no silent loss of value: narrowing casts / wrapping ops / narrow saturating ops in the accounting functions
      are shown by interval analysis to be exact; only saturation at the width of the reported lifetime is permitted
  S4  lifetime structure: levels visited bottom-up; the factor applied to a level's free-leaf count has no
      intra-iteration dependence on that level's own size (it is the product of the *lower* levels only);
      the free-leaf count is size minus used index of the same level; one accumulation per level
      every update of loop-carried state in the level loop dominates every latch (no `continue` around recording a level's size)
Not decided: equality with the mixed-radix rule / lifetime = leaves - counter for all counters (numeric identities).
"""
from collections import deque

from . import c03, c05, core, expr, flow, gf, ia, pf
from .api import Api

LEVEL = "other"
TECHNIQUE = "panic-freedom engine (abstract interpretation) on the three accounting functions; interval analysis of the exhaustion bound under total-height partitions; intra-iteration dependence analysis and expression-DAG rules"

MUL_CALLS = ("saturating_mul", "checked_mul", "wrapping_mul", "overflowing_mul", "mul_assign", "mul")


def reaches_avoiding(f, src, dst, avoid, body):
    if src == dst:
        return True
    seen = {src}
    dq = deque([src])
    while dq:
        b = dq.popleft()
        for s in f.succ[b]:
            if s in avoid or s not in body or s in seen:
                continue
            if s == dst:
                return True
            seen.add(s)
            dq.append(s)
    return False


def intra_iteration_sources(F, f, header, body, operand, use_block):
    """Backward data slice of `operand` restricted to definitions that reach their use *within one
    iteration* of the loop (header, body): returns the list of (kind, item) sources met - call terms
    and field reads.  Definitions outside the loop, or reaching only around the back edge, end the slice."""
    sl = core.Slice(f)
    md = sl.mutdefs()
    out = []
    seen = set()
    work = []

    def push_op(o, ub):
        p = core.op_place(o)
        if p is None:
            return
        for e in p["proj"]:
            if e["k"] == "field" and "name" in e:
                out.append(("field", (e.get("adt"), e["name"], p["local"])))
            if e["k"] == "index":
                work.append((e["local"], ub))
        work.append((p["local"], ub))

    push_op(operand, use_block)
    while work:
        l, ub = work.pop()
        if (l, ub) in seen:
            continue
        seen.add((l, ub))
        cands = []
        for b, i, d in f.defs_of(l):
            cands.append((b, i, d))
        for b, t in md.get(l, []):
            cands.append((b, "mut", t))
        for b, i, d in cands:
            if b not in body or f.blocks[b]["cleanup"]:
                continue
            if not reaches_avoiding(f, b, ub, {header}, body) and b != header:
                continue
            if b == header and not reaches_avoiding(f, b, ub, set(), body):
                continue
            if i in ("term", "mut"):
                out.append(("call", d))
                for a in d["args"]:
                    push_op(a, b)
            elif d["k"] == "assign":
                rv = d["rv"]
                k = rv["k"]
                if k in ("use", "cast", "repeat"):
                    push_op(rv["op"], b)
                elif k in ("ref", "rawptr", "discr"):
                    push_op({"k": "copy", "place": rv["place"]}, b)
                elif k == "binop":
                    push_op(rv["a"], b)
                    push_op(rv["b"], b)
                elif k == "unop":
                    push_op(rv["a"], b)
                elif k == "aggregate":
                    for o in rv["ops"]:
                        push_op(o, b)
    return out


def lifetime_rules(chk, F, an, tag):
    lt = an["lifetime"]
    ex = expr.Expr(F, lt)
    loops = lt.natural_loops()
    # the level loop: outermost natural loop whose `next` iterates over the key vector
    level_loops = []
    for h, body in loops:
        for b in body:
            t = lt.blocks[b]["term"]
            if t["k"] == "call" and (core.callee_path(t) or "").endswith("::next"):
                ie = ex.of_operand(t["args"][0])
                if any(x[0] == "field" and x[2] == "private_key" for x in expr.walk(ie)):
                    inner = [b2 for h2, b2 in loops if b2 < body and b in b2]
                    if not inner:
                        level_loops.append((h, body, b, ie))
    chk.ob("S4.level-loop-found", lt.key + tag, len(level_loops) == 1, "expected one loop over the LMS private keys in %s, found %d" % (lt.path, len(level_loops)), where=lt.loc())
    if len(level_loops) != 1:
        return
    header, body, nb, ie = level_loops[0]
    chk.ob("S4.levels-visited-bottom-up", lt.key + tag, any(x[0] == "call" and x[1].endswith("::rev") for x in expr.walk(ie)),
           "the lifetime loop does not run from the bottom level upwards (no rev() on the level iterator): %s" % (ie,), where=lt.loc(nb))

    def is_level_size(src):
        if src[0] == "call":
            c = core.callee_of(src[1])
            if c is None:
                return False
            p = core.strip_generics((c.get("resolved") or c)["path"])
            return "LmsParameter" in p or p.endswith("::pow")
        return src[0] == "field" and src[1][1] == "tree_height"

    def is_used_index(src):
        return src[0] == "field" and src[1][1] == "used_leafs_index"

    muls = []
    for b in sorted(body):
        t = lt.blocks[b]["term"]
        if lt.blocks[b]["cleanup"]:
            continue
        ops = None
        if t["k"] == "call" and (core.callee_path(t) or "").split("::")[-1] in MUL_CALLS and len(t["args"]) == 2:
            ops = t["args"]
        elif t["k"] == "assert" and t["msg"]["kind"] == "Overflow" and t["msg"].get("op") == "Mul":
            ops = [t["msg"]["a"], t["msg"]["b"]]
        elif t["k"] == "call" and (core.callee_path(t) or "").split("::")[-1] == "fold" and len(t["args"]) == 3:
            # `iter.fold(init, |acc, x| acc * x)`: a product of the initial value with every item
            cl = core.op_place(t["args"][2])
            cty = lt.locals[cl["local"]]["ty"] if cl else {}
            cf = F.fns.get(cty.get("path")) if cty.get("k") == "closure" else None
            if cf is not None and any((tt["k"] == "call" and (core.callee_path(tt) or "").split("::")[-1] in MUL_CALLS) or
                                      (tt["k"] == "assert" and tt["msg"]["kind"] == "Overflow" and tt["msg"].get("op") == "Mul") for _, tt in cf.iter_terms()):
                ops = [t["args"][1], t["args"][0]]
        if ops:
            muls.append((b, ops))
    chk.count("lifetime_multiplications", len(muls))
    checked = 0
    for b, ops in muls:
        srcs = [intra_iteration_sources(F, lt, header, body, o, b) for o in ops]
        free_side = [i for i, s in enumerate(srcs) if any(is_used_index(x) for x in s)]
        if not free_side:
            # a product of sizes only (e.g. a running product update): it must not be *consumed* by a free-leaf
            # multiplication later in the same iteration - that case is caught at the consuming site
            continue
        for i in free_side:
            other = srcs[1 - i]
            bad = [x for x in other if is_level_size(x)]
            checked += 1
            chk.ob("S4.multiplier-excludes-own-level", "%s@mul%d%s" % (lt.key, checked, tag), not bad,
                   "in %s the factor multiplied with a level's free-leaf count depends, within the same loop iteration, on that level's own size "
                   "(it must be the product of the lower levels' sizes only): the lifetime is wrong whenever the levels have different heights" % lt.path,
                   where=lt.loc(b))
    # every level contributes on every iteration: the operations that update loop-carried state (recording the level's
    # size for the levels above it, adding the level's term to the result) sit on every path from the loop header back
    # to it - a `continue` / early branch around one of them drops a radix factor or a term for particular key states
    inner_blocks = set()
    for h2, b2 in loops:
        if b2 < body:
            inner_blocks |= set(b2)
    latches = [u for u in body if header in lt.succ[u]]
    updates = []
    for b in sorted(body):
        if b in inner_blocks or lt.blocks[b]["cleanup"]:
            continue
        t = lt.blocks[b]["term"]
        last = (core.callee_path(t) or "").split("::")[-1] if t["k"] == "call" else None
        if last in ("push", "try_push", "saturating_add", "checked_add", "wrapping_add") or last in MUL_CALLS:
            updates.append((b, last))
        elif t["k"] == "assert" and t["msg"]["kind"] == "Overflow" and t["msg"].get("op") in ("Add", "Mul"):
            updates.append((b, t["msg"]["op"]))
    chk.count("lifetime_state_updates", len(updates))
    for n_u, (b, what) in enumerate(updates):
        skipped = [u for u in latches if not lt.dominates(b, u)]
        chk.ob("S4.every-level-contributes", "%s@update%d:%s%s" % (lt.key, n_u, what, tag), not skipped,
               "in %s the level loop can reach its next iteration without executing the `%s` that updates loop-carried state "
               "(a level's size or term is skipped for some key states: the levels above lose a radix factor or the sum loses a term)" % (lt.path, what),
               where=lt.loc(b))
    chk.ob("S4.free-leaves-multiplied", lt.key + tag, checked >= 1, "no multiplication of a free-leaf count found in the level loop of %s" % lt.path, where=lt.loc())
    # free = size - used of the same item
    subs = []
    for b in sorted(body):
        t = lt.blocks[b]["term"]
        if t["k"] == "assert" and t["msg"]["kind"] == "Overflow" and t["msg"].get("op") == "Sub":
            a, b_ = ex.of_operand(t["msg"]["a"]), ex.of_operand(t["msg"]["b"])
            subs.append((b, a, b_))
    ok = False
    for b, a, b_ in subs:
        ia_, ib_ = c03.item_of(a), c03.item_of(b_)
        if expr.has_field(b_, "used_leafs_index") and (expr.has_call(a, "number_of_lm_ots_keys") or expr.has_call(a, "pow")) and ia_ is not None and ia_ == ib_:
            ok = True
    chk.ob("S4.free-is-size-minus-used-of-same-level", lt.key + tag, ok,
           "the free-leaf count is not (level size - used index) of one and the same level item: %s" % [(a, b_) for _, a, b_ in subs][:1], where=lt.loc())


def lossy_rules(chk, F, an_ia, an, entries, tag):
    """S5: inside the accounting functions no value may be silently lost: narrowing casts whose operand can
    exceed the target, wrapping operations that can wrap, and saturating operations narrower than the reported
    result (u64) whose exact result can exceed their width.  Saturation at the width of the lifetime result is
    the documented cap of the reported number and is the one permitted loss."""
    tree = F.reachable(entries)
    lt = an["lifetime"]
    ret_ty = lt.j["output"]["s"]
    n = 0
    for (fp, kind, ty), (exact, rng) in sorted(an_ia.lossy_obs.items()):
        if fp not in tree:
            continue
        f = F.fns[fp]
        n += 1
        permitted = kind.startswith("saturating_") and (fp == lt.path or fp.startswith(lt.path + "::{closure")) and ty == ret_ty
        chk.ob("S5.no-silent-loss", "%s|%s|%s%s" % (f.key, kind, ty, tag), permitted,
               "in %s a %s producing %s can lose value: the exact result ranges over %s but the type holds %s "
               "(a count that silently saturates / wraps / truncates below the 64-bit result makes the selected leaves or the reported lifetime wrong for large key shapes)"
               % (f.path, kind, ty, exact if exact[1] < 2**130 else (exact[0], ">2^130"), rng), where=f.loc())
    chk.count("lossy_operations_examined", n)


def run_config(chk, ctx, name):
    F = ctx.facts(name)
    A = Api(F)
    chk.configs.append(name)
    tag = "" if name == "default" else "[%s]" % name
    an = c03.key_anchors(F, A)
    chk.note("%s: decomposition %s, increment %s, lifetime %s" % (name, an["decomposition"].path, an["inc"].path, an["lifetime"].path))
    # S1
    entries = [an["decomposition"].path, an["inc"].path, an["key_inc"].path, an["lifetime"].path]
    sites, an_ia = pf.run(chk, F, A, entries, "accounting:" + name, allow_recursion=(), tag=tag, partitions="assoc")
    lossy_rules(chk, F, an_ia, an, entries, tag)
    # S2
    c05.threshold_rules(chk, F, an, tag, prefix="S2")
    # S3
    c03.decomposition_rules(chk, F, an["decomposition"], an["cfield"], tag, prefix="S3")
    # S4
    lifetime_rules(chk, F, an, tag)


def run(chk, ctx):
    chk.explanation = (
        "The decomposition, the increment and the lifetime computation are analysed as entry points with unknown counter and any accepted height list "
        "(no bound on the sum): every arithmetic assertion and partial call is discharged; the exhaustion bound is compared with 2^t - 1 by interval analysis "
        "under three partitions of the total height; the decomposition and lifetime loops satisfy the structural rules listed in the module docstring.")
    chk.not_decided = "equality with the mixed-radix digit rule, successor = c+1 and lifetime = leaves - counter as numeric identities over all 2^64 counters"
    chk.trusted_base = ["rustc MIR construction (overflow checks on)", "rules/summaries.py models of checked_shl / saturating ops", "64-bit usize"]
    configs = ["default"] if ctx.tier == "quick" else ["default", "std", "fast_verify"]
    for name in configs:
        run_config(chk, ctx, name)
    chk.floor("panic_sites", 10)
    chk.floor("threshold_partitions", 3)
    chk.floor("lifetime_multiplications", 1)
