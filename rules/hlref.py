"""Reference tables for the HL engine: the hash preimages of RFC 8554 (sections 4.3-4.5, 5.3) and of the hash-sigs
key derivation / aux MAC, written independently of the crate, plus canonicalisation and matching of extracted sessions.

A pattern is a list of items; an item is a set of acceptable canonical tokens, optionally repeated ('*').
Canonical tokens:  C:<hex>  BE16/BE32/BE64  A<n> (n-byte array)  V (byte string of data-dependent or statically unknown length)
                   SUB(<tok>,<range>)  BUF<len>{pos:tok;...}  [b0,b1,..]  u8 / u8:0xNN  FILL(n,v)  ->fn(shared|mut)
Where the code passes a slice whose width the types do not fix (verifier side, parsed input) `V` is accepted in place of A16 / A4."""
from . import core, hl

I16 = {"A16", "V"}          # tree identifier I (16 bytes)
Q4 = {"A4", "BE32", "V"}    # q / r as u32str (already big-endian bytes, or encoded here)
N = {"V"}                   # n-byte value (hash output, seed, randomizer) or message


def canon(tok):
    k = tok[0]
    if k == "CONST":
        v = tok[2]
        return "C:%s" % (v if isinstance(v, str) else "%x" % v)
    if k in ("BE", "LE", "NE"):
        src = str(tok[2]) if len(tok) > 2 else ""
        if k in ("BE", "LE") and src.startswith("const:") and src[6:].isdigit() and tok[1]:
            # the encoding of a constant is a constant byte string (D_xxxx.to_be_bytes() instead of two literal bytes)
            return "C:" + int(src[6:]).to_bytes(tok[1], "big" if k == "BE" else "little").hex()
        return "%s%d" % (k, (tok[1] or 0) * 8)
    if k == "ARR":
        return "A%s" % tok[1]
    if k in ("BYTES", "DIGEST"):
        return "V"
    if k == "SUB":
        return "SUB(%s,%s)" % (canon(tok[2][0]), tok[2][1])
    if k == "BUF":
        ents = []
        lay = list(tok[2])
        # two neighbouring bytes that are byte 0 and byte 1 of one u16's big-endian encoding are that encoding
        merged = []
        skip = set()
        for i, (pos, w, t) in enumerate(lay):
            if i in skip:
                continue
            if t[0] == "BYTE" and str(t[2]).startswith("be[0]:") and str(pos).isdigit():
                for j, (pos2, w2, t2) in enumerate(lay):
                    if j != i and t2[0] == "BYTE" and str(t2[2]) == "be[1]:" + str(t[2])[6:] and str(pos2).isdigit() and int(pos2) == int(pos) + 1:
                        merged.append(("%d..%d" % (int(pos), int(pos) + 2), 2, ("BE", 2, str(t[2])[6:])))
                        skip.add(j)
                        break
                else:
                    merged.append((pos, w, t))
            else:
                merged.append((pos, w, t))
        lay = [x for n_, x in enumerate(merged)]
        for pos, w, t in [e_ for e_ in lay if not (e_[2][0] == "BYTE" and str(e_[2][2]).startswith("be[1]:") and any(m[2][0] == "BE" and m[0].startswith(str(int(e_[0]) - 1) + "..") for m in lay if str(e_[0]).isdigit()))]:
            if pos == "init" and t[0] == "FILL" and t[2] == 0:
                continue
            ents.append("%s:%s" % (pos, canon(t)))
        if len(ents) == 1 and ents[0].startswith("..:"):
            return ents[0][3:]  # a buffer that is overwritten as a whole carries exactly that value
        return "BUF%s{%s}" % (tok[1] or "", ";".join(ents))
    if k == "ARRLIT":
        if all(str(x).startswith("0x") for x in tok[2]):
            return "C:%s" % "".join("%02x" % int(x, 16) for x in tok[2])
        return "[%s]" % ",".join(tok[2])
    if k == "FILL":
        if isinstance(tok[1], int) and isinstance(tok[2], int) and tok[1] <= 256 and 0 <= tok[2] < 256:
            return "C:" + ("%02x" % tok[2]) * tok[1]   # a constant array written as a repeat expression
        return "FILL(%s,%s)" % (tok[1], tok[2])
    if k == "BYTE":
        return "u8:%s" % tok[2] if str(tok[2]).startswith("0x") else "u8"
    return str(tok)


def canon_session(sess):
    """[(canonical token, repeated?)] plus the start kind; delegations appear as '->fn(kind)'."""
    start = None
    items = []
    for e in sess:
        if e[0] == "START":
            start = e[1]
        elif e[0] == "ABS":
            if e[1][0] == "CAT":
                # a buffer assembled by appends and absorbed once is the concatenation of what was appended
                for t in e[1][2]:
                    items.append((canon(t), bool(e[2])))
            else:
                items.append((canon(e[1]), bool(e[2])))
        elif e[0] == "DELEGATE":
            items.append(("->%s(%s)" % (e[1], e[2]), False))
        elif e[0] == "CLONE":
            items.append(("<clone>", False))
    return start, items


def _parse_pos(pos):
    """'20' -> (20, 21); '0..16' -> (0, 16); '22..22+len(x)' -> (22, '22+len(x)'); '23..' -> (23, None); else None."""
    pos = str(pos)
    if pos.isdigit():
        return int(pos), int(pos) + 1
    if ".." in pos:
        a, b = pos.split("..", 1)
        if not a.isdigit():
            return None
        return int(a), (int(b) if b.isdigit() else (b or None))
    return None


def flatten(tok):
    """A fixed buffer filled piecewise and absorbed as a whole (or as a prefix slice ending where the last piece ends) is the
    concatenation of its pieces; gaps of a zero-initialised buffer are zero bytes (`Z<k>`).  Returns the list of canonical tokens,
    or None when the pieces do not tile the absorbed range (overlaps, unknown positions, a slice that cuts a piece)."""
    end = ""
    if tok[0] == "SUB":
        inner, rng = tok[2]
        if inner[0] != "BUF" or not str(rng).startswith(".."):
            return None
        end = str(rng)[2:]
        tok = inner
    if tok[0] != "BUF":
        return None
    zero_init = any(pos == "init" and t[0] == "FILL" and t[2] == 0 for pos, w, t in tok[2])
    ents = []
    for pos, w, t in tok[2]:
        if pos == "init":
            continue
        pr = _parse_pos(pos)
        if pr is None:
            return None
        ents.append((pr[0], pr[1], t))
    ents.sort(key=lambda e: e[0])
    out = []
    cur = 0

    def gap(to):
        if isinstance(cur, int) and isinstance(to, int) and to > cur:
            if not zero_init:
                return False
            out.append("Z%d" % (to - cur))
            return True
        return str(cur) == str(to)
    for a, b, t in ents:
        if cur is None:
            return None
        if isinstance(cur, int):
            if a < cur or not gap(a):
                return None
        elif str(cur) != str(a):
            return None
        out.append(canon(t))
        cur = b
    total = end if end else (tok[1] if tok[1] else None)
    if cur is not None:
        if total is None:
            return None
        tot = int(total) if str(total).isdigit() else total
        if isinstance(cur, int) and isinstance(tot, int):
            if tot < cur or not gap(tot):
                return None
        elif str(cur) != str(tot):
            if end:
                return None     # a symbolic slice end that is not where the last piece ends
            if not zero_init:
                return None
            out.append("Zpad")  # zero padding up to the fixed buffer length
    # merge adjacent literal bytes
    merged = []
    for t in out:
        if t.startswith("u8:0x") and merged and merged[-1].startswith("C:"):
            merged[-1] += "%02x" % int(t[3:], 16)
        elif t.startswith("u8:0x"):
            merged.append("C:%02x" % int(t[3:], 16))
        else:
            merged.append(t)
    return merged


def flatten_session(sess):
    """canon_session with every absorbed buffer replaced by its pieces; None if nothing could be flattened."""
    start = None
    items = []
    changed = False
    for e in sess:
        if e[0] == "START":
            start = e[1]
        elif e[0] == "ABS":
            fl = flatten(e[1]) if e[1][0] in ("BUF", "SUB") else None
            if fl is not None:
                changed = True
                items.extend((t, bool(e[2])) for t in fl)
            elif e[1][0] == "CAT":
                for t in e[1][2]:
                    items.append((canon(t), bool(e[2])))
            else:
                items.append((canon(e[1]), bool(e[2])))
        elif e[0] == "DELEGATE":
            items.append(("->%s(%s)" % (e[1], e[2]), False))
        elif e[0] == "CLONE":
            items.append(("<clone>", False))
    return (start, items) if changed else None


FRESH_STARTS = ("fresh", "reset", "from:get_hasher", "from:default")


def match(items, pattern):
    """items: [(token, repeated)], pattern: [(set of tokens | callable, repeated)].  A repeated pattern item matches zero or
    more consecutive repeated items (a loop may run zero times); a plain item matches exactly one non-repeated item."""
    def ok(tok, want):
        return want(tok) if callable(want) else tok in want

    def rec(i, j):
        if j == len(pattern):
            return i == len(items)
        want, rep = pattern[j]
        if rep:
            if rec(i, j + 1):
                return True
            k = i
            while k < len(items) and items[k][1] and ok(items[k][0], want):
                k += 1
                if rec(k, j + 1):
                    return True
            return False
        if i < len(items) and ok(items[i][0], want) and not items[i][1]:
            return rec(i + 1, j + 1)
        return False
    return rec(0, 0)


def loop_variant(pattern):
    """The same pattern when the whole session sits inside a loop (every item repeated)."""
    return [(w, True) for w, r in pattern]


def is_chain_buf(tok):
    """I @0..16, q @16..20, u16 chain index @20..22, u8 step @22, tmp @23.. (RFC 8554 section 4.3 step 'tmp = H(I || u32str(q) ||
    u16str(i) || u8str(j) || tmp)'); the same buffer is re-hashed with the previous output stored at 23.."""
    if not tok.startswith("BUF"):
        return False
    ents = dict(e.split(":", 1) for e in tok[tok.index("{") + 1:-1].split(";") if ":" in e)
    need = {"0..16": I16, "16..20": Q4, "20..22": {"BE16"}, "22": {"u8"}}
    for pos, want in need.items():
        if ents.get(pos) not in want:
            return False
    rest = [p for p in ents if p not in need and p != "init"]
    return bool(rest) and all(p == "23.." and ents[p] == "V" for p in rest) and (ents.get("init") in (None, "FILL(55,0)") or True)


def is_prng_buf(tok):
    """hash-sigs PRNG block: I @0(16), u32 q @16, u16 j @20, 0xff @22, seed @23.., zero padded to 55 bytes, hashed whole."""
    if not tok.startswith("BUF55{"):
        return False
    ents = [e for e in tok[tok.index("{") + 1:-1].split(";") if e]
    want = ["0..16:A16", "16..20:BE32", "20..22:BE16", "22:u8:0xff"]
    seed = [e for e in ents if e.startswith("23..")]
    return ents[:4] == want and len(ents) == 5 and len(seed) == 1 and seed[0].endswith(":V")


def topseed_buf(which):
    def f(tok):
        if not tok.startswith("BUF55{"):
            return False
        ents = [e for e in tok[tok.index("{") + 1:-1].split(";") if e]
        head = ["20:u8:0xfe", "21:u8:0xfe"]
        if which is None:
            return ents[:2] == head and len(ents) == 3 and ents[2] == "23..23+n:V"
        return ents[:2] == head and len(ents) == 4 and ents[2] == "22:u8:0x%02x" % which and ents[3].startswith("23..23+n:") and ("V" in ents[3])
    return f


def daux_prefix(tok):
    return tok in ("SUB(BUF22{20:u8:0xfd;21:u8:0xfd},..)", "BUF22{20:u8:0xfd;21:u8:0xfd}")


def pad_const(byte):
    def f(tok):
        return tok.startswith("SUB(C:") and set(tok[len("SUB(C:"):tok.index(",")]) == set("%02x" % byte) and tok.endswith(",n..B)")
    return f


# name -> (pattern, property that owns it, description)
PATTERNS = {
    # ---- RFC 8554
    "PBLC": ([(I16, False), (Q4, False), ({"C:8080"}, False), (N, True)], "C07", "K = H(I || u32str(q) || D_PBLC || y[0] || ... || y[p-1])"),
    "MESG": ([(I16, False), (Q4, False), ({"C:8181"}, False), (N, False), (N, False)], "C07", "Q = H(I || u32str(q) || D_MESG || C || message)"),
    "MESG-FV": ([(I16, False), (Q4, False), ({"C:8181"}, False), (N, False), (N, False), (lambda t: t.startswith("->") and t.endswith("(shared)"), False), (N, False)], "C15",
                "fast-verify: Q = H(I || q || D_MESG || C || message prefix || [search] || trailer)"),
    "MESG-FV-IMM": ([(I16, False), (Q4, False), ({"C:8181"}, False), (lambda t: t.startswith("->") and t.endswith("(shared)"), False), (N, False), (N, False)], "C15",
                    "fast-verify with an immutable message: Q = H(I || q || D_MESG || [search] || C || message)"),
    "LEAF": ([(I16, False), (Q4, False), ({"C:8282"}, False), (N, False)], "C07", "H(I || u32str(r) || D_LEAF || K)"),
    "INTR": ([(I16, False), (Q4, False), ({"C:8383"}, False), (N, False), (N, False)], "C07", "H(I || u32str(r) || D_INTR || T[2r] || T[2r+1])"),
    "CHAIN": ([(is_chain_buf, True)], "C07", "tmp = H(I || u32str(q) || u16str(i) || u8str(j) || tmp)"),
    # ---- hash-sigs derivation
    "OTSKEY": ([(I16, True), (Q4, True), ({"BE16"}, True), ({"C:ff"}, True), (N, True)], "C08", "x[i] = H(I || u32str(q) || u16str(i) || 0xff || SEED)"),
    "PRNG": ([(is_prng_buf, False)], "C08", "hash-sigs seed derivation block I@0 || q@16 || j@20 || 0xff@22 || seed@23, 55 bytes"),
    "TOPSEED0": ([(topseed_buf(None), False)], "C08", "H(0^20 || D_TOPSEED || 0 || seed)"),
    "TOPSEED1": ([(topseed_buf(1), False)], "C08", "H(0^20 || D_TOPSEED || 1 || H0) -> top seed"),
    "TOPSEED2": ([(topseed_buf(2), False)], "C08", "H(0^20 || D_TOPSEED || 2 || H0) -> top I"),
    # ---- aux data MAC (hash-sigs layout, C10)
    "DAUX": ([(daux_prefix, False), (N, False)], "C10", "aux MAC key = H(0^20 || D_DAUX || seed)"),
    "HMAC-IPAD": ([(N, False), (pad_const(0x36), False)], "C10", "H((K ^ ipad) || ipad[n..B] ..."),
    "HMAC-OPAD": ([(N, False), (pad_const(0x5c), False), (N, False)], "C10", "H((K ^ opad) || opad[n..B] || inner)"),
    "HMAC-DATA": ([(N, False), (lambda t: t.startswith("->") and t.endswith("(mut)"), False)], "C10", "... || data) then outer hash"),
    "AUX-MAC": ([({"BE32"}, False), (N, True), (lambda t: t.startswith("->") and t.endswith("(mut)"), False)], "C10", "... || u32str(level word) || cached levels) then outer hash"),
    # ---- fast-verify search (trial values, not wire format)
    "FV-TRIAL": ([(lambda t: True, True)], "C15", "trial randomizer hashing inside the fast-verify search"),
}

# the same reference preimages when the buffer-shaped ones are written piecewise (see flatten)
FLAT_PATTERNS = {
    "DAUX": [({"Z20"}, False), ({"C:fdfd"}, False), (N, False)],
}

# sessions without absorbed data: a hasher only finalised / only handed on
EMPTY_OK = "a session that absorbs nothing here (finalises or delegates a hasher prepared elsewhere)"


def classify(start, items, fn_path):
    """Names of the patterns a canonical session matches."""
    if not [i for i in items if not i[0].startswith("->") and i[0] != "<clone>"]:
        return ["EMPTY"]
    out = []
    for name, (pat, owner, descr) in PATTERNS.items():
        if name == "FV-TRIAL":
            continue
        if match(items, pat) or match(items, loop_variant(pat)) or match(items, [(w, False) for w, r in pat]):
            out.append(name)
        elif name in FLAT_PATTERNS and match(items, FLAT_PATTERNS[name]):
            out.append(name)
    if not out and "thread_optimize" in fn_path:
        out.append("FV-TRIAL")
    return out


# ---------------------------------------------------------------------------------------------- shared rule helpers
def _subst(e, consts):
    """Replace ('param', i) fill values inside a session entry by the constant the caller passes (if any)."""
    if isinstance(e, tuple):
        if len(e) == 3 and e[0] == "FILL" and isinstance(e[2], tuple) and e[2] and e[2][0] == "param":
            return ("FILL", e[1], consts.get(e[2][1]))
        return tuple(_subst(x, consts) for x in e)
    return e


def analyse_sessions(F):
    """[(fn, end kind, block, start, items, classes, rendered)] for every hasher session of the crate."""
    S = hl.Sessions(F)
    out = []
    for f in S.hasher_fns():
        for sess, end, b in S.sessions(f):
            st, items = canon_session(sess)
            cls = classify(st, items, f.path)
            if not cls:
                # a preimage assembled in a fixed buffer and absorbed once: compare its pieces
                fl = flatten_session(sess)
                if fl is not None:
                    cls2 = classify(fl[0], fl[1], f.path)
                    if cls2:
                        st, items, cls = fl[0], fl[1], cls2
            out.append([f, end, b, st, items, cls, hl.render_session(sess), sess])
    # a hasher prepared by a local helper (`fn keyed(key, pad) -> H`) and continued by its callers: the preimage is the helper's
    # absorbed data (its parameters replaced by the constants the caller passes) followed by the caller's.  Only sessions that
    # are not reference preimages on their own are stitched; the helper's own fragment is then accounted for by its callers.
    by_fn = {}
    for rec in out:
        by_fn.setdefault(rec[0].path, []).append(rec)
    for _round in range(3):
        for rec in out:
            f, cls, sess = rec[0], rec[5], rec[7]
            if cls and cls != ["EMPTY"]:
                continue
            start = next((e for e in sess if e[0] == "START"), None)
            if start is None or len(start) < 3:
                continue
            gp, cb = start[2]
            pieces = [r for r in by_fn.get(gp, []) if r[1] == "return"]
            if len(pieces) != 1 or (cls == ["EMPTY"] and pieces[0][5]):
                continue
            g = F.fns[gp]
            call = f.blocks[cb]["term"]
            consts = {i + 1: core.op_const_val(a) for i, a in enumerate(call["args"])}
            stitched = tuple(_subst(e, consts) for e in pieces[0][7]) + tuple(e for e in sess if e[0] != "START")
            st2, items2 = canon_session(stitched)
            cls2 = classify(st2, items2, f.path)
            if cls2:
                rec[3], rec[4], rec[5] = st2, items2, cls2
                rec[6] = hl.render_session(stitched)
                pieces[0].append("used")
    for rec in out:
        if not rec[5] and rec[1] == "return" and len(rec) > 8:
            # every continuation of this fragment must have become a reference preimage
            conts = [r for r in out if r is not rec and any(e[0] == "START" and len(e) >= 3 and e[2][0] == rec[0].path for e in r[7])]
            if conts and all(r[5] for r in conts):
                rec[5] = ["PART"]
    out = [tuple(r[:7]) for r in out]
    return S, out


def closed_world(chk, F, sessions, tag, prefix):
    """Every hash invocation of the library is one of the reference preimages; nothing is left half-absorbed."""
    from . import core
    n = 0
    seen = set()
    for f, end, b, st, items, cls, rendered in sessions:
        key = "%s|%s|%s" % (f.key, end, " ".join(t + ("*" if r else "") for t, r in items))
        if key in seen:
            continue
        seen.add(key)
        n += 1
        chk.ob(prefix + ".every-hash-input-is-a-reference-preimage", key[:300] + tag, bool(cls),
               "%s hashes %s, which is none of the RFC 8554 / hash-sigs preimages (order, widths, constants or buffer offsets differ); reference patterns: %s"
               % (f.path, rendered[:400], ", ".join("%s = %s" % (k, v[2]) for k, v in list(PATTERNS.items())[:6]) + ", ..."), where=f.loc(b))
        chk.ob(prefix + ".no-hasher-left-half-absorbed", "%s|%s%s" % (f.key, end, tag), end != "open-at-return",
               "%s returns while a hasher borrowed from its caller still holds absorbed data (%s): the caller's next hash would be computed over extra bytes" % (f.path, rendered[:200]), where=f.loc(b))
        wire = [c for c in cls if c in ("PBLC", "MESG", "LEAF", "INTR", "OTSKEY", "PRNG", "TOPSEED0", "TOPSEED1", "TOPSEED2", "DAUX", "HMAC-IPAD", "HMAC-OPAD")]
        if wire:
            okst = st in FRESH_STARTS or (st or "").startswith("after:")
            if (st or "").startswith("param:"):
                # a hasher borrowed from the caller: fresh if every caller hands over a hasher that has absorbed nothing yet
                short_name = core.strip_generics(f.path).rsplit("::", 1)[-1]
                handovers = [(st2, it2) for f2, e2, b2, st2, it2, cl2, r2 in sessions
                             if any(t == "->%s(mut)" % short_name for t, _ in it2)]
                okst = bool(handovers) and all((st2 in FRESH_STARTS or (st2 or "").startswith("after:")) and
                                               not [t for t, _ in it2[: [t for t, _ in it2].index("->%s(mut)" % short_name)] if not t.startswith("->")]
                                               for st2, it2 in handovers)
            if st == "captured":
                # a hasher captured by a closure: fresh at every call if each session of the closure ends by resetting it
                ends = [e2 for f2, e2, b2, st2, it2, cl2, r2 in sessions if f2.path == f.path]
                okst = all(e2 in ("finalize_reset",) for e2 in ends)
            chk.ob(prefix + ".preimage-starts-on-a-fresh-hasher", "%s|%s|%s%s" % (f.key, wire[0], st, tag), okst,
                   "%s computes %s on a hasher that is not visibly fresh (start: %s)" % (f.path, wire[0], st), where=f.loc(b))
    chk.count("hash_sessions", n)
    # `after:<fn>` starts rely on fn leaving the hasher reset: no open-at-return anywhere (checked above)


def presence(chk, sessions, wanted, tag, prefix):
    by = {}
    for f, end, b, st, items, cls, rendered in sessions:
        for c in cls:
            by.setdefault(c, set()).add(f.path)
    for name, need in wanted.items():
        chk.ob(prefix + ".reference-preimage-present", "%s%s" % (name, tag), len(by.get(name, ())) >= need,
               "reference preimage %s (%s) is computed in %d function(s), expected at least %d: %s" % (name, PATTERNS[name][2], len(by.get(name, ())), need, sorted(by.get(name, ()))))
        chk.count("reference_patterns_checked", 1)


SERIAL_LAYOUTS = {
    # role: pattern over canonical tokens; 'S:<role>' = the bytes returned by the serialiser of that role
    "lmots-signature": [({"BE32"}, False), (N, False), (lambda t: t in ("V", "[v]") or t.startswith("["), True)],       # u32str(type) || C || y[0..p)
    "lms-public-key": [({"BE32"}, False), ({"BE32"}, False), (I16, False), (N, False)],                                     # u32str(lms type) || u32str(ots type) || I || T[1]
    "private-key": [({"BE64"}, False), ({"A8"}, False), (N, False)],                                                        # hash-sigs: u64 counter || 8 parameter bytes || seed
    "lms-signature": [(Q4, False), ({"S:lmots-signature"}, False), ({"BE32"}, False), (N, True)],                             # u32str(q) || lmots_signature || u32str(type) || path
    "signed-public-key": [({"S:lms-signature"}, False), ({"S:lms-public-key"}, False)],                                     # sig[i] || pub[i+1]
    "hss-signature": [({"BE32"}, False), ({"S:signed-public-key"}, True), ({"S:lms-signature"}, False)],                    # u32str(Nspk) || signed_pub_key[0..Nspk) || sig[Nspk]
    "hss-public-key": [({"BE32"}, False), ({"S:lms-public-key"}, False)],                                                   # u32str(L) || pub[0]
    "digest-with-checksum": [(N, False), (lambda t: t.startswith("["), False), (lambda t: t.startswith("["), False)],       # Q || Cksm(Q) as two bytes
}


# equivalent spellings of a layout (same bytes): the two checksum bytes appended as `checksum.to_be_bytes()`
SERIAL_LAYOUTS_ALT = {
    "digest-with-checksum#be16": [(N, False), ({"BE16"}, False)],
}


def classify_serialisers(F):
    """{fn path: role} by matching append sequences against SERIAL_LAYOUTS, bottom-up (a call to a classified serialiser is
    the token S:<role>); plus {fn path: rendered sequences} for the unmatched ones."""
    T = hl.Tokens(F)
    fns = [f for f in hl.byte_vec_fns(F)]
    seqs = {}
    for f in fns:
        ss = [s for s in hl.append_sequences(F, T, f) if s]
        if ss:
            seqs[f.path] = ss
    roles = {}
    changed = True
    while changed:
        changed = False
        for p, ss in seqs.items():
            if p in roles:
                continue
            cs = []
            pending = False
            for sq in ss:
                row = []
                for t, rep in sq:
                    c = canon(t)
                    if t[0] == "BYTES" and isinstance(t[2], str) and t[2].startswith("call:") and t[2][5:] in seqs:
                        if t[2][5:] in roles:
                            c = "S:" + roles[t[2][5:]]
                        else:
                            pending = True  # callee not classified yet
                    row.append((c, rep))
                cs.append(row)
            if pending:
                continue
            for role, pat in list(SERIAL_LAYOUTS.items()) + list(SERIAL_LAYOUTS_ALT.items()):
                role = role.split("#")[0]
                if all(match(r, pat) for r in cs):
                    roles[p] = role
                    changed = True
                    break
    return roles, {p: [hl.render_seq(s) for s in ss] for p, ss in seqs.items() if p not in roles}


def serialiser_rules(chk, F, wanted_roles, tag, prefix):
    roles, unmatched = classify_serialisers(F)
    for p, rendered in sorted(unmatched.items()):
        f = F.fns[p]
        chk.ob(prefix + ".serialiser-matches-a-reference-layout", f.key + tag, False,
               "%s appends %s, which is none of the reference layouts (%s): field order or a field width differs from RFC 8554 / the hash-sigs key format"
               % (p, rendered[:2], ", ".join(sorted(SERIAL_LAYOUTS))), where=f.loc())
    for p, role in sorted(roles.items()):
        chk.ob(prefix + ".serialiser-matches-a-reference-layout", F.fns[p].key + tag, True, "")
    by = {}
    for p, role in roles.items():
        by.setdefault(role, []).append(p)
    for role in wanted_roles:
        chk.ob(prefix + ".reference-layout-present", role + tag, len(by.get(role, [])) == 1,
               "expected exactly one serialiser with the %s layout (%s), found %s" % (role, describe(SERIAL_LAYOUTS[role]), by.get(role, [])))
        chk.count("serialisers_checked", 1)
    return roles


def describe(pat):
    out = []
    for want, rep in pat:
        s = "/".join(sorted(want)) if not callable(want) else getattr(want, "__doc__", None) or "<predicate>"
        out.append(s + ("*" if rep else ""))
    return " || ".join(out)


def call_to(suffix):
    def f(tok):
        return tok == "V"
    f.__doc__ = suffix
    return f
