"""Interprocedural constant propagation of `Option::None` arguments (and the booleans /
discriminants derived from them) used to prune call-graph reachability.

Purpose (C09-E5, C15): the shared signing core takes `message_mut: Option<&mut [u8]>`; the
plain `sign` passes `None`, so the fast-verify branch (RNG, threads) is dead for it.  The
analysis is a classic sparse conditional constant propagation restricted to:
  * locals all of whose live definitions are `Option::None` aggregates or copies of such,
  * shared/mutable references to those locals,
  * results of `Option::is_some` / `Option::is_none` on such references, `discriminant()` of
    such locals, boolean / integer constants,
  * `SwitchInt` terminators whose operand has a known value.
Anything else is "unknown" and keeps both branches live (sound over-approximation).
"""
from collections import deque

from . import core

OPTION = "core::option::Option"


class NoneCP:
    def __init__(self, F):
        self.F = F
        self.none_params = {}  # fn path -> frozenset of param locals known None (meet over call sites)
        self.live = {}  # fn path -> set of live blocks

    def analyze_fn(self, f, none_params):
        """Returns (live blocks, none_locals)."""
        nb = len(f.blocks)
        live = set(range(nb))
        while True:
            none_l, refs, vals = self._values(f, none_params, live)
            new_live = self._liveness(f, vals)
            if new_live == live:
                return live, none_l, refs, vals
            live = new_live & live

    def _values(self, f, none_params, live):
        none_l = set(none_params)
        refs = {}  # local -> none-local it points to
        vals = {}  # local -> int
        changed = True
        # gather defs in live blocks
        defs = {}
        for b in live:
            blk = f.blocks[b]
            for s in blk["stmts"]:
                if s["k"] == "assign" and not s["place"]["proj"]:
                    defs.setdefault(s["place"]["local"], []).append(("rv", s["rv"]))
                elif s["k"] in ("assign", "setdiscr"):
                    defs.setdefault(s["place"]["local"], []).append(("partial", None))
            t = blk["term"]
            if t["k"] == "call":
                if not t["dest"]["proj"]:
                    defs.setdefault(t["dest"]["local"], []).append(("call", t))
                else:
                    defs.setdefault(t["dest"]["local"], []).append(("partial", None))
        # locals whose address is taken mutably could be overwritten through the reference:
        mut_borrowed = set()
        for b in live:
            for s in f.blocks[b]["stmts"]:
                if s["k"] == "assign" and s["rv"]["k"] in ("ref", "rawptr") and s["rv"].get("bk") != "shared" and s["rv"].get("bk") != "fake":
                    mut_borrowed.add(s["rv"]["place"]["local"])
        for _ in range(50):
            changed = False
            for l, ds in defs.items():
                if 1 <= l <= f.arg_count:
                    continue
                # None-ness
                if l not in none_l and l not in mut_borrowed:
                    ok = True
                    for kind, d in ds:
                        if kind != "rv":
                            ok = False
                            break
                        if d["k"] == "aggregate" and d.get("agg") == "adt" and d["path"] == OPTION and d["variant"] == "None":
                            continue
                        if d["k"] == "use":
                            src = core.op_local(d["op"])
                            if src is not None and src in none_l:
                                continue
                        ok = False
                        break
                    if ok and ds:
                        none_l.add(l)
                        changed = True
                # references to none locals
                if l not in refs:
                    tgt = None
                    ok = True
                    for kind, d in ds:
                        if kind != "rv":
                            ok = False
                            break
                        t = None
                        if d["k"] == "ref":
                            p = d["place"]
                            if not p["proj"] and p["local"] in none_l:
                                t = p["local"]
                            elif len(p["proj"]) == 1 and p["proj"][0]["k"] == "deref" and p["local"] in refs:
                                t = refs[p["local"]]
                        elif d["k"] == "use":
                            src = core.op_local(d["op"])
                            if src is not None and src in refs:
                                t = refs[src]
                        if t is None or (tgt is not None and t != tgt):
                            ok = False
                            break
                        tgt = t
                    if ok and tgt is not None:
                        refs[l] = tgt
                        changed = True
                # known integer values
                if l not in vals:
                    v = None
                    ok = True
                    for kind, d in ds:
                        x = None
                        if kind == "rv":
                            if d["k"] == "use":
                                cv = core.op_const_val(d["op"])
                                if cv is not None:
                                    x = cv
                                else:
                                    src = core.op_local(d["op"])
                                    if src is not None and src in vals:
                                        x = vals[src]
                            elif d["k"] == "discr":
                                p = d["place"]
                                if not p["proj"] and p["local"] in none_l and p["local"] not in mut_borrowed:
                                    x = 0
                            elif d["k"] == "unop" and d["op"] == "Not":
                                src = core.op_local(d["a"])
                                if src is not None and src in vals and f.locals[l]["ty"]["k"] == "bool":
                                    x = 1 - vals[src]
                        elif kind == "call":
                            cp = core.callee_path(d)
                            if cp and core.strip_generics(cp) in ("core::option::Option::is_some", "core::option::Option::is_none") and d["args"]:
                                a = core.op_local(d["args"][0])
                                if a is not None and a in refs:
                                    x = 0 if cp.endswith("is_some") else 1
                        if x is None or (v is not None and x != v):
                            ok = False
                            break
                        v = x
                    if ok and v is not None:
                        vals[l] = v
                        changed = True
            if not changed:
                break
        return none_l, refs, vals

    def _liveness(self, f, vals):
        live = {0}
        dq = deque([0])
        while dq:
            b = dq.popleft()
            t = f.blocks[b]["term"]
            succs = f.succ[b]
            if t["k"] == "switch":
                d = t["discr"]
                v = core.op_const_val(d)
                if v is None:
                    l = core.op_local(d)
                    if l is not None and l in vals:
                        v = vals[l]
                if v is not None:
                    tgt = None
                    for val, bb in t["targets"]:
                        if val == v:
                            tgt = bb
                    if tgt is None:
                        tgt = t["otherwise"]
                    succs = [tgt]
            for s in succs:
                if s not in live:
                    live.add(s)
                    dq.append(s)
        return live

    def run(self, entries):
        F = self.F
        work = deque()
        for e in entries:
            self.none_params[e] = frozenset()
            work.append(e)
        result = {}
        guard = 0
        while work:
            guard += 1
            if guard > 20000:
                raise RuntimeError("NoneCP did not converge")
            p = work.popleft()
            f = F.fns[p]
            live, none_l, refs, vals = self.analyze_fn(f, self.none_params[p])
            result[p] = live
            # propagate to callees
            for b in sorted(live):
                t = f.blocks[b]["term"]
                targets = []
                if t["k"] in ("call", "tailcall"):
                    tps = F.call_targets(f, t)
                    for tp in tps:
                        g = F.fns[tp]
                        np_ = set()
                        for i, a in enumerate(t["args"]):
                            l = core.op_local(a)
                            if l is not None and l in none_l and i + 1 <= g.arg_count:
                                np_.add(i + 1)
                        targets.append((tp, frozenset(np_)))
                elif t["k"] == "drop":
                    for tp, bb, k in F.cg.get(p, []):
                        if k == "drop" and bb == b:
                            targets.append((tp, frozenset()))
                for tp, np_ in targets:
                    if tp not in self.none_params:
                        self.none_params[tp] = np_
                        work.append(tp)
                    else:
                        meet = self.none_params[tp] & np_
                        if meet != self.none_params[tp]:
                            self.none_params[tp] = meet
                            work.append(tp)
            for tp, bb, k in F.cg.get(p, []):
                if k == "closure" and tp not in self.none_params:
                    self.none_params[tp] = frozenset()
                    work.append(tp)
        self.live = result
        return result
