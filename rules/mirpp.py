"""Pretty printer for the JSON MIR facts (debugging / report aid)."""


def pp_place(p):
    s = "_%d" % p["local"]
    for e in p["proj"]:
        k = e["k"]
        if k == "deref":
            s = "(*%s)" % s
        elif k == "field":
            s = "%s.%s" % (s, e.get("name", e["i"]))
        elif k == "index":
            s = "%s[_%d]" % (s, e["local"])
        elif k == "constidx":
            s = "%s[%s%d]" % (s, "-" if e["from_end"] else "", e["offset"])
        elif k == "subslice":
            s = "%s[%d..%s%d]" % (s, e["from"], "-" if e["from_end"] else "", e["to"])
        elif k == "downcast":
            s = "(%s as %s)" % (s, e.get("variant", e["idx"]))
        else:
            s = "%s.?" % s
    return s


def pp_op(o):
    k = o["k"]
    if k in ("copy", "move"):
        return "%s %s" % (k, pp_place(o["place"]))
    if k == "const":
        if "fn" in o:
            f = o["fn"]
            r = f.get("resolved")
            return "fn(%s)" % (r["s"] if r else "?" + f["s"])
        if "val" in o:
            u = o.get("unevaluated")
            return "const %s_%s%s" % (o["val"], o["ty"]["s"], (" /*%s*/" % u["path"]) if u else "")
        return "const{%s}" % o["s"]
    return o.get("s", "?")


def pp_rv(rv):
    k = rv["k"]
    if k == "use":
        return pp_op(rv["op"])
    if k == "repeat":
        return "[%s; %s]" % (pp_op(rv["op"]), rv.get("n"))
    if k == "ref":
        return "&%s %s" % (rv["bk"], pp_place(rv["place"]))
    if k == "rawptr":
        return "&raw %s" % pp_place(rv["place"])
    if k == "cast":
        return "%s as %s (%s)" % (pp_op(rv["op"]), rv["ty"]["s"], rv["cast"])
    if k == "binop":
        return "%s(%s, %s)" % (rv["op"], pp_op(rv["a"]), pp_op(rv["b"]))
    if k == "unop":
        return "%s(%s)" % (rv["op"], pp_op(rv["a"]))
    if k == "discr":
        return "discriminant(%s)" % pp_place(rv["place"])
    if k == "aggregate":
        name = rv["agg"]
        if name == "adt":
            name = "%s::%s" % (rv["path"], rv["variant"])
        return "%s{%s}" % (name, ", ".join(pp_op(o) for o in rv["ops"]))
    return rv.get("s", k)


def pp_term(t):
    k = t["k"]
    if k == "goto":
        return "goto -> bb%d" % t["target"]
    if k == "switch":
        return "switchInt(%s) -> [%s, otherwise: bb%d]" % (
            pp_op(t["discr"]),
            ", ".join("%d: bb%d" % (v, b) for v, b in t["targets"]),
            t["otherwise"],
        )
    if k == "call":
        return "%s = %s(%s) -> %s%s" % (
            pp_place(t["dest"]),
            pp_op(t["func"]),
            ", ".join(pp_op(a) for a in t["args"]),
            ("bb%d" % t["target"]) if t["target"] is not None else "!",
            (" unwind bb%d" % t["unwind"]) if t["unwind"] is not None else "",
        )
    if k == "drop":
        return "drop(%s) -> bb%d" % (pp_place(t["place"]), t["target"])
    if k == "assert":
        m = t["msg"]
        extra = ""
        if m["kind"] == "BoundsCheck":
            extra = "len=%s index=%s" % (pp_op(m["len"]), pp_op(m["index"]))
        elif m["kind"] == "Overflow":
            extra = "%s(%s,%s)" % (m["op"], pp_op(m["a"]), pp_op(m["b"]))
        elif "a" in m:
            extra = pp_op(m["a"])
        return "assert(%s%s, %s %s) -> bb%d" % (
            "" if t["expected"] else "!",
            pp_op(t["cond"]),
            m["kind"],
            extra,
            t["target"],
        )
    return k


def pp_fn(fn, body=None):
    body = body or fn["body"]
    out = []
    out.append("fn %s  [%s:%s]" % (fn["path"], fn["span"]["file"], fn["span"]["line"]))
    names = {}
    for d in body["debug"]:
        if "place" in d and not d["place"]["proj"]:
            names[d["place"]["local"]] = d["name"]
    for i, l in enumerate(body["locals"]):
        out.append("  let _%d: %s%s" % (i, l["ty"]["s"], ("  // " + names[i]) if i in names else ""))
    for i, b in enumerate(body["blocks"]):
        out.append("  bb%d%s:" % (i, " (cleanup)" if b["cleanup"] else ""))
        for s in b["stmts"]:
            if s["k"] == "assign":
                out.append("    %s = %s" % (pp_place(s["place"]), pp_rv(s["rv"])))
            elif s["k"] == "setdiscr":
                out.append("    discriminant(%s) = %d" % (pp_place(s["place"]), s["variant"]))
            elif s["k"] == "intrinsic":
                out.append("    intrinsic %s" % s["s"])
        out.append("    %s   // L%d" % (pp_term(b["term"]), b["term"]["span"]["line"]))
    return "\n".join(out)


if __name__ == "__main__":
    import json
    import sys

    facts = json.load(open(sys.argv[1]))
    pat = sys.argv[2] if len(sys.argv) > 2 else ""
    for fn in facts["functions"]:
        if pat in fn["path"]:
            print(pp_fn(fn))
            for i, p in enumerate(fn.get("promoted", [])):
                print("  -- promoted[%d]" % i)
                print(pp_fn(fn, p))
            print()
