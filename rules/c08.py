"""C08 - keys are derived and encoded exactly as the hash-sigs reference does (clause level).

  K1  every hash invocation is a reference preimage (shared closed-world rule of the HL engine) and the derivation preimages are
      present: PRNG block  I@0(16) || u32 q@16 || u16 j@20 || 0xff@22 || seed@23  hashed as the whole zero-padded 55-byte block;
      top-seed block  0^20 || 0xfefe@20 || which@22 || seed@23  hashed with which = 0, then 1 (-> seed) and 2 (-> I) over the first
      digest; chain-start derivation  I || u32 q || u16 i || 0xff || seed
  K2  derivation constants evaluated from the source: D_TOPSEED = 0xfefe, child seed index 0xfffe, randomizer index 0xfffd, ILEN = 16
  K3  child derivation: child seed = first output of the derivation keyed with (parent seed, parent I, parent leaf, index 0xfffe,
      incrementing), child I = the first ILEN bytes of the next output of the same derivation object
      and inside the derivation routine the index field is encoded into the block before it is advanced (post-increment, as hash-sigs)
  K4  private key blob: the serialiser appends u64-BE counter || 8 parameter bytes || seed and the parser reads the same three
      widths in the same order and decodes the counter big-endian
  K5  parameter byte: (LMS type << 4) + LM-OTS type when encoding, >> 4 and & 0x0f when decoding; unused bytes are 0xff and 0xff
      ends the list
  K6  public key: u32 level count || u32 LMS type || u32 LM-OTS type || I || root (serialiser layout, shared with C07-H3)
  K7  hash truncation: every hash implementation returns the first OUTPUT_SIZE bytes of the underlying function's output
      (SHA-256: prefix slice; SHAKE: XOF read from the start)
Not decided: byte identity with the external hash-sigs tool on concrete seeds (its only test is #[ignore]d and needs the binary).
"""
import re
from . import c03, core, expr, flow, hl, hlref, paramtable as pt
from .api import Api
from .core import AnchorLost

LEVEL = "other"
TECHNIQUE = ("hash-session extraction with interprocedural buffer layouts matched against hash-sigs reference preimages; evaluated constants; expression-DAG rules on "
             "derivation, nibble packing and truncation; writer / reader agreement on the key blob (append sequence vs. read sequence)")


def const_named(F, suffix):
    c = [v for k, v in F.consts.items() if k.endswith("::" + suffix)]
    if len(c) != 1 or "val" not in c[0]:
        raise AnchorLost("constant %s" % suffix)
    return c[0]["val"]


def k2_constants(chk, F, tag):
    for name, want in (("D_TOPSEED", 0xfefe), ("SEED_CHILD_SEED", 0xfffe), ("SEED_SIGNATURE_RANDOMIZER_SEED", 0xfffd), ("ILEN", 16),
                       ("PRNG_I", 0), ("PRNG_Q", 16), ("PRNG_J", 20), ("PRNG_FF", 22), ("PRNG_SEED", 23), ("TOPSEED_D", 20), ("TOPSEED_WHICH", 22), ("TOPSEED_SEED", 23)):
        got = const_named(F, name)
        chk.ob("K2.derivation-constant", "%s%s" % (name, tag), got == want, "%s is %#x in the source; hash-sigs uses %#x" % (name, got, want))
        chk.count("derivation_constants", 1)


def k3_child_derivation(chk, F, A, tag):
    ka = c03.key_anchors(F, A)
    # routine returning the (seed, identifier) pair type from a parent pair and a leaf
    idt = None
    for p, f in F.fns.items():
        if f.j.get("output", {}).get("k") == "adt" and len(f.j.get("inputs", [])) == 2 and f.j["inputs"][0].get("k") == "ref" and f.j["inputs"][0]["ty"].get("path") == f.j["output"].get("path") \
                and f.j["inputs"][1].get("k") == "ref" and f.j["inputs"][1]["ty"].get("s") == "u32":
            idt = f
    chk.ob("K3.child-derivation-found", "child" + tag, idt is not None, "child seed / identifier derivation routine (fn(&Pair, &u32) -> Pair) not found")
    if idt is None:
        return
    f = idt
    ex = expr.Expr(F, f)
    derive_calls = [(b, t) for b, t in f.calls() if core.strip_generics(core.callee_path(t) or "").endswith("seed_derive") and not f.blocks[b]["cleanup"]]
    incs = [core.op_const_val(t["args"][1]) for b, t in derive_calls]
    owners = {flow.resolve_owner(f, t["args"][0], want_mut=True) for b, t in derive_calls}
    order_ok = len(derive_calls) == 2 and f.dominates(derive_calls[0][0], derive_calls[1][0]) and incs == [1, 0] and len(owners) == 1
    chk.ob("K3.two-outputs-of-one-derivation-first-incrementing", f.key + tag, order_ok,
           "%s does not draw the child seed (incrementing) and then the identifier from one derivation object (calls %d, increment flags %s, objects %d)" % (f.path, len(derive_calls), incs, len(owners)),
           where=f.loc())
    # post-increment: inside the derivation routine the index field is encoded into the block *before* it is advanced
    # (hash-sigs: `put_bigendian(buffer + PRNG_J, j, 2); if (increment_j) j += 1`); a pre-increment shifts every child seed to index + 1
    for dp in sorted({core.strip_generics(core.callee_path(t) or "") for b, t in derive_calls}):
        cands = [g for q, g in F.fns.items() if core.strip_generics(q) == dp or core.strip_generics(q).endswith("::" + dp.split("::", 1)[-1])]
        for g in cands[:1]:
            gex = expr.Expr(F, g)
            writes = {}
            for b, i, st in g.iter_stmts():
                if st["k"] != "assign" or g.blocks[b]["cleanup"]:
                    continue
                pr = st["place"]["proj"]
                if pr and pr[-1]["k"] == "field" and pr[-1].get("name"):
                    writes.setdefault(pr[-1]["name"], []).append(b)
            enc = []
            for b, t in g.calls():
                if g.blocks[b]["cleanup"] or not (core.callee_path(t) or "").endswith("to_be_bytes") or not t["args"]:
                    continue
                e = gex.of_operand(t["args"][0])
                for x in expr.walk(e):
                    if x[0] == "field" and x[2] in writes:
                        enc.append((b, x[2]))
            chk.count("derivation_index_encodings", len(enc))
            chk.ob("K3.index-field-encoded", g.key + tag, bool(enc) or not writes,
                   "%s advances %s but no big-endian encoding of that field was found" % (g.path, sorted(writes)), where=g.loc())
            for b, name in enc:
                late = [bw for bw in writes[name] if b in g.reachable_blocks(bw)]
                chk.ob("K3.index-encoded-before-it-is-advanced", "%s|%s%s" % (g.key, name, tag), not late,
                       "in %s the field `%s` is written before it is encoded into the derivation block: the block carries the advanced index "
                       "(hash-sigs encodes j first and increments afterwards), every child seed moves to index + 1" % (g.path, name), where=g.loc(b))
    # index constant and leaf set on that object
    sets = [(core.strip_generics(core.callee_path(t) or "").rsplit("::", 1)[-1], t) for b, t in f.calls() if not f.blocks[b]["cleanup"]]
    idx = [core.op_const_val(t["args"][1]) for nm, t in sets if nm == "set_child_seed" and len(t["args"]) == 2]
    leaf = [ex.of_operand(t["args"][1]) for nm, t in sets if nm == "set_lms_leaf_identifier" and len(t["args"]) == 2]
    chk.ob("K3.child-index-constant", f.key + tag, idx == [0xfffe], "child derivation uses index %s, hash-sigs uses 0xfffe" % [hex(x) if x is not None else x for x in idx], where=f.loc())
    chk.ob("K3.child-derivation-uses-parent-leaf", f.key + tag, len(leaf) == 1 and any(x == ("arg", 2) for x in expr.walk(leaf[0])),
           "the derivation's leaf identifier is not the parent leaf parameter: %s" % leaf[:1], where=f.loc())
    # identifier = first ILEN bytes of the second output
    T = hl.Tokens(F)
    ilen = const_named(F, "ILEN")
    okp = False
    detail = ""
    for b, t in f.calls():
        last = core.strip_generics(core.callee_path(t) or "").rsplit("::", 1)[-1]
        if f.blocks[b]["cleanup"]:
            continue
        # identifier.copy_from_slice(&out[..ILEN])  or  out[..ILEN].try_into()
        src = t["args"][1] if last == "copy_from_slice" and len(t["args"]) == 2 else (t["args"][0] if last in ("try_into", "try_from") and t["args"] else None)
        if src is not None:
            tok = T.token(f, src, at=b)
            c = hlref.canon(tok)
            if last == "copy_from_slice" or c.startswith("SUB("):
                detail = c
                okp = okp or c == "SUB(V,..%d)" % ilen
    chk.ob("K3.identifier-is-prefix-of-second-output", f.key + tag, okp, "the child identifier is %s, expected the first %d bytes of the derivation output" % (detail, ilen), where=f.loc())


def k4_key_blob(chk, F, A, roles, tag):
    ser = [p for p, r in roles.items() if r == "private-key"]
    ka = c03.key_anchors(F, A)
    K = ka["K"]
    if len(ser) != 1:
        return
    sf = F.fns[ser[0]]
    # parser: fn(&[u8]) -> Result<K>
    parsers = [f for f in F.fns.values() if f.j.get("output", {}).get("path") == flow.RESULT and f.j["output"]["args"][0].get("path") == K and len(f.j.get("inputs", [])) == 1 and core.is_u8_slice_ref(f.j["inputs"][0])]
    chk.ob("K4.parser-found", K + tag, len(parsers) == 1, "private key parser (fn(&[u8]) -> Result<%s>) not unique: %s" % (K, [f.path for f in parsers]))
    if len(parsers) != 1:
        return
    pf_ = parsers[0]
    T = hl.Tokens(F)
    reads = []
    for b, t in sorted(pf_.calls()):
        tps = F.call_targets(pf_, t)
        if tps and len(t["args"]) == 3 and F.fns[tps[0]].j["output"]["s"].startswith("core::option::Option<&") and not pf_.blocks[b]["cleanup"]:
            reads.append((b, T.sym(pf_, t["args"][1])))
    # order along the CFG: by dominance
    reads.sort(key=lambda r: sum(1 for r2 in reads if pf_.dominates(r2[0], r[0])))
    widths = [w for b, w in reads]
    chk.ob("K4.reader-widths-match-writer", pf_.key + tag, widths == ["8", "8", "n"],
           "%s reads fields of widths %s; the serialiser %s writes u64 || 8 parameter bytes || seed (8, 8, n)" % (pf_.path, widths, sf.path), where=pf_.loc())
    be = [core.strip_generics(core.callee_path(t) or "") for p2, g in F.fns.items() for b, t in g.calls()
          if core.strip_generics(core.callee_path(t) or "").endswith("from_be_bytes") and ("u64" in (core.callee_of(t) or {}).get("s", "")) and F.reachable([pf_.path]).get(p2, None) is not None or p2 == pf_.path and core.strip_generics(core.callee_path(t) or "").endswith("from_be_bytes")]
    tree = F.reachable([pf_.path])
    le = [1 for p2 in tree for b, t in F.fns[p2].calls() if core.strip_generics(core.callee_path(t) or "").rsplit("::", 1)[-1] in ("from_le_bytes", "from_ne_bytes")]
    beok = [1 for p2 in tree for b, t in F.fns[p2].calls() if core.strip_generics(core.callee_path(t) or "").rsplit("::", 1)[-1] == "from_be_bytes" and "u64" in (core.callee_of(t) or {}).get("s", "")]
    chk.ob("K4.counter-decoded-big-endian", pf_.key + tag, bool(beok) and not le, "the 8-byte counter is not decoded with u64::from_be_bytes below %s" % pf_.path, where=pf_.loc())


def k5_parameter_byte(chk, F, A, tag):
    ka = c03.key_anchors(F, A)
    dec = ka["decoder"]
    # encoder: fn(&[HssParameter]) -> Result<Self> with Self = the decoder's Self
    self_ty = dec.j["impl"]["self_ty"].get("path")
    encs = [f for f in F.fns.values() if f.j.get("impl") and f.j["impl"]["self_ty"].get("path") == self_ty and f.j.get("output", {}).get("path") == flow.RESULT
            and f.j.get("inputs") and f.j["inputs"][0].get("k") == "ref" and f.j["inputs"][0]["ty"].get("k") == "slice" and f.j["inputs"][0]["ty"]["elem"].get("k") == "adt"]
    chk.ob("K5.encoder-found", self_ty + tag, len(encs) == 1, "parameter encoder not unique: %s" % [f.path for f in encs])
    if len(encs) == 1:
        enc = encs[0]
        ex = expr.Expr(F, enc)
        stores = [s for b, i, s in enc.iter_stmts() if s["k"] == "assign" and any(e["k"] == "index" for e in s["place"]["proj"]) and not enc.blocks[b]["cleanup"]]
        ok = False
        detail = "no indexed store"
        for s in stores:
            e = ex.of_rvalue(s["rv"], 0)
            detail = str(e)[:200]
            if e[0] == "bin" and e[1] in ("Add", "BitOr"):
                parts = [e[2], e[3]]
                hi = [x for x in parts if x[0] == "bin" and ((x[1] == "Shl" and x[3] == ("const", 4)) or (x[1] == "Mul" and x[3] == ("const", 16)))]
                lo = [x for x in parts if x not in hi]
                if len(hi) == 1 and len(lo) == 1:
                    hi_src, lo_src = str(hi[0][2]), str(lo[0])
                    ok = "lms" in hi_src and "lmots" not in hi_src.replace("get_lms_parameter", "") and "lmots" in lo_src
                    # both nibbles are the numeric *type codes* (hash-sigs' parameter-set codes), not the height / Winternitz values
                    def is_code(x):
                        return any((y[0] == "field" and y[2] == "type_id") or (y[0] == "call" and y[1].endswith("get_type_id")) for y in expr.walk(x)) and \
                            not any(y[0] == "field" and y[2] in ("winternitz", "tree_height") for y in expr.walk(x))
                    codes = is_code(hi[0][2]) and is_code(lo[0])
                    chk.ob("K5.nibbles-are-type-codes", enc.key + tag, codes,
                           "%s packs something other than the LMS / LM-OTS type codes into the parameter byte: %s" % (enc.path, detail), where=enc.loc())
        chk.ob("K5.encoder-packs-lms-high-lmots-low", enc.key + tag, ok,
               "%s does not store (LMS type << 4) + LM-OTS type: %s" % (enc.path, detail), where=enc.loc())
        # initial fill of the parameter bytes = default of Self = 0xff everywhere
    dfl = [f for f in F.fns.values() if f.j.get("impl") and f.j["impl"]["self_ty"].get("path") == self_ty and f.j["impl"].get("trait") == "core::default::Default"]
    okd = False
    detail = "no Default impl"
    for f in dfl:
        reps = [s for _, _, s in f.iter_stmts() if s["k"] == "assign" and s["rv"]["k"] == "repeat"]
        detail = "derived / not a repeat expression" if not reps else "fill value %s" % [core.op_const_val(r["rv"]["op"]) for r in reps]
        okd = len(reps) == 1 and core.op_const_val(reps[0]["rv"]["op"]) == 0xff and reps[0]["rv"].get("n") == 8
    chk.ob("K5.unused-parameter-bytes-are-0xff", self_ty + tag, okd, "the parameter byte array of a fresh key is not [0xff; 8] (%s): hash-sigs pads the parameter set with 0xff" % detail)
    # decoder: >> 4 and & 0x0f, end marker 0xff
    ex = expr.Expr(F, dec)
    shr = andm = endm = False
    for b, i, s in dec.iter_stmts():
        if s["k"] == "assign" and s["rv"]["k"] == "binop" and not dec.blocks[b]["cleanup"]:
            rv = s["rv"]
            cb = core.op_const_val(rv["b"])
            if rv["op"] == "Shr" and cb == 4:
                shr = True
            if rv["op"] == "BitAnd" and cb == 0x0f:
                andm = True
            if rv["op"] in ("Eq", "Ne") and cb == 0xff:
                endm = True
    # ... and each nibble goes through the type-code decoder of its algorithm enum (C12-T1 pins those decoders to the RFC codes)
    fed = {}
    for b, t in dec.calls():
        cp = core.callee_path(t) or ""
        if dec.blocks[b]["cleanup"] or not cp.endswith("::from") or "From<u32>" not in cp or not t["args"]:
            continue
        e = ex.of_operand(t["args"][0])
        kind = "hi" if any(y[0] == "bin" and y[1] == "Shr" and y[3] == ("const", 4) for y in expr.walk(e)) else \
            ("lo" if any(y[0] == "bin" and y[1] == "BitAnd" and y[3] == ("const", 15) for y in expr.walk(e)) else None)
        for nm in ("LmsAlgorithm", "LmotsAlgorithm"):
            if ("<%s as" % A.type_path(nm)) in cp:
                fed[nm] = kind
    chk.ob("K5.nibbles-decoded-as-type-codes", dec.key + tag, fed == {"LmsAlgorithm": "hi", "LmotsAlgorithm": "lo"},
           "%s does not hand the high nibble to the LMS type-code decoder and the low nibble to the LM-OTS type-code decoder (found %s)" % (dec.path, fed), where=dec.loc())
    chk.ob("K5.decoder-inverts-the-packing", dec.key + tag, shr and andm and endm,
           "%s does not decode with `>> 4`, `& 0x0f` and the 0xff end marker (found: shr %s, mask %s, end marker %s)" % (dec.path, shr, andm, endm), where=dec.loc())


def k7_truncation(chk, F, tag):
    tr, impls = pt.hash_impls(F)
    T = hl.Tokens(F)
    n = 0
    for p, f in sorted(F.fns.items()):
        im = f.j.get("impl") or {}
        if im.get("trait") != tr or f.j.get("name") not in ("finalize", "finalize_reset"):
            continue
        out = [o for nm, o, bs in impls if nm == im["self_ty"].get("s")]
        if len(out) != 1:
            chk.ob("K7.output-size-known", f.key + tag, False, "OUTPUT_SIZE of %s not evaluated" % im["self_ty"].get("s"))
            continue
        osz = out[0]
        n += 1
        ok = False
        detail = ""
        # the finaliser itself, and local helpers it hands the digest / reader to (their length parameter bound to the constant
        # the finaliser passes)
        cands = [(f, {})]
        for b, t in f.calls():
            tps = F.call_targets(f, t)
            if f.blocks[b]["cleanup"] or len(tps) != 1 or tps[0] not in F.fns or F.fns[tps[0]].j.get("impl"):
                continue
            pm = {}
            for i, a in enumerate(t["args"]):
                v = core.op_const_val(a)
                pm[i + 1] = v if v is not None else T.sym(f, a)
            cands.append((F.fns[tps[0]], pm))

        def length_of(g, pm, o):
            if o["k"] == "const":
                return core.op_const_val(o)
            org = flow.origin(g, o)
            if org[0] == "arg" and org[1] in pm:
                return pm[org[1]]
            return T.sym(g, o)
        for g, pm in cands:
            for b, t in g.calls():
                if g.blocks[b]["cleanup"]:
                    continue
                last = hl.last_seg(t)
                if last == "try_from" and "ArrayVec" in str((core.callee_of(t) or {}).get("s", "")) + str(((core.callee_of(t) or {}).get("resolved") or {}).get("path", "")):
                    c = hlref.canon(T.token(g, t["args"][0], at=b))
                    detail = c
                    ok = ok or c == "SUB(V,..%d)" % osz
                if last == "extend_from_slice" and len(t["args"]) == 2:
                    # a fresh vector extended once with digest[..len]
                    tok = T.token(g, t["args"][1], at=b)
                    if tok[0] == "SUB" and hlref.canon(tok[2][0]) == "V" and str(tok[2][1]).startswith(".."):
                        end = str(tok[2][1])[2:]
                        m_ = re.match(r"^arg(\d+)$", end)
                        endv = pm.get(int(m_.group(1))) if m_ else (int(end) if end.isdigit() else end)
                        detail = "extend_from_slice(digest[..%s])" % endv
                        apps = [1 for bb, tt in g.calls() if hl.last_seg(tt) in ("extend_from_slice", "push") and not g.blocks[bb]["cleanup"]]
                        ok = ok or (str(endv) == str(osz) and len(apps) == 1)
                if last == "from_array_len":
                    ln = length_of(g, pm, t["args"][1])
                    reads = [1 for bb, tt in g.calls() if hl.last_seg(tt) == "read" and "XofReader" in hl.full_path(tt)]
                    # the XOF is read into the start of the buffer (whole array) and the first OUTPUT_SIZE bytes are kept
                    whole = all(T.dest_range(g, tt["args"][1]) in ("..",) for bb, tt in g.calls() if hl.last_seg(tt) == "read" and "XofReader" in hl.full_path(tt))
                    detail = "from_array_len(buf, %s), xof reads %d, into the whole buffer: %s" % (ln, len(reads), whole)
                    ok = ok or (str(ln) == str(osz) and len(reads) == 1 and whole)
        chk.ob("K7.hash-output-is-the-prefix-of-the-underlying-output", f.key + tag, ok,
               "%s does not return the first %d bytes of the underlying hash / XOF output (%s): stored keys derived with the reference truncation would be orphaned" % (p, osz, detail), where=f.loc())
    chk.count("hash_finalisers", n)


def run_config(chk, ctx, name):
    F = ctx.facts(name)
    A = Api(F)
    chk.configs.append(name)
    tag = "" if name == "default" else "[%s]" % name
    S, sessions = hlref.analyse_sessions(F)
    hlref.closed_world(chk, F, sessions, tag, "K1")
    hlref.presence(chk, sessions, {"PRNG": 1, "TOPSEED0": 1, "TOPSEED1": 1, "TOPSEED2": 1, "OTSKEY": 1, "LEAF": 1, "INTR": 1, "PBLC": 1}, tag, "K1")
    k2_constants(chk, F, tag)
    k3_child_derivation(chk, F, A, tag)
    roles = hlref.serialiser_rules(chk, F, ["private-key", "hss-public-key", "lms-public-key"], tag, "K6")
    k4_key_blob(chk, F, A, roles, tag)
    k5_parameter_byte(chk, F, A, tag)
    k7_truncation(chk, F, tag)


def run(chk, ctx):
    chk.explanation = __doc__.split("\n\n", 1)[1].split("Not decided")[0].strip()
    chk.not_decided = "byte identity with the external hash-sigs tool on concrete seeds; the hash functions themselves"
    chk.trusted_base = ["rustc MIR construction and const evaluation", "hash-sigs derivation layouts and constants as transcribed in rules/hlref.py and rules/c08.py",
                        "sha2 / sha3 crates compute SHA-256 / SHAKE256"]
    configs = ["default"] if ctx.tier == "quick" else ["default", "std", "fast_verify"]
    for name in configs:
        run_config(chk, ctx, name)
    chk.floor("hash_sessions", 15)
    chk.floor("derivation_constants", 8)
    chk.floor("hash_finalisers", 12)
    chk.floor("serialisers_checked", 3)
